#!/usr/bin/env python3
"""Run every check against a behaviour-preserving refactoring (patch applied to /repo, undone afterwards).
usage: tools/try_neutral.py <dir with patch.diff>"""
import concurrent.futures, json, os, subprocess, sys
HERE = os.path.dirname(os.path.dirname(os.path.abspath(__file__)))
sys.path.insert(0, HERE)
from sa.main import PROPS


def sh(cmd, **kw):
    p = subprocess.run(cmd, shell=True, stdout=subprocess.PIPE, stderr=subprocess.STDOUT, universal_newlines=True, **kw)
    return p.returncode, p.stdout


def main():
    d = os.path.abspath(sys.argv[1])
    rc, out = sh("git -C /repo status --porcelain")
    assert out.strip() == "", "/repo is not clean: %s" % out
    rc, out = sh("git -C /repo apply %s" % os.path.join(d, "patch.diff"))
    assert rc == 0, "patch does not apply: %s" % out
    res = {}
    try:
        rc, out = sh("cd /repo && /venv/bin/python -m pytest -q -p no:cacheprovider 2>&1 | tail -1")
        res["tests"] = out.strip()
        env2 = dict(os.environ, VERIF_NO_EVIDENCE="1")
        with concurrent.futures.ThreadPoolExecutor(max_workers=16) as ex:
            outs = dict(zip(sorted(PROPS), ex.map(lambda pid: sh("cd %s && ./check %s" % (HERE, pid), env=env2), sorted(PROPS))))
        res["alarms"] = {}
        for pid, (rc, out) in outs.items():
            if rc != 0:
                res["alarms"][pid] = {"rc": rc, "lines": [l for l in out.splitlines() if ("[" + pid + "/") in l or "ANALYSIS-ERROR" in l][:6]}
    finally:
        sh("git -C /repo checkout -- .")
    print(json.dumps(res, indent=1))
    if "--keep-json" in sys.argv:
        json.dump(res, open(sys.argv[sys.argv.index("--keep-json") + 1], "w"), indent=1)


if __name__ == "__main__":
    main()
