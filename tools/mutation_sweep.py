#!/usr/bin/env python3
"""Systematic first-order mutation sweep (development tool, not a registered check).

Every syntactic mutant of the package sources (comparison / arithmetic / boolean operator
replacement, integer and bytes constants, negation removal, guard removal, argument swap) is
written to a scratch copy and
  (1) all 18 static checks are run on the copy (VERIF_REPO=<copy>; nothing is executed), and
  (2) the repository's own tests are run on the copy - only to *classify* the mutant
      (killed by the tests / survives), never to decide a property.
The interesting rows are the mutants that survive the tests: each is either reported by a check,
or equivalent / outside the 18 properties, or a gap of the checks.  The triage of the silent
survivors is written up in DESIGN.md 11.8; the raw table is MUTATION.jsonl.

usage: mutation_sweep.py [--src DIR] [--jobs N] [--only substr] [--out FILE]
"""
import ast
import concurrent.futures
import json
import os
import re
import shutil
import subprocess
import sys
import tempfile

VERIF = os.path.dirname(os.path.dirname(os.path.abspath(__file__)))
FILES = ["spake2.py", "groups.py", "ed25519_basic.py", "ed25519_group.py", "util.py", "params.py",
         "parameters/ed25519.py", "parameters/i1024.py", "parameters/i2048.py", "parameters/i3072.py", "parameters/all.py"]

CMP = {ast.Eq: ["!="], ast.NotEq: ["=="], ast.Lt: ["<=", ">"], ast.LtE: ["<"], ast.Gt: [">=", "<"], ast.GtE: [">"],
       ast.Is: ["is not"], ast.IsNot: ["is"], ast.In: ["not in"], ast.NotIn: ["in"]}
BIN = {ast.Add: ["-"], ast.Sub: ["+"], ast.Mult: ["+"], ast.Mod: None, ast.FloorDiv: ["*"], ast.Div: ["*"],
       ast.RShift: ["<<"], ast.LShift: [">>"], ast.BitAnd: ["|"], ast.BitOr: ["&"], ast.Pow: ["*"]}
OPTXT = {ast.Eq: "==", ast.NotEq: "!=", ast.Lt: "<", ast.LtE: "<=", ast.Gt: ">", ast.GtE: ">=", ast.Is: "is", ast.IsNot: "is not",
         ast.In: "in", ast.NotIn: "not in", ast.Add: "+", ast.Sub: "-", ast.Mult: "*", ast.Mod: "%", ast.FloorDiv: "//", ast.Div: "/",
         ast.RShift: ">>", ast.LShift: "<<", ast.BitAnd: "&", ast.BitOr: "|", ast.Pow: "**"}


OPS = "syntax"
_P = [("idA", "idB"), ("M", "N"), ("X_msg", "Y_msg"), ("p", "q"), ("inbound_message", "outbound_message"),
      ("my_blinding", "my_unblinding"), ("SideA", "SideB"), ("X1", "Y1"), ("X2", "Y2"), ("Z1", "T1"), ("Z2", "T2"), ("E", "F"), ("G", "H"),
      ("A", "B"), ("C", "D"), ("X3", "Y3"), ("Z3", "T3"), ("e1", "e2"), ("x", "y"), ("msg1", "msg2"), ("_started", "_finished"),
      ("xy_scalar", "pw_scalar"), ("element_size_bytes", "scalar_size_bytes"), ("Zero", "Base"), ("hexlify", "unhexlify"),
      ("pt1", "pt2"), ("start", "stop"), ("num", "maxval"), ("Q", "L"), ("pw", "idSymmetric"), ("M_str", "N_str")]
PAIRS = {}
for _a, _b in _P:
    PAIRS[_a] = _b
    PAIRS[_b] = _a


class Src(object):
    def __init__(self, text):
        self.text = text
        self.lines = text.split("\n")
        self.off = [0]
        for l in self.lines:
            self.off.append(self.off[-1] + len(l.encode("utf8")) + 1)
        self.b = text.encode("utf8")

    def pos(self, line, col):
        return self.off[line - 1] + col

    def span(self, n):
        return self.pos(n.lineno, n.col_offset), self.pos(n.end_lineno, n.end_col_offset)

    def seg(self, n):
        a, b = self.span(n)
        return self.b[a:b].decode("utf8")

    def replace(self, a, b, new):
        return (self.b[:a] + new.encode("utf8") + self.b[b:]).decode("utf8")


def _in_message(parents, n):
    """constants inside raise/assert messages, docstrings and repr/format helpers are not mutated"""
    p = n
    while p in parents:
        q = parents[p]
        if isinstance(q, ast.Raise):
            return True
        if isinstance(q, ast.Assert) and q.msg is not None and p is q.msg:
            return True
        if isinstance(q, ast.Expr) and isinstance(q.value, ast.Constant):
            return True
        p = q
    return False


def mutants_of(rel, text):
    s = Src(text)
    tree = ast.parse(text)
    parents = {}
    for p in ast.walk(tree):
        for c in ast.iter_child_nodes(p):
            parents[c] = p
    out = []

    def add(kind, node, a, b, new):
        old = s.b[a:b].decode("utf8")
        if old == new:
            return
        t = s.replace(a, b, new)
        try:
            compile(t, rel, "exec")
        except SyntaxError:
            return
        fn = node
        while fn in parents and not isinstance(fn, (ast.FunctionDef, ast.ClassDef)):
            fn = parents[fn]
        out.append({"file": rel, "line": node.lineno, "kind": kind, "old": old[:80], "new": new[:80],
                    "where": getattr(fn, "name", "<module>"), "text": t})

    if OPS == "names":
        # second operator set: confusable identifiers exchanged, attribute stores deleted
        for n in ast.walk(tree):
            if isinstance(n, ast.Name) and isinstance(n.ctx, ast.Load) and n.id in PAIRS and not _in_message(parents, n):
                a, b = s.span(n)
                add("nameswap", n, a, b, PAIRS[n.id])
            elif isinstance(n, ast.Attribute) and isinstance(n.ctx, ast.Load) and n.attr in PAIRS and not _in_message(parents, n):
                b = s.pos(n.end_lineno, n.end_col_offset)
                a = b - len(n.attr.encode("utf8"))
                add("attrswap", n, a, b, PAIRS[n.attr])
            elif isinstance(n, ast.keyword) and n.arg in PAIRS:
                a = s.pos(n.lineno, n.col_offset)
                add("kwswap", n, a, a + len(n.arg), PAIRS[n.arg])
            elif isinstance(n, ast.Assign) and len(n.targets) == 1 and isinstance(n.targets[0], ast.Attribute) \
                    and isinstance(n.targets[0].value, ast.Name) and n.targets[0].value.id == "self":
                a, b = s.span(n)
                add("del-store", n, a, b, "pass")
            elif isinstance(n, ast.Return) and n.value is not None and isinstance(parents.get(n), ast.FunctionDef) is False:
                pass
        return out
    for n in ast.walk(tree):
        if isinstance(n, ast.Compare):
            left = n.left
            for op, right in zip(n.ops, n.comparators):
                a = s.pos(left.end_lineno, left.end_col_offset)
                b = s.pos(right.lineno, right.col_offset)
                between = s.b[a:b].decode("utf8")
                for new in CMP.get(type(op), []):
                    if OPTXT[type(op)] in between:
                        add("cmp", n, a, b, between.replace(OPTXT[type(op)], new, 1))
                left = right
        elif isinstance(n, ast.BinOp) and type(n.op) in BIN and not _in_message(parents, n):
            if isinstance(n.op, ast.Mod) and isinstance(n.left, ast.Constant) and isinstance(n.left.value, str):
                continue                                     # "%x" % v formatting
            a = s.pos(n.left.end_lineno, n.left.end_col_offset)
            b = s.pos(n.right.lineno, n.right.col_offset)
            between = s.b[a:b].decode("utf8")
            if isinstance(n.op, ast.Mod):
                # drop the reduction: (x % m) -> (x)
                a0, b0 = s.span(n)
                add("drop-mod", n, a0, b0, "(" + s.seg(n.left) + ")")
            else:
                for new in BIN[type(n.op)]:
                    if OPTXT[type(n.op)] in between and ")" not in between and "(" not in between:
                        add("binop", n, a, b, between.replace(OPTXT[type(n.op)], new, 1))
        elif isinstance(n, ast.AugAssign) and type(n.op) in BIN and BIN[type(n.op)]:
            a = s.pos(n.target.end_lineno, n.target.end_col_offset)
            b = s.pos(n.value.lineno, n.value.col_offset)
            between = s.b[a:b].decode("utf8")
            add("augop", n, a, b, between.replace(OPTXT[type(n.op)], BIN[type(n.op)][0], 1))
        elif isinstance(n, ast.BoolOp):
            for i in range(len(n.values) - 1):
                a = s.pos(n.values[i].end_lineno, n.values[i].end_col_offset)
                b = s.pos(n.values[i + 1].lineno, n.values[i + 1].col_offset)
                between = s.b[a:b].decode("utf8")
                old, new = ("and", "or") if isinstance(n.op, ast.And) else ("or", "and")
                if re.search(r"\b%s\b" % old, between) and "(" not in between and ")" not in between:
                    add("boolop", n, a, b, re.sub(r"\b%s\b" % old, new, between, 1))
        elif isinstance(n, ast.UnaryOp) and isinstance(n.op, (ast.Not, ast.USub)) and not _in_message(parents, n):
            a, b = s.span(n)
            add("drop-not" if isinstance(n.op, ast.Not) else "drop-neg", n, a, b, "(" + s.seg(n.operand) + ")")
        elif isinstance(n, ast.Constant) and not _in_message(parents, n):
            a, b = s.span(n)
            v = n.value
            if isinstance(v, bool) or v is None:
                if isinstance(v, bool):
                    add("const", n, a, b, str(not v))
            elif isinstance(v, int):
                add("const", n, a, b, "%s" % (v + 1))
                if v != 0:
                    add("const", n, a, b, "%s" % (v - 1))
            elif isinstance(v, bytes) and len(v) <= 16:
                add("const", n, a, b, repr(v + b"x"))
                if v:
                    add("const", n, a, b, repr(v[:-1]))
            elif isinstance(v, str) and len(v) <= 24 and not isinstance(parents.get(n), ast.Expr):
                add("const", n, a, b, repr(v + "x"))
        elif isinstance(n, ast.If):
            a, b = s.span(n.test)
            add("if-true", n, a, b, "True")
            add("if-false", n, a, b, "False")
        elif isinstance(n, ast.IfExp):
            a, b = s.span(n.test)
            add("ifexp-true", n, a, b, "True")
            add("ifexp-false", n, a, b, "False")
        elif isinstance(n, ast.While) and not (isinstance(n.test, ast.Constant)):
            a, b = s.span(n.test)
            add("while-false", n, a, b, "False")
        elif isinstance(n, (ast.Assert, ast.Raise)) or (isinstance(n, ast.Expr) and isinstance(n.value, ast.Call)):
            a, b = s.span(n)
            add("del-" + type(n).__name__.lower(), n, a, b, "pass")
        elif isinstance(n, (ast.Continue, ast.Break)):
            a, b = s.span(n)
            add("del-" + type(n).__name__.lower(), n, a, b, "pass")
        elif isinstance(n, ast.Call) and len(n.args) >= 2 and not any(isinstance(x, ast.Starred) for x in n.args) and not _in_message(parents, n):
            a0, b0 = s.span(n.args[0])
            a1, b1 = s.span(n.args[1])
            x0, x1 = s.b[a0:b0].decode("utf8"), s.b[a1:b1].decode("utf8")
            if x0 != x1:
                t = (s.b[:a0] + x1.encode() + s.b[b0:a1] + x0.encode() + s.b[b1:]).decode("utf8")
                try:
                    compile(t, rel, "exec")
                    fn = n
                    while fn in parents and not isinstance(fn, (ast.FunctionDef, ast.ClassDef)):
                        fn = parents[fn]
                    out.append({"file": rel, "line": n.lineno, "kind": "argswap", "old": s.seg(n)[:80], "new": "(%s, %s)" % (x1, x0),
                                "where": getattr(fn, "name", "<module>"), "text": t})
                except SyntaxError:
                    pass
        elif isinstance(n, ast.Return) and n.value is not None and isinstance(n.value, ast.Name) and False:
            pass
    return out


def run_one(args):
    i, m, src = args
    d = tempfile.mkdtemp(prefix="mut%04d-" % i, dir=os.environ.get("MUT_TMP", "/tmp"))
    try:
        shutil.copytree(os.path.join(src, "src"), os.path.join(d, "src"), ignore=shutil.ignore_patterns("__pycache__", "*.pyc"))
        with open(os.path.join(d, "src", "spake2", m["file"]), "w") as f:
            f.write(m["text"])
        env = dict(os.environ, VERIF_REPO=d, VERIF_NO_EVIDENCE="1", VERIF_NO_SENSITIVITY="1", VERIF_BUDGET_S="120")
        p = subprocess.run([os.path.join(VERIF, "check"), "--all"], stdout=subprocess.PIPE, stderr=subprocess.STDOUT, universal_newlines=True, env=env, cwd=VERIF)
        viol = sorted(set(re.findall(r"VIOLATION property=(C\d+)", p.stdout)))
        errs = sorted(set(re.findall(r"ANALYSIS-ERROR property=(C\d+)", p.stdout))) or (["?"] if "ANALYSIS-ERROR" in p.stdout and not viol else [])
        rules = sorted(set(re.findall(r"\[(C\d+/[^\]]+)\]", p.stdout)))
        env2 = dict(os.environ, PYTHONPATH=os.path.join(d, "src"), PYTHONDONTWRITEBYTECODE="1")
        try:
            t = subprocess.run(["/venv/bin/python", "-m", "pytest", "-q", "-x", "-p", "no:cacheprovider", "--timeout=120", "src/spake2/test"],
                               stdout=subprocess.PIPE, stderr=subprocess.STDOUT, universal_newlines=True, env=env2, cwd=d, timeout=600)
            tests = "survive" if t.returncode == 0 else "killed"
        except subprocess.TimeoutExpired:
            tests = "timeout"
        r = {k: v for k, v in m.items() if k != "text"}
        r.update(id=i, checks=viol, analysis_errors=errs, rules=rules[:12], tests=tests)
        return r
    finally:
        shutil.rmtree(d, ignore_errors=True)


FORMULAS = ("double_element", "add_elements", "_add_elements_nonunfied")


def triage(r):
    """Why a mutant that survives the tests and that no check reports is not a violation of any of the 18
    properties (None = not triaged: look at it)."""
    k, w, old, new, f = r["kind"], r["where"], r["old"], r["new"], r["file"]
    if w == "bytes_to_clamped_scalar" or (w == "<module>" and f == "ed25519_basic.py" and r["line"] in (195, 196)):
        return "unused function (no caller in the package)"
    if f.startswith("parameters/") and k == "const" and old.startswith('"'):
        return "entry of an __all__ tuple (star-import list only)"
    if k == "const" and old.startswith('"') and old.strip('"') in ("ElementOfUnknownGroup", "Element", "_Element", "IntegerGroup"):
        return "string annotation (forward reference), never evaluated"
    if w == "_double_and_add" and (k in ("cmp", "const") and r["line"] == 106):
        return "n = 0 never reaches a ladder: Element.scalarmult returns Zero for s = 0 (mod L) first, and the unknown-group class is not handed out by the group API"
    if w == "_double_and_add" and k == "argswap":
        return "the addition is commutative"
    if w == "_efgh_to_extended" and k == "drop-mod":
        return "intermediate reduction: T is reduced again by its next use and read by neither the identity test nor the encoder"
    if f == "params.py" and "_str" in old:
        return "M_str/N_str/S_str keep the seeds for information; nothing reads them and no property names them"
    if w == "_extract_message" and k == "cmp" and r["line"] == 222:
        return "selects the text of the error message only"
    if k == "argswap" and (old.startswith("min(") or old.startswith("max(")):
        return "min and max are symmetric"
    if w == "_extract_message" and (k.startswith("ifexp") or (k == "const" and old.strip('"') in ("A", "B")) or (k == "cmp" and r["line"] in (163, 216, 222))):
        return "selects the text of the error message only"
    if k == "binop" and old.strip() == "|" and w in ("_SPAKE2_Base", "<module>"):
        return "type annotation (not evaluated: from __future__ import annotations)"
    if w.startswith("_require"):
        return "type guard helper (misuse)"
    if k == "del-expr" and "_require" in old:
        return "call of a type guard helper (misuse)"
    if k in ("nameswap", "attrswap", "del-store"):
        if "element_size_bits" in old or (f == "groups.py" and r["line"] in (121, 138) and old in ("p", "q")):
            return "element_size_bits is read by nothing in the package and named by no property"
        if w == "__init__" and old in ("idA", "idB"):
            return "type assertion checks the other identity twice (misuse)"
        if w == "_extract_message":
            return "selects the text of the error message only"
        if w == "_add" and old in ("e1", "e2"):
            return "type guard / same-group assertion on the other operand (misuse)"
        if w == "encodepoint" and old == "y":
            return "the range assertion is equally true of x"
        if f == "ed25519_group.py":
            return "scalar_size_bytes = element_size_bytes = 32 for Ed25519"
        if w == "number_to_bytes" and old == "num":
            return "guard for negative numbers, which are outside the domain 0 <= n <= maxval: only the exception class changes"
        if w == "size_bits":
            return "Python 2.6 fallback, dead on Python 3"
        if f == "params.py":
            return "M_str/N_str/S_str keep the seeds for information; nothing reads them and no property names them"
    if k == "del-assert":
        if "isinstance" in old:
            return "type assertion on an argument (misuse by the caller; no property speaks about wrong-typed arguments)"
        return "assertion implied by the code above it / by the callers (defensive check, never false on a reachable path)"
    if k == "del-raise" and "TypeError" in old:
        return "TypeError guard for an argument of the wrong type (misuse)"
    if k in ("if-false", "if-true") and "isinstance" in old:
        return "type guard (misuse) / subgroup promotion of an operand kind the group API never hands out"
    if k == "drop-mod" and (w in FORMULAS or w in ("xform_affine_to_extended", "is_extended_zero", "<module>")):
        return "intermediate reduction: Python integers are unbounded and the value is reduced again before it is compared or encoded (C13 G7-repr / C15 K5-encoder-reduced check the places where it matters)"
    if k == "drop-mod" and w == "_scalarmult":
        return "pow(e, i, p) with the unreduced exponent is the same residue for an element of order q (Python >= 3.8 also for negative i)"
    if k == "argswap" and ("add_elements" in old or "_add(" in old or ".add(" in old):
        return "the addition is commutative"
    if w == "_extract_message" and (("SideA" in old) or (k == "cmp" and r["line"] == 163)):
        return "selects the text of the error message only"
    if k in ("cmp", "const", "binop") and w in ("encodepoint", "scalar_to_bytes", "scalarmult", "password_to_scalar", "generate_mask", "__init__") and f != "spake2.py":
        return "bound of an assertion changed in a value that cannot occur"
    if w == "bytes_to_element" and f == "groups.py" and k == "cmp":
        return "the boundary values 0 and p fail the membership test anyway"
    if w == "decodepoint" and k == "cmp":
        return "y = Q is the non-canonical spelling of y = 0, a point of order 4, rejected by the subgroup test"
    if w in ("<module>", "xrecover") and f == "ed25519_basic.py" and k in ("binop", "const"):
        return "the exponent floors to the same value ((Q-1)//4, (Q+3)//8 with Q = 5 mod 8)"
    if w == "arbitrary_element" and "256" in old:
        return "int((257/8)+16) = 48 as well"
    if w == "size_bits":
        return "Python 2.6 fallback, dead on Python 3"
    if f == "util.py" and k in ("if-false", "del-raise", "const") and w in ("bytes_to_number", "number_to_bytes"):
        return "type guard / type assertion (misuse)"
    if w == "__eq__" and k == "if-false":
        return "comparison with a non-element (misuse): AttributeError instead of NotImplemented"
    if w == "__init__" and f == "groups.py" and k == "const":
        return "argument of a self-test assertion in the constructor"
    return None


def report_one(path, title):
    rows = [json.loads(l) for l in open(path)]
    surv = [r for r in rows if r["tests"] == "survive"]
    silent = [r for r in surv if not r["checks"] and not r["analysis_errors"]]
    killed_silent = [r for r in rows if r["tests"] != "survive" and not r["checks"] and not r["analysis_errors"]]
    L = ["## " + title, "",
         "| | count |", "|---|---|",
         "| mutants | %d |" % len(rows),
         "| killed by the tests | %d |" % (len(rows) - len(surv)),
         "| - of these reported by at least one check | %d |" % sum(1 for r in rows if r["tests"] != "survive" and r["checks"]),
         "| - of these no verdict (exit 2) from some check and no report | %d |" % sum(1 for r in rows if r["tests"] != "survive" and r["analysis_errors"] and not r["checks"]),
         "| - of these silent in every check | %d |" % len(killed_silent),
         "| surviving the tests | %d |" % len(surv),
         "| - reported by at least one check | %d |" % sum(1 for r in surv if r["checks"]),
         "| - no verdict (exit 2) and no report | %d |" % sum(1 for r in surv if r["analysis_errors"] and not r["checks"]),
         "| - silent in every check | %d |" % len(silent), ""]
    by = {}
    for r in rows:
        for c in r["checks"]:
            by[c] = by.get(c, 0) + 1
    L += ["Mutants reported per property: " + ", ".join("%s %d" % (k, v) for k, v in sorted(by.items())), ""]
    L += ["### Mutants that survive the tests and are reported by a check (what the tests miss)", "",
          "| file:line | function | mutation | reported by |", "|---|---|---|---|"]
    esc = lambda x, n: x.replace("|", "\\|").replace("\n", " ")[:n]
    for r in surv:
        if r["checks"]:
            L.append("| %s:%d | %s | %s `%s` -> `%s` | %s |" % (r["file"], r["line"], r["where"], r["kind"], esc(r["old"], 60), esc(r["new"], 40), ", ".join(r["rules"][:4])))
    L += ["", "### Mutants that survive the tests and that no check reports", "",
          "| file:line | function | mutation | why it is not a violation |", "|---|---|---|---|"]
    untri = 0
    for r in silent:
        t = triage(r)
        untri += t is None
        L.append("| %s:%d | %s | %s `%s` -> `%s` | %s |" % (r["file"], r["line"], r["where"], r["kind"], esc(r["old"], 60), esc(r["new"], 40), t or "**NOT TRIAGED**"))
    L += ["", "%d rows, %d not triaged." % (len(silent), untri), ""]
    L += ["### Mutants the tests kill and every check is silent on", "",
          "| file:line | function | mutation | |", "|---|---|---|---|"]
    for r in killed_silent:
        L.append("| %s:%d | %s | %s `%s` -> `%s` | %s |" % (r["file"], r["line"], r["where"], r["kind"], esc(r["old"], 60), esc(r["new"], 40), triage(r) or "misuse guard / outside the properties"))
    L += ["", "%d rows." % len(killed_silent), ""]
    print("%s: %d mutants, %d silent survivors (%d not triaged), %d killed-but-silent" % (title, len(rows), len(silent), untri, len(killed_silent)))
    return L


def report(specs, out):
    L = ["# Mutation sweeps", "",
         "Generated by `tools/mutation_sweep.py --report` from the result tables under `mutation/` (see DESIGN.md 11.8).  Every mutant is checked by",
         "all 18 static checks on a scratch copy; the repository's tests are run on the copy only to classify it (killed / survives).", ""]
    for spec in specs:
        path, _, title = spec.partition("=")
        L += report_one(path, title or os.path.basename(path))
    open(out, "w").write("\n".join(L) + "\n")


def main():
    if "--report" in sys.argv:
        a = sys.argv[1:]
        return report(a[a.index("--report") + 1:], os.path.join(VERIF, "MUTATION.md"))
    a = sys.argv[1:]
    src = a[a.index("--src") + 1] if "--src" in a else os.environ.get("VERIF_REPO", "/repo")
    jobs = int(a[a.index("--jobs") + 1]) if "--jobs" in a else 14
    only = a[a.index("--only") + 1] if "--only" in a else None
    out = a[a.index("--out") + 1] if "--out" in a else os.path.join(VERIF, "MUTATION.jsonl")
    global OPS
    if "--ops" in a:
        OPS = a[a.index("--ops") + 1]
    ms = []
    for rel in FILES:
        p = os.path.join(src, "src", "spake2", rel)
        if os.path.exists(p):
            ms += mutants_of(rel, open(p).read())
    if only:
        ms = [m for m in ms if only in "%s:%s:%s" % (m["file"], m["where"], m["kind"])]
    print("%d mutants" % len(ms), flush=True)
    if "--list" in a:
        for m in ms:
            print(m["file"], m["line"], m["kind"], repr(m["old"]), "->", repr(m["new"]))
        return
    done = 0
    with open(out, "w") as f, concurrent.futures.ProcessPoolExecutor(jobs) as ex:
        for r in ex.map(run_one, [(i, m, src) for i, m in enumerate(ms)], chunksize=1):
            f.write(json.dumps(r, sort_keys=True) + "\n")
            f.flush()
            done += 1
            if done % 50 == 0:
                print("%d/%d" % (done, len(ms)), flush=True)
    rows = [json.loads(l) for l in open(out)]
    surv = [r for r in rows if r["tests"] == "survive"]
    print("mutants %d, killed by tests %d, surviving %d (reported by a check %d, silent %d); mutants with an analysis error and no report: %d"
          % (len(rows), len(rows) - len(surv), len(surv), sum(1 for r in surv if r["checks"]), sum(1 for r in surv if not r["checks"]),
             sum(1 for r in rows if r["analysis_errors"] and not r["checks"])))


if __name__ == "__main__":
    main()
