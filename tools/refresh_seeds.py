#!/usr/bin/env python3
"""Re-run every seeded change (or only those whose directory name contains one of the arguments) against the current
checks (apply to /repo, check, undo) and refresh checks_reporting_it in each meta.json; write SEEDED.md from all meta.json."""
import glob, json, os, subprocess, sys
HERE = os.path.dirname(os.path.dirname(os.path.abspath(__file__)))
rows = []
for d in sorted(glob.glob(os.path.join(HERE, "seeded", "*"))):
    if not os.path.exists(os.path.join(d, "patch.diff")):
        continue
    only = [a for a in sys.argv[1:] if not a.startswith("-")]
    if only and not any(o in os.path.basename(d) for o in only):
        # not selected: table row from the stored meta.json
        m = json.load(open(os.path.join(d, "meta.json")))
        own = m["breaks_property"] in m.get("checks_reporting_it", {})
        if m.get("own_check_expected_exit") == 2:
            own = "no verdict" if m["breaks_property"] in m.get("checks_with_analysis_error", []) else False
        rows.append((os.path.basename(d), m["breaks_property"], own, m))
        continue
    out = os.path.join(d, "result.json")
    p = subprocess.run([sys.executable, os.path.join(HERE, "tools", "try_seed.py"), d, "--keep-json", out],
                       stdout=subprocess.PIPE, stderr=subprocess.STDOUT, universal_newlines=True)
    if not os.path.exists(out):
        print("FAILED", d, p.stdout[-400:])
        continue
    r = json.load(open(out))
    os.remove(out)
    m = json.load(open(os.path.join(d, "meta.json")))
    m["checks_reporting_it"] = {p_: c["rules"] for p_, c in r["checks"].items() if c["rc"] == 1}
    m["checks_with_analysis_error"] = sorted(p_ for p_, c in r["checks"].items() if c["rc"] == 2)
    m["tests_with_change"] = r["tests_with_change"]
    m["demo_exit_with_change"] = r["demo_with_change_rc"]
    m["demo_exit_on_unchanged_tree"] = r["demo_unchanged_rc"]
    json.dump(m, open(os.path.join(d, "meta.json"), "w"), indent=1)
    own = m["breaks_property"] in m["checks_reporting_it"]
    if m.get("own_check_expected_exit") == 2:
        own = "no verdict" if m["breaks_property"] in m["checks_with_analysis_error"] else False
    rows.append((os.path.basename(d), m["breaks_property"], own, m))
    print(os.path.basename(d), "own check fires:", own, sorted(m["checks_reporting_it"]))
L = ["# Independently written breaking changes (seeded/) and the checks that report them", "",
     "Each change was written by a sub-agent that saw only the property text and a scratch worktree. Confirmed by "
     "`tools/try_seed.py` (patch applied to /repo, 43 tests pass, demonstration fails; undone, demonstration passes). "
     "Refreshed by `tools/refresh_seeds.py` against the current checks.", "",
     "| seed | breaks | needs to manifest | own check | rules of the own check | other checks reporting it | first-run history |", "|---|---|---|---|---|---|---|"]
for name, pid, own, m in rows:
    oth = ", ".join(p for p in sorted(m["checks_reporting_it"]) if p != pid)
    L.append("| %s | %s | %s | %s | %s | %s | %s |" % (name, pid, m["needs_to_manifest"], ("fires" if own is True else "no verdict (exit 2, stated limitation)" if own == "no verdict" else "**silent**"),
             ", ".join(m["checks_reporting_it"].get(pid, [])), oth, m.get("history", "")))
open(os.path.join(HERE, "SEEDED.md"), "w").write("\n".join(L) + "\n")
