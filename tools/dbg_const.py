import sys
from sa.loader import World
from sa import session
from sa.terms import show
w = World()
ev = session.new_ev(w)
m = w.static.mods["spake2.ed25519_basic"] if hasattr(w.static,'mods') else None
for k,v in ev.modules.items() if hasattr(ev,'modules') else []:
    pass
import sa.groupmodel as gm
m, _c = gm.ed_consts(w, ev)
m = m[0] if isinstance(m, tuple) else m
for name in sys.argv[1:]:
    print(name, show(m.globals.get(name), maxdepth=6))
