from sa.loader import World
from sa import session
from sa.terms import *
import sa.groupmodel as gm
w = World(); ev = session.new_ev(w)
m, base = gm.ed_module_of(w, ev)
st = w.static.fork()
cf = [k for k, v in st.heap[base.oid].items() if isinstance(v, TupleV) and len(v.items) == 4]
e = ev.new_obj(base.cls, st)
X, Y = Sym("ex", "int"), Sym("ey", "int")
st.heap[e.oid][cf[0]] = TupleV([X, Y, Const(1), mk_app("Mult", (X, Y))])
outs = ev.run_method(e, "to_bytes", [], st=st.fork())
for o in outs:
    print(o.kind, o.exc, show(o.value, maxdepth=5) if o.value is not None else None)
    for (t,p,_) in o.state.pc: print("   ", show(t, maxdepth=5), p)
