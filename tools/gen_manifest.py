#!/usr/bin/env python3
"""Regenerate /verif/MANIFEST.json from the per-property table below (claims only what is built)."""
import json
import os

HERE = os.path.dirname(os.path.dirname(os.path.abspath(__file__)))

COMMON_NOTE = ("Static analysis over the ast of /repo/src/spake2 (tests, _version.py excluded); no repository code is "
               "imported or executed. Assumes assertions enabled (no -O), the Python semantics of the modelled constructs "
               "and the rewrite table of sa/terms.py, no monkeypatching. ")

P = {
    "C01": dict(
        technique="abstract interpretation: linear-form domain over {G,M,N,S,In} on evaluator terms; role-mirror and transcript-slot equality",
        text="Decides the protocol algebra and wiring statically for all passwords/ids/scalars/groups: K_A[In:=out_B] == K_B[In:=out_A] as polynomials in symbolic x,y,w; role hooks mirrored; transcript slots agree under message exchange; restored instances use identical terms. Big-integer arithmetic of the shipped groups is delegated to the C12/C13/C15 obligations.",
        note="Does not execute any exchange; agreement follows from the algebraic identity plus the group-interface obligations of C12, C13, C15, C08.",
        ref="4.1"),
    "C02": dict(
        technique="term-level binding analysis: slot coverage and framing injectivity (fixed-width un-hashed fields)",
        text="Decides the binding structure: each of pw, idA, idB/idS, both raw messages and K occupies its own transcript slot; every un-hashed field has an enforced fixed width (shared with C05 D1); the password reaches scalar and transcript unmodified. 'Keys differ' itself rests on SHA-256 collision resistance and a discrete-log argument that are not decided.",
        note="Necessary-condition rules only; the bit-flip/extension enumeration of the quantifier is covered through the framing/decoder guards, not run.",
        ref="4.2"),
    "C03": dict(
        technique="normalised-term comparison of start()/finish() against the frozen released wire format; folded constants",
        text="Compares the evaluator's normal-form terms of the start message and the key, the side bytes, message widths, HKDF parameters and shipped constants with the frozen 0.7+ wire table (values, not text).",
        note="Byte-exactness of big-number arithmetic for every input is not decided (needs execution).",
        ref="4.3"),
    "C04": dict(
        technique="backward slice / information-flow over evaluator terms; linear form x*G + w*Blind with x exactly random_scalar(entropy_f)",
        text="Non-interference of ids and password (except through the blinding coefficient) on the start() message, and the exact form x*G + w*Blind with the raw sampled scalar; bijectivity then follows from C13/C18.",
        note="Uniformity of the scalar itself is C11; nothing is sampled.",
        ref="4.4"),
    "C05": dict(
        technique="guard dominance by exhaustive path enumeration of a forking abstract evaluator; on-curve guard checked as polynomial identity",
        text="Every accepting path of both groups' bytes_to_element carries exact-length, canonical-range, subgroup-membership (curve equation + L-torsion via the complete ladder) and identity-rejection guards and returns exactly the decoded value; finish() uses peer bytes only through that decoder. Holds for all byte strings because it is a property of every path.",
        note="Toy-curve enumerations of the quantifier are not run; xrecover's root-finding completeness is an availability matter re-validated by the on-curve guard.",
        ref="4.5"),
    "C06": dict(
        technique="exhaustive abstract evaluation of finish() over all 256 side bytes + empty message; path-condition twin check for reflection",
        text="Exact over the finite side-byte domain: for each class, fresh and restored, finish(cat(byte,payload)) is evaluated for all 256 bytes and the empty message with symbolic payload/password/ids/scalar/group; plus the reflection guard dominates every key return and is unconditional.",
        note="Payload, password, identities, scalar and group are symbolic, so the verdict covers all of them.",
        ref="4.6"),
    "C07": dict(
        technique="typestate extraction: abstract exploration of start/finish/serialize/restore histories to a fixpoint, compared with a specification automaton; writer enumeration",
        text="The instance state consulted by the entry points is finite; the abstract automaton is extracted from the code and every transition is checked against the single-use specification, for fresh and restored instances, with symbolic messages; writers of the guard flags and of the secret scalar are enumerated.",
        note="Depth bound 6 on histories (state signatures saturate earlier); failing-call placement of flag stores is not an obligation.",
        ref="4.7"),
    "C08": dict(
        technique="writer/reader composition on terms: from_serialized(serialize()) is the identity on every field, modulo codec inverses",
        text="Symbolic in all field values, three classes: the restored object's fields equal the original's term by term; derived fields are recomputed by the same terms as start(); serialize() is effect-free, entropy-free and yields ASCII JSON.",
        note="JSON library behaviour on exotic inputs not modelled (all values are hex strings).",
        ref="4.8"),
    "C09": dict(
        technique="3x3 writer/reader role matrix by abstract evaluation; fingerprint-guard dominance; blinding-element coverage",
        text="Every off-diagonal (writer, reader) pair raises the required exception on all paths; on the diagonal the only returning paths carry the fingerprint equality; the fingerprint hashes every blinding element the role uses.",
        note="Collision resistance of the fingerprint and the uncovered generator g are noted, not decided.",
        ref="4.9"),
    "C10": dict(
        technique="format-table comparison on normalised writer and reader terms (keys, hex/ASCII encodings, scalar codec, fingerprint recipe); abstract evaluation of the reader over key-order permutations",
        text="Writer dict term equals the frozen released format; reader accesses exactly those keys with inverse decodings; JSON outer encoding; key order decided by evaluating the reader on concrete released keys in every key order (quick: generating orders; thorough: all permutations): same restored instance, each field from the value under its own key; whitespace is json.loads' business.",
        note="Old blobs are not replayed; the frozen table is the 0.9 format taken from the pinned tree.",
        ref="4.10"),
    "C11": dict(
        technique="who-may-call analysis for the entropy function; rejection-sampling template with finite case split of the mask",
        text="Entropy is consumed only by start() through group.random_scalar; unbiased_randrange matches the rejection-sampling template (fresh draw per iteration, mask of exactly bit_length bits, strict comparison, no modulo); Ed25519 reduces 64 fresh bytes mod L.",
        note="Exact uniformity follows from the template by a stated lemma, not by enumeration.",
        ref="4.11"),
    "C12": dict(
        technique="polynomial value numbering of straight-line formula code over GF(2^255-19); ideal membership by Groebner normal form",
        text="Proof-level: the three formula functions are translated to polynomials in symbolic projective inputs and the twisted-Edwards law identities are zero-tested modulo the curve ideal; completeness side conditions on constants; exceptional locus of the dedicated addition factored exactly.",
        note="Trusted: ~150-line polynomial arithmetic, AST translation, Bernstein-Lange completeness theorem, Python integer semantics.",
        ref="4.12", category="proof"),
    "C13": dict(
        technique="term forms of integer-group operations; Ed25519 element-kind closure table by abstract evaluation; ladder induction step; constant folding of negate",
        text="Group axioms reduced to: integer ops are (a*b)%p and pow(a, e mod q, p) on fresh elements of the same group; value equality methods exist; the Ed25519 class lattice is closed (never leaks an unknown-group element from subgroup operands); negate is multiplication by -1 mod L; ladders satisfy their induction step; the dedicated addition is only reachable with a subgroup point and a scalar in [1,L); the element encoder behind == is a function of the point, not of its representation (C15 encoder obligations incl. the stored-coordinates-are-residues invariant at every producer).",
        note="Comparison with independent arithmetic on shipped groups is dynamic and not done.",
        ref="4.13"),
    "C14": dict(
        technique="def-use facts and folded constants of the derivation functions; checker-side reference model on extracted constants",
        text="HKDF parameters, reduction moduli, cofactor exponent/multiplication, try-and-increment structure and seeds are read from the code; M/N/S recomputed from extracted constants by an independent model and compared with the released digests.",
        note="Non-identity for every seed is probabilistic for integer groups; HKDF library correctness assumed.",
        ref="4.14"),
    "C15": dict(
        technique="byte-order/width abstract domain over encoder and decoder terms",
        text="Each encoder/decoder pair agrees on byte order and width and matches the released format; number_to_bytes overflow guard exact; element decoders share C05's guards; an encoder that reads a stored coordinate unreduced is accepted only with the representation invariant (every producer of element objects stores residues), checked at each producer.",
        note="Value-level enumeration for small maxval not run; %x semantics trusted.",
        ref="4.15"),
    "C16": dict(
        technique="ownership/effect analysis over all function bodies; closed-world allowlist of external names; term-level input closure",
        text="Sound for all schedules: after import nothing writes an object it did not create except fields of the session's own self; no global/class/module stores; every external name is on a pure allowlist; start()/finish() terms mention only the session's inputs. Hence no shared mutable location exists and outputs are functions of constructor arguments, entropy bytes and the inbound message under any interleaving or threading.",
        note="Thread-safety of one single session shared by two threads is out of the property; C-level state of hashlib/cryptography trusted. A built-in positive-control fixture must be reported on every run. The ownership rules are sufficient conditions, not exact: a hand-written cache in shared mutable state is reported even when it is a correct memo (functools.lru_cache/cache on a pure function is the accepted idiom) - DESIGN 11.9.",
        ref="4.16"),
    "C17": dict(
        technique="normal-form comparison of the two finalize functions with the specification hash terms; call-site slot binding",
        text="finalize_SPAKE2 and finalize_SPAKE2_symmetric normalise to H(cat(H(pw),H(idA),H(idB),X,Y,K)) and H(cat(H(pw),H(idS),min,max,K)); sorted without key/reverse; every call site binds fields to the right parameters.",
        note="Injectivity of the framing is shared with C02 B2; SHA-256 assumed collision resistant.",
        ref="4.17"),
    "C18": dict(
        technique="constant extraction from the AST + number-theoretic validation (BPSW/Miller-Rabin, orders, Hasse-interval argument)",
        text="p, q prime, q | p-1, ord(g) = q for the three integer sets; Q, L prime, base point = RFC 8032, #E = 8L by the Hasse interval; M/N/S distinct, non-identity, in the subgroup; defaults resolve to Ed25519.",
        note="Primality is probabilistic (BPSW + fixed-base Miller-Rabin).",
        ref="4.18"),
}


def main():
    props = [json.loads(l) for l in open(os.path.join(HERE, "properties.jsonl"))]
    checks, na = [], []
    for p in props:
        pid = p["id"]
        meta = P[pid]
        built = os.path.exists(os.path.join(HERE, "sa", "rules", pid.lower() + ".py"))
        if not built:
            na.append({"property_id": pid, "reason": "check not built yet in this session (planned: %s)" % meta["technique"]})
            continue
        checks.append({
            "property_id": pid,
            "quick_cmd": "./check %s --tier quick" % pid,
            "thorough_cmd": "./check %s --tier thorough" % pid,
            "evidence_file": "evidence/%s.json" % pid,
            "replay_cmd_template": "./check --replay {path}",
            "engine": "sa",
            "technique": meta["technique"],
            "level_claimed": {"category": meta.get("category", "other"), "text": meta["text"],
                              "design_ref": "DESIGN.md section " + meta["ref"]},
            "level_note": COMMON_NOTE + meta["note"],
        })
    m = {
        "version": 1,
        "setup_cmd": "python3 -c \"import ast,sys,glob; [ast.parse(open(f).read(), f) for f in glob.glob('sa/**/*.py', recursive=True)]; print('sa framework: syntax ok')\"",
        "hooks": {
            "guard": "WARNER_PYTHON_SPAKE2_VERIF",
            "enable": "no hooks: the checks are static (ast) and never execute repository code; nothing to enable",
            "baseline_off_cmd": "cd /repo && /venv/bin/python -m pytest -ra -q -p no:cacheprovider --timeout=900 --continue-on-collection-errors",
            "source_commits": [],
            "add_only": True,
        },
        "engines": [{
            "name": "sa", "path": "sa/",
            "serves_properties": [c["property_id"] for c in checks],
            "kind_free_text": "repository-specific static analyser: ast loader/resolver, forking abstract evaluator over terms with abstract import, polynomial domain over GF(2^255-19), ownership/effect analysis, constant number theory; stdlib only",
        }],
        "checks": checks,
        "not_applicable": na,
        "notes": "All checks are static analysis (technique family fixed for this task). Exit 0 = all obligations discharged; exit 1 + VIOLATION lines = a failed obligation not listed in KNOWN_FINDINGS.txt; exit 2 + ANALYSIS-ERROR = the analysis cannot give a verdict (never a pass). Thorough tier = quick + sensitivity run of the checker on break/neutral variants of the current tree (sa/corpus.py). Repairs of genuine defects found are 'fix:' commits in /repo, listed as 'fixed:' lines in KNOWN_FINDINGS.txt.",
    }
    with open(os.path.join(HERE, "MANIFEST.json"), "w") as f:
        json.dump(m, f, indent=1)
    print("MANIFEST.json: %d checks, %d not_applicable" % (len(checks), len(na)))


if __name__ == "__main__":
    main()
