import sa.evalr as E
orig = E.Ev._import_sig
def dbg(p, before, table):
    new = sorted(o for o in p.st.heap if o not in before)
    print("new objects", [(o, sorted(p.st.heap[o])) for o in new])
    print("  pc", [(E.show(t, maxdepth=3), pol) for (t, pol, _) in p.st.pc][-4:])
    return orig(p, before, table)
E.Ev._import_sig = staticmethod(dbg)
from sa.loader import World
from sa import session
w = World()
try:
    ev = session.new_ev(w)
except Exception as e:
    print(e)
