#!/usr/bin/env python3
"""Take a sub-agent's deliverables (patch.diff, demo.py, notes.md) into seeded/<pid>-r<round>/, confirm them with
tools/try_seed.py and write meta.json.   usage: tools/ingest_seed.py <src dir> <pid> <round> "<needs to manifest>" ["<style>"]"""
import json, os, shutil, subprocess, sys
HERE = os.path.dirname(os.path.dirname(os.path.abspath(__file__)))
src, pid, rnd, needs = sys.argv[1:5]
style = sys.argv[5] if len(sys.argv) > 5 else ""
d = os.path.join(HERE, "seeded", "%s-r%s" % (pid, rnd))
os.makedirs(d, exist_ok=True)
for f in ("patch.diff", "demo.py", "notes.md"):
    shutil.copy(os.path.join(src, f), os.path.join(d, f))
out = os.path.join(d, "result.json")
p = subprocess.run([sys.executable, os.path.join(HERE, "tools", "try_seed.py"), d, "--keep-json", out],
                   stdout=subprocess.PIPE, stderr=subprocess.STDOUT, universal_newlines=True)
print(p.stdout)
r = json.load(open(out))
os.remove(out)
fired = {p_: c["rules"] for p_, c in r["checks"].items() if c["rc"] == 1}
errs = sorted(p_ for p_, c in r["checks"].items() if c["rc"] == 2)
m = {"breaks_property": pid,
     "written_by": "independent sub-agent given only the property text and a scratch worktree (round %s%s)" % (rnd, ": " + style if style else ""),
     "needs_to_manifest": needs,
     "history": ("own check fired at first run (%s)" % ", ".join(fired[pid])) if pid in fired else
                ("own check gave no verdict (exit 2) at first run" if pid in errs else "own check SILENT at first run") +
                ("; reported by %s" % ", ".join(sorted(fired)) if fired else "; nothing fired"),
     "what_i_ran": "tools/try_seed.py seeded/%s-r%s : git -C /repo apply patch.diff; pytest (43 tests); demo.py; ./check for all 18 properties; git -C /repo checkout -- .; demo.py again" % (pid, rnd),
     "checks_reporting_it": fired, "checks_with_analysis_error": errs,
     "tests_with_change": r["tests_with_change"], "demo_exit_with_change": r["demo_with_change_rc"],
     "demo_exit_on_unchanged_tree": r["demo_unchanged_rc"]}
json.dump(m, open(os.path.join(d, "meta.json"), "w"), indent=1)
ok = "43 passed" in r["tests_with_change"] and r["demo_with_change_rc"] != 0 and r["demo_unchanged_rc"] == 0
print("CONFIRMED" if ok else "NOT CONFIRMED", pid, "own:", "fires" if pid in fired else ("exit2" if pid in errs else "SILENT"))
