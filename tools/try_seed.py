#!/usr/bin/env python3
"""Confirm a seeded change and run every check against it.
usage: tools/try_seed.py <dir with patch.diff and demo.py> [--keep-json out.json]
Applies the patch to /repo (git apply), runs the 43 tests, the demonstration and all
checks (no evidence written), then undoes it (git checkout -- .) and runs the
demonstration on the unchanged tree."""
import json, os, subprocess, sys
HERE = os.path.dirname(os.path.dirname(os.path.abspath(__file__)))
sys.path.insert(0, HERE)
from sa.main import PROPS


def sh(cmd, **kw):
    p = subprocess.run(cmd, shell=True, stdout=subprocess.PIPE, stderr=subprocess.STDOUT, universal_newlines=True, **kw)
    return p.returncode, p.stdout


def main():
    d = os.path.abspath(sys.argv[1])
    patch, demo = os.path.join(d, "patch.diff"), os.path.join(d, "demo.py")
    rc, out = sh("git -C /repo status --porcelain")
    assert out.strip() == "", "/repo is not clean: %s" % out
    res = {"dir": d}
    rc, out = sh("git -C /repo apply %s" % patch)
    assert rc == 0, "patch does not apply: %s" % out
    try:
        rc, out = sh("cd /repo && /venv/bin/python -m pytest -q -p no:cacheprovider 2>&1 | tail -1")
        res["tests_with_change"] = out.strip()
        env = dict(os.environ, PYTHONPATH="/repo/src")
        rc, out = sh("cd %s && /venv/bin/python demo.py" % d, env=env, timeout=900)
        res["demo_with_change_rc"] = rc
        res["demo_with_change_tail"] = out.strip().splitlines()[-3:]
        checks = {}
        env2 = dict(os.environ, VERIF_NO_EVIDENCE="1")
        import concurrent.futures
        with concurrent.futures.ThreadPoolExecutor(max_workers=16) as ex:
            outs = dict(zip(sorted(PROPS), ex.map(lambda pid: sh("cd %s && ./check %s" % (HERE, pid), env=env2), sorted(PROPS))))
        for pid in sorted(PROPS):
            rc, out = outs[pid]
            rules = sorted({ln.split("[", 1)[1].split("]", 1)[0].split("/", 1)[1] for ln in out.splitlines()
                            if "] " in ln and "[" in ln and ln.split("[", 1)[1].startswith(pid + "/")})
            checks[pid] = {"rc": rc, "rules": rules}
            if rc == 2:
                checks[pid]["error"] = [l for l in out.splitlines() if "ANALYSIS-ERROR" in l][:1]
        res["checks"] = checks
    finally:
        sh("git -C /repo checkout -- .")
    rc, out = sh("git -C /repo status --porcelain")
    assert out.strip() == "", "undo failed"
    rc, out = sh("cd %s && /venv/bin/python demo.py" % d, env=dict(os.environ, PYTHONPATH="/repo/src"), timeout=900)
    res["demo_unchanged_rc"] = rc
    fired = {p: c["rules"] for p, c in res["checks"].items() if c["rc"] == 1}
    errs = {p: c.get("error") for p, c in res["checks"].items() if c["rc"] == 2}
    print(json.dumps({"tests": res["tests_with_change"], "demo_with_change_rc": res["demo_with_change_rc"],
                      "demo_unchanged_rc": res["demo_unchanged_rc"], "fired": fired, "analysis_errors": errs}, indent=1))
    if "--keep-json" in sys.argv:
        json.dump(res, open(sys.argv[sys.argv.index("--keep-json") + 1], "w"), indent=1)


if __name__ == "__main__":
    main()
