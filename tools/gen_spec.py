#!/usr/bin/env python3
"""One-off generator of /verif/spec/constants.json: the released constants, frozen.
Group literals are read from the (pinned) tree's ast through the abstract import;
M/N/S come from the checker's reference model.  Run once; the file is then fixed."""
import hashlib, json, os, sys
HERE = os.path.dirname(os.path.dirname(os.path.abspath(__file__)))
sys.path.insert(0, HERE)
from sa.loader import World
from sa import session, groupmodel as gm, refmodel as rm
from sa.terms import Const
from sa.numth import Edwards

w = World(); ev = session.new_ev(w)
sp = gm.shipped_params(w, ev)
out = {"integer": {}, "ed25519": {}}
for label in ("1024", "2048", "3072"):
    params, g = sp[label]
    f = w.static.heap[g.oid]
    base = w.static.heap[f["Base"].oid]
    gv = [v.v for v in base.values() if isinstance(v, Const)][0]
    p, q = f["p"].v, f["q"].v
    ent = {"p": hex(p), "q": hex(q), "g": hex(gv)}
    for nm, seed in (("M", b"M"), ("N", b"N"), ("S", b"symmetric")):
        v = rm.ref_int_arbitrary(p, q, seed)
        ent[nm] = v.to_bytes(rm.size_bytes(p), "big").hex()
    out["integer"][label] = ent
Q = 2**255 - 19
L = 2**252 + 27742317777372353535851937790883648493
d = (-121665 * pow(121666, Q - 2, Q)) % Q
E = Edwards(Q, d)
By = 4 * pow(5, Q - 2, Q) % Q
Bx = E.xrecover(By)
ed = {"Q": hex(Q), "L": hex(L), "d": hex(d), "Bx": hex(Bx), "By": hex(By)}
for nm, seed in (("M", b"M"), ("N", b"N"), ("S", b"symmetric")):
    ed[nm] = E.encode(rm.ref_ed_arbitrary(seed, Q, d, L)).hex()
out["ed25519"] = ed
out["message_lengths"] = {"Ed25519": 33, "1024": 129, "2048": 257, "3072": 385}
os.makedirs(os.path.join(HERE, "spec"), exist_ok=True)
json.dump(out, open(os.path.join(HERE, "spec", "constants.json"), "w"), indent=1, sort_keys=True)
for label, ent in list(out["integer"].items()) + [("Ed25519", ed)]:
    print(label, {k: hashlib.sha256(bytes.fromhex(ent[k])).hexdigest()[:16] for k in ("M", "N", "S")})
