"""The checker's own reference model of the published derivations (DESIGN 4.14 H8) and a
small interpreter for *closed* terms (constants of the program only).  Used for constant
validation in C14/C18; labelled as such in the evidence."""
import math

from .loader import AnalysisError
from .terms import Const, App, TupleV, is_app
from .numth import hkdf_sha256, Edwards

INFO_PW = b"SPAKE2 pw"
INFO_ELEM = b"SPAKE2 arbitrary element"


def size_bytes(n):
    return (max(n.bit_length(), 1) + 7) // 8


def ref_password_to_scalar(pw, scalar_size, q):
    return int.from_bytes(hkdf_sha256(pw, b"", INFO_PW, scalar_size + 16), "big") % q


def ref_int_arbitrary(p, q, seed):
    h = int.from_bytes(hkdf_sha256(seed, b"", INFO_ELEM, size_bytes(p)), "big") % p
    return pow(h, (p - 1) // q, p)


def ref_ed_arbitrary(seed, Q, d, L):
    E = Edwards(Q, d)
    y = int.from_bytes(hkdf_sha256(seed, b"", INFO_ELEM, 48), "big") % Q
    for plus in range(0, 1000):
        yp = (y + plus) % Q
        x = E.xrecover(yp)
        if x is None or not E.on_curve((x, yp)):
            continue
        P8 = E.mul((x, yp), 8)
        if P8 == (0, 1):
            continue
        if E.mul(P8, L) != (0, 1):
            raise AnalysisError("reference model: 8*P is not L-torsion (curve constants inconsistent)")
        return P8
    raise AnalysisError("reference model: no curve point found")


def eval_closed(t):
    """Value of a closed term built from program constants, integer arithmetic and HKDF."""
    if isinstance(t, Const):
        return t.v
    if isinstance(t, TupleV):
        return [eval_closed(i) for i in t.items]
    if isinstance(t, App):
        a = t.args
        if t.f in ("Add", "Sub", "Mult", "Mod", "FloorDiv", "Pow") and len(a) == 2:
            x, y = eval_closed(a[0]), eval_closed(a[1])
            return {"Add": lambda: x + y, "Sub": lambda: x - y, "Mult": lambda: x * y, "Mod": lambda: x % y,
                    "FloorDiv": lambda: x // y, "Pow": lambda: x ** y}[t.f]()
        if t.f in ("RShift", "LShift", "BitAnd", "BitOr", "BitXor", "Div", "min2", "max2", "Or", "And",
                   "Eq", "NotEq", "Lt", "LtE", "Gt", "GtE") and len(a) == 2:
            x, y = eval_closed(a[0]), eval_closed(a[1])
            if t.f in ("RShift", "LShift") and not (isinstance(y, int) and 0 <= y <= 1 << 20):
                raise AnalysisError("shift by %r is outside the interpretable range" % (y,))
            return {"RShift": lambda: x >> y, "LShift": lambda: x << y, "BitAnd": lambda: x & y, "BitOr": lambda: x | y,
                    "BitXor": lambda: x ^ y, "Div": lambda: x / y, "min2": lambda: min(x, y), "max2": lambda: max(x, y),
                    "Or": lambda: x or y, "And": lambda: x and y, "Eq": lambda: x == y, "NotEq": lambda: x != y,
                    "Lt": lambda: x < y, "LtE": lambda: x <= y, "Gt": lambda: x > y, "GtE": lambda: x >= y}[t.f]()
        if t.f in ("int", "math.ceil", "math.floor", "Not", "bool", "USub") and len(a) == 1:
            import math
            x = eval_closed(a[0])
            return {"int": lambda: int(x), "math.ceil": lambda: math.ceil(x), "math.floor": lambda: math.floor(x),
                    "Not": lambda: not x, "bool": lambda: bool(x), "USub": lambda: -x}[t.f]()
        if t.f == "pow" and len(a) == 3:
            return pow(eval_closed(a[0]), eval_closed(a[1]), eval_closed(a[2]))
        if t.f == "ifelse" and len(a) == 3:
            return eval_closed(a[1]) if eval_closed(a[0]) else eval_closed(a[2])
        if t.f == "index" and len(a) == 2:
            seq, i = eval_closed(a[0]), eval_closed(a[1])
            if isinstance(seq, (list, tuple, bytes)) and isinstance(i, int) and -len(seq) <= i < len(seq):
                return seq[i]
        if t.f == "be2int":
            return int.from_bytes(eval_closed(a[0]), "big")
        if t.f == "rev":
            return eval_closed(a[0])[::-1]
        if t.f == ".derive" and len(a) == 2 and isinstance(a[0], App) and a[0].f.endswith("hkdf.HKDF"):
            kw = dict(a[0].kw)
            alg = kw.get("algorithm")
            if not (isinstance(alg, App) and alg.f.endswith("hashes.SHA256")):
                raise AnalysisError("HKDF with an algorithm other than SHA256: %r" % (alg,))
            return hkdf_sha256(eval_closed(a[1]), eval_closed(kw["salt"]) or b"", eval_closed(kw["info"]), eval_closed(kw["length"]))
    raise AnalysisError("term is not closed / not interpretable as a program constant: %s" % (t,))


def hkdf_calls(t):
    """All HKDF(...).derive(x) applications inside a term: [(kw dict, data term)]."""
    from .terms import subterms
    out = []
    for x in subterms(t):
        if is_app(x, ".derive") and len(x.args) == 2 and isinstance(x.args[0], App) and x.args[0].f.endswith("hkdf.HKDF"):
            out.append((dict(x.args[0].kw), x.args[1]))
    return out
