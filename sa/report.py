"""Obligation bookkeeping, evidence files, violation reports, known findings (DESIGN 5)."""
import hashlib
import json
import os
import re
import sys
import time

from .loader import AnalysisError

VERIF = os.path.dirname(os.path.dirname(os.path.abspath(__file__)))
EVIDENCE_DIR = os.path.join(VERIF, "evidence")
REPLAY_DIR = os.path.join(EVIDENCE_DIR, "replay")
KNOWN_FILE = os.path.join(VERIF, "KNOWN_FINDINGS.txt")

ASSUMPTIONS_COMMON = [
    "A1: the interpreter runs with assertions enabled (no -O); the library validates input with assert",
    "A2: Python 3 semantics (the package declares Python 3 only) of the modelled constructs - e.g. != is derived from __eq__ when a class defines no __ne__ - and the rewrite table of sa/terms.py (accepted idioms)",
    "A3: no run-time monkeypatching; analysability preconditions (no exec/eval/metaclass/__getattr__/star import) re-checked on this run",
    "A4: SHA-256 and HKDF implementations conform to their RFCs",
    "A5: an entropy function called with n returns a bytes object of exactly n bytes (the contract of os.urandom, which the library documents for entropy_f)",
    "no repository code was imported or executed: all facts come from the ast of /repo/src/spake2",
]


class Obligation(object):
    __slots__ = ("rule", "instance", "ok", "detail", "site", "witness")

    def __init__(self, rule, instance, ok, detail, site, witness):
        self.rule = rule
        self.instance = instance
        self.ok = bool(ok)
        self.detail = detail
        self.site = site
        self.witness = witness

    def key(self):
        return "%s|%s" % (self.rule, self.instance)

    def as_dict(self):
        d = {"rule": self.rule, "instance": self.instance, "ok": self.ok, "detail": self.detail}
        if self.site:
            d["site"] = fmt_site(self.site)
        if self.witness is not None:
            d["witness"] = self.witness
        return d


def fmt_site(site):
    if site is None:
        return "?"
    if isinstance(site, str):
        return site
    if isinstance(site, (tuple, list)) and len(site) >= 2:
        s = "%s:%s" % (site[0], site[1])
        if len(site) > 2 and site[2]:
            s += " (%s)" % site[2]
        return s
    return str(site)


class Ctx(object):
    """One run of one property's check."""

    def __init__(self, pid, tier="quick", level="other"):
        self.pid = pid
        self.tier = tier
        self.level = level
        self.obs = []
        self.t0 = time.time()
        self.analysed = {}       # free-form measured counts
        self.explanation = ""
        self.assumptions = list(ASSUMPTIONS_COMMON)
        self.trusted_base = []
        self.notes = []
        self.min_obligations = 1
        self.only = None         # (rule, instance) filter for --replay

    def ob(self, rule, instance, ok, detail="", site=None, witness=None):
        o = Obligation(rule, str(instance), ok, detail, site, witness)
        self.obs.append(o)
        return o.ok

    def count(self, key, n=1):
        self.analysed[key] = self.analysed.get(key, 0) + n

    def note(self, s):
        self.notes.append(s)

    def total(self, rets, outs, rule, what):
        """The analysed callable must have a returning path.  When every evaluated path raises, that is a
        decided fact about the code (the function fails on every input), reported as a violation of `rule`;
        with no evaluated path at all it is a limit of the analysis."""
        if rets:
            return
        rs = [o for o in outs if o.kind == "raise"]
        if outs and len(rs) == len(outs):
            where = sorted({"%s at %s:%s" % (o.exc, (o.site or ("?", 0))[0], (o.site or ("?", 0))[1]) for o in rs})
            self.ob(rule, what.split(" has no ")[0], False, "%s: every path raises (%s)" % (what, "; ".join(where[:4])),
                    next((o.site for o in rs if o.site), None))
        raise AnalysisError(what)

    def require(self, cond, what):
        """An anchor or precondition of the analysis itself (not of the property)."""
        if not cond:
            raise AnalysisError(what)


def load_known():
    """-> (known: {(pid, rule, instance-prefix): text}, fixed: [text])"""
    known, fixed = {}, []
    if not os.path.exists(KNOWN_FILE):
        return known, fixed
    for line in open(KNOWN_FILE):
        line = line.strip()
        if not line or line.startswith("#"):
            continue
        if line.startswith("fixed:"):
            fixed.append(line)
            continue
        m = re.match(r"known:\s+property=(\S+)\s+rule=(\S+)\s+construct=(\S+)\s*(.*)$", line)
        if m:
            known[(m.group(1), m.group(2), m.group(3))] = m.group(4)
    return known, fixed


def finish(ctx, seed=0):
    """Write evidence, print the verdict, return the exit code."""
    os.makedirs(EVIDENCE_DIR, exist_ok=True)
    obs = ctx.obs
    if ctx.only is not None:
        obs = [o for o in obs if (o.rule, o.instance) == ctx.only]
        if not obs:
            print("ANALYSIS-ERROR property=%s replayed obligation %s no longer exists" % (ctx.pid, ctx.only,))
            return 2
    known, _fixed = load_known()
    failed = [o for o in obs if not o.ok]
    if len(obs) < ctx.min_obligations and ctx.only is None and not failed:
        print("ANALYSIS-ERROR property=%s only %d obligations generated, expected at least %d "
              "(a rule that matches nothing would pass vacuously)" % (ctx.pid, len(obs), ctx.min_obligations))
        return 2
    new, listed = [], []
    for o in failed:
        k = (ctx.pid, o.rule, o.instance)
        if k in known:
            listed.append((o, known[k]))
        else:
            new.append(o)
    wall = time.time() - ctx.t0
    samples = [o.as_dict() for o in obs[:40]]
    # always show every failed obligation in the samples
    for o in failed:
        d = o.as_dict()
        if d not in samples:
            samples.append(d)
    cov = {
        "explanation": ctx.explanation,
        "obligations": len(obs),
        "discharged": len(obs) - len(failed),
        "evaluations": len(obs),
        "distinct_nontrivial": len({o.key() for o in obs}),
        "rule": "one evaluation = one static obligation (rule instance at a named construct); distinct = distinct (rule, instance) pairs",
        "samples": samples,
        "analysed": ctx.analysed,
        "rules": sorted({o.rule for o in obs}),
        "checker_cmd": "./check %s --tier %s" % (ctx.pid, ctx.tier),
        "trusted_base": ctx.trusted_base or ["sa/terms.py rewrite table", "sa/evalr.py evaluator", "Python ast module"],
        "exhaustive": True,
        "notes": ctx.notes,
        "known_findings_listed": [o.key() for o, _ in listed],
    }
    ev = {"property_id": ctx.pid, "tier": ctx.tier, "seed": int(seed), "level": ctx.level,
          "coverage": cov, "assumptions": ctx.assumptions, "wall_s": round(wall, 3),
          "violations": len(new)}
    no_write = bool(os.environ.get("VERIF_NO_EVIDENCE"))
    if ctx.only is None and not no_write:
        with open(os.path.join(EVIDENCE_DIR, "%s.json" % ctx.pid), "w") as f:
            json.dump(ev, f, indent=1, sort_keys=True, default=str)
    print("%s [%s] %d obligations, %d discharged, %d failed (%d listed as known), %.2fs"
          % (ctx.pid, ctx.tier, len(obs), len(obs) - len(failed), len(failed), len(listed), wall))
    for o, txt in listed:
        print("KNOWN-FINDING: property=%s %s at %s: %s" % (ctx.pid, o.key(), fmt_site(o.site), txt or o.detail))
    if new:
        if not no_write:
            os.makedirs(REPLAY_DIR, exist_ok=True)
        for o in new:
            dig = hashlib.sha256(o.key().encode()).hexdigest()[:10]
            path = os.path.join(REPLAY_DIR, "%s-%s-%s.json" % (ctx.pid, re.sub(r"[^A-Za-z0-9]+", "_", o.rule)[:24], dig))
            if not no_write:
                with open(path, "w") as f:
                    json.dump({"property_id": ctx.pid, "rule": o.rule, "instance": o.instance,
                               "detail": o.detail, "site": fmt_site(o.site), "witness": o.witness}, f, indent=1, default=str)
            print("%s: [%s/%s] %s -- %s" % (fmt_site(o.site), ctx.pid, o.rule, o.instance, o.detail))
            print("VIOLATION property=%s replay=%s" % (ctx.pid, path))
        return 1
    return 0
