"""Checker self-validation (DESIGN 6): apply corpus edits to scratch copies of the
*current* tree and run the checks on them.  Break variants must be reported (exit 1),
neutral variants must pass (exit 0).  Repository code is never executed; "still
compiles" is checked with compile() only."""
import concurrent.futures
import json
import os
import shutil
import subprocess
import sys
import tempfile

from .loader import repo_root
from .report import VERIF, EVIDENCE_DIR


def _copy_tree(dst):
    src = os.path.join(repo_root(), "src", "spake2")
    d = os.path.join(dst, "src", "spake2")
    shutil.copytree(src, d, ignore=shutil.ignore_patterns("test", "__pycache__", "*.pyc"))
    return d


def apply_patch(patchfile, dst):
    """Apply a unified diff (paths src/spake2/...) to the scratch copy.  -> None or the reason it does not apply."""
    p = subprocess.run(["patch", "-p1", "-s", "-f", "--no-backup-if-mismatch", "-d", dst, "-i", patchfile],
                       stdout=subprocess.PIPE, stderr=subprocess.STDOUT, universal_newlines=True)
    if p.returncode != 0:
        return "patch %s does not apply to the current tree: %s" % (os.path.relpath(patchfile, VERIF), p.stdout.strip().splitlines()[-1:] or "")
    for dp, dn, fn in os.walk(os.path.join(dst, "src", "spake2")):
        for f in fn:
            if f.endswith(".py"):
                try:
                    compile(open(os.path.join(dp, f)).read(), f, "exec")
                except SyntaxError as e:
                    return "patched tree does not compile: %s" % e
    return None


def patch_variants():
    """The independently written changes kept under seeded/ (each breaks the property named in its
    meta.json) and the behaviour-preserving refactorings under seeded_neutral/ (must stay silent for
    every property), as self-test variants."""
    import glob
    out = []
    for d in sorted(glob.glob(os.path.join(VERIF, "seeded", "*"))):
        pf, mf = os.path.join(d, "patch.diff"), os.path.join(d, "meta.json")
        if os.path.exists(pf) and os.path.exists(mf):
            m = json.load(open(mf))
            out.append({"id": "seed-" + os.path.basename(d), "kind": "break", "breaks": [m["breaks_property"]], "edits": [], "patch": pf,
                        "silent": [], "note": m.get("needs_to_manifest", ""),
                        # a seed written in an idiom the analysis declares outside its subset: the own check must
                        # then say so (exit 2, no verdict) - never pass it (exit 0)
                        "expect": int(m.get("own_check_expected_exit", 1))})
    for d in sorted(glob.glob(os.path.join(VERIF, "seeded_neutral", "*"))):
        pf = os.path.join(d, "patch.diff")
        if os.path.exists(pf):
            out.append({"id": "refactor-" + os.path.basename(d), "kind": "neutral", "props": [], "edits": [], "patch": pf})
    return out


def apply_variant(v, dst):
    """-> None if applied, else reason for skipping."""
    pk = _copy_tree(dst)
    base = v.get("patch") or (os.path.join(VERIF, v["base"], "patch.diff") if v.get("base") else None)
    if base:
        why = apply_patch(base, dst)
        if why:
            return why
    for (rel, old, new) in v["edits"]:
        p = os.path.join(pk, rel)
        if not os.path.exists(p):
            return "file %s absent" % rel
        s = open(p).read()
        if s.count(old) != 1:
            return "anchor text occurs %d times in %s" % (s.count(old), rel)
        s = s.replace(old, new)
        try:
            compile(s, p, "exec")
        except SyntaxError as e:
            return "variant does not compile: %s" % e
        open(p, "w").write(s)
    return None


RENAMES = {
    "spake2.py": [("compute_outbound_message", "_compute_out"), ("_extract_message", "_strip_side"), ("self.xy_scalar", "self._secret"),
                  ("self.xy_elem", "self._secret_elem"), (".outbound_message", "._out_msg"), (".inbound_message", "._in_msg"),
                  ("_started", "_begun"), ("_finished", "_done"), ("pw_scalar", "_w"), ("my_blinding", "_blind"), ("my_unblinding", "_unblind"),
                  ("_serialize_to_dict", "_to_d"), ("_deserialize_from_dict", "_from_d"), ("hash_params", "_fingerprint")],
    "ed25519_basic.py": [("decodepoint", "_decode_pt"), ("encodepoint", "_encode_pt"), ("is_extended_zero", "_is_identity"),
                         ("scalarmult_element_safe_slow", "_mul_safe"), ("_add_elements_nonunfied", "_add_fast"), ("scalarmult_element", "_mul_fast"),
                         ("add_elements", "_add_complete"), ("double_element", "_dbl"), ("xrecover", "_sqrt_ratio"), ("isoncurve", "_on_curve"),
                         ("xform_affine_to_extended", "_to_ext"), ("xform_extended_to_affine", "_to_aff"),
                         ("bytes_to_unknown_group_element", "_decode_any"), ("XYTZ", "_coords"), ("expand_arbitrary_element_seed", "_kdf_seed")],
    "groups.py": [("_is_member", "_in_subgroup"), ("_element_to_bytes", "_enc_elem"), ("expand_password", "_kdf_pw"),
                  ("expand_arbitrary_element_seed", "_kdf_seed"), ("._e ", "._residue "), ("._e)", "._residue)"), ("._e,", "._residue,"), ("._e\n", "._residue\n")],
    "util.py": [("generate_mask", "_mask_for"), ("random_list_of_ints", "_draw"), ("mask_list_of_ints", "_apply_mask"), ("list_of_ints_to_number", "_to_int")],
}


def whole_tree_variant(kind, dst):
    """Behaviour-preserving transformations of the whole package: 'reformat' = every file
    through ast.unparse (comments dropped, lines moved); 'rename' = private helpers, fields and
    internal function names renamed consistently."""
    import ast
    pk = _copy_tree(dst)
    for dp, dn, fn in os.walk(pk):
        for f in fn:
            if not f.endswith(".py") or f == "_version.py":
                continue
            p = os.path.join(dp, f)
            src = open(p).read()
            if kind == "reformat":
                src = ast.unparse(ast.parse(src)) + "\n"
            else:
                for old, new in RENAMES.get(f, []):
                    src = src.replace(old, new)
            compile(src, p, "exec")
            open(p, "w").write(src)


def run_check_on(pid, root):
    env = dict(os.environ)
    env["VERIF_REPO"] = root
    env["VERIF_NO_EVIDENCE"] = "1"
    p = subprocess.run([sys.executable, "-B", "-m", "sa.main", pid, "--tier", "quick"], cwd=VERIF, env=env,
                       stdout=subprocess.PIPE, stderr=subprocess.STDOUT, universal_newlines=True, timeout=600)
    return p.returncode, p.stdout


def run_variant(v, pids):
    tmp = tempfile.mkdtemp(prefix="sa-selftest-")
    try:
        skip = apply_variant(v, tmp)
        if skip:
            return {"id": v["id"], "skipped": skip}
        res = {}
        for pid in pids:
            rc, out = run_check_on(pid, tmp)
            rules = sorted({ln.split("[", 1)[1].split("]", 1)[0] for ln in out.splitlines()
                            if "] " in ln and "[" in ln and ln.split("[", 1)[1].startswith(pid + "/")})
            res[pid] = {"rc": rc, "rules": rules, "tail": out.strip().splitlines()[-6:]}
        return {"id": v["id"], "results": res}
    finally:
        shutil.rmtree(tmp, ignore_errors=True)


def relevant(pid):
    from .corpus import CORPUS
    out = []
    for v in list(CORPUS) + patch_variants():
        if v["kind"] == "break" and pid in v["breaks"]:
            out.append(v)
        elif v["kind"] == "neutral" and (not v.get("props") or pid in v["props"]):
            out.append(v)
    return out


def sensitivity(pid, ctx=None, jobs=16, verbose=False):
    """Thorough tier: exit 0 if every applicable break variant of `pid` is reported and
    every neutral variant passes; exit 2 otherwise (the checker lost sensitivity/precision)."""
    vs = relevant(pid)
    with concurrent.futures.ThreadPoolExecutor(max_workers=jobs) as ex:
        results = list(ex.map(lambda v: run_variant(v, [pid]), vs))
    bad, applied_breaks, applied_neutral, skipped = [], 0, 0, 0
    rows = []
    for kind in ("reformat", "rename"):
        tmp = tempfile.mkdtemp(prefix="sa-selftest-")
        try:
            whole_tree_variant(kind, tmp)
            rc, out = run_check_on(pid, tmp)
        finally:
            shutil.rmtree(tmp, ignore_errors=True)
        applied_neutral += 1
        rows.append({"id": "whole-tree-" + kind, "kind": "neutral", "rc": rc})
        if rc != 0:
            bad.append("neutral whole-tree %s raised an alarm (rc=%d): %s" % (kind, rc, " | ".join(out.strip().splitlines()[-3:])))
    for v, r in zip(vs, results):
        if "skipped" in r:
            skipped += 1
            rows.append({"id": v["id"], "kind": v["kind"], "skipped": r["skipped"]})
            continue
        rc = r["results"][pid]["rc"]
        rows.append({"id": v["id"], "kind": v["kind"], "rc": rc, "rules": r["results"][pid]["rules"]})
        if v["kind"] == "break":
            applied_breaks += 1
            if rc != v.get("expect", 1):
                bad.append("break variant %s not reported (rc=%d, expected %d): %s" % (v["id"], rc, v.get("expect", 1), " | ".join(r["results"][pid]["tail"][-2:])))
        else:
            applied_neutral += 1
            if rc != 0:
                bad.append("neutral variant %s raised an alarm (rc=%d): %s" % (v["id"], rc, " | ".join(r["results"][pid]["tail"][-3:])))
    print("%s [thorough] sensitivity run: %d break variants reported of %d applied, %d neutral variants silent of %d, %d skipped (anchor absent)"
          % (pid, applied_breaks - sum(1 for b in bad if b.startswith("break")), applied_breaks,
             applied_neutral - sum(1 for b in bad if b.startswith("neutral")), applied_neutral, skipped))
    evp = os.path.join(EVIDENCE_DIR, "%s.json" % pid)
    if os.path.exists(evp) and not os.environ.get("VERIF_NO_EVIDENCE"):
        ev = json.load(open(evp))
        ev["coverage"]["sensitivity"] = {"break_applied": applied_breaks, "neutral_applied": applied_neutral,
                                         "skipped": skipped, "failures": bad, "variants": rows}
        json.dump(ev, open(evp, "w"), indent=1, sort_keys=True)
    if bad:
        for b in bad:
            print("SELFTEST-FAILURE property=%s %s" % (pid, b))
        print("ANALYSIS-ERROR property=%s the checker failed its own sensitivity run; its verdict is not to be believed" % pid)
        return 2
    if applied_breaks == 0:
        print("ANALYSIS-ERROR property=%s no break variant applies to the current tree (sensitivity unknown)" % pid)
        return 2
    return 0


def matrix(pids=None, only=None, jobs=16):
    """Developer view: every variant x every property."""
    from .corpus import CORPUS
    from .main import PROPS
    pids = pids or sorted(p for p in PROPS if os.path.exists(os.path.join(VERIF, "sa", "rules", PROPS[p][0] + ".py")))
    vs = [v for v in list(CORPUS) + patch_variants() if not only or v["id"] in only or any(o in v["id"] for o in only)]
    with concurrent.futures.ThreadPoolExecutor(max_workers=jobs) as ex:
        results = list(ex.map(lambda v: run_variant(v, pids), vs))
    ok = True
    for v, r in zip(vs, results):
        if "skipped" in r:
            print("%-44s SKIPPED %s" % (v["id"], r["skipped"]))
            continue
        cells = []
        for pid in pids:
            rc = r["results"][pid]["rc"]
            exp = None
            if v["kind"] == "break" and pid in v["breaks"]:
                exp = v.get("expect", 1)
            elif v["kind"] == "neutral":
                exp = 0
            elif v["kind"] == "break" and pid in v.get("silent", ()):
                exp = 0
            mark = {0: ".", 1: "V", 2: "E"}.get(rc, "?")
            if exp is not None and rc != exp:
                mark = mark + "!"
                ok = False
            elif exp is None and rc != 0:
                mark = mark.lower() if mark != "." else mark
            cells.append("%s=%s" % (pid[1:], mark))
        print("%-44s %-7s %s" % (v["id"], v["kind"], " ".join(cells)))
        for pid in pids:
            rr = r["results"][pid]
            exp1 = v["kind"] == "break" and pid in v["breaks"]
            if (exp1 and rr["rc"] != 1) or (v["kind"] == "neutral" and rr["rc"] != 0) or rr["rc"] == 2:
                print("      %s rc=%d: %s" % (pid, rr["rc"], " | ".join(rr["tail"][-3:])[:400]))
            elif exp1:
                print("      %s rules=%s" % (pid, ",".join(rr["rules"])))
    return 0 if ok else 1


if __name__ == "__main__":
    args = sys.argv[1:]
    pids = [a for a in args if a.startswith("C") and a[1:].isdigit()]
    only = [a for a in args if not (a.startswith("C") and a[1:].isdigit())]
    sys.exit(matrix(pids or None, only or None))
