"""Self-test corpus (DESIGN 6 / Appendix B): edits applied to scratch copies of the current tree.

kind 'break'  : the listed properties' checks must report a violation (exit 1);
                'silent' lists properties whose check must stay silent on this variant.
kind 'neutral': behaviour-preserving edit; every listed check (all if 'props' absent) must pass.
Each edit is (file relative to src/spake2, exact old text occurring once, new text).
An edit whose anchor text is absent in the current tree is skipped and counted.
"tests" records whether the variant survives the repository's 43 tests (established when
the corpus entry was written; not re-run by the checks).
"""

def B(id, breaks, edits, silent=(), tests="survive", note="", base=None):
    """base: directory (relative to /verif) of a behaviour-preserving refactoring whose patch.diff is
    applied first - the defect is then seeded into the refactored code."""
    return {"id": id, "kind": "break", "breaks": list(breaks), "edits": edits, "silent": list(silent),
            "tests": tests, "note": note, "base": base}


def N(id, edits, props=None, note="", base=None):
    return {"id": id, "kind": "neutral", "edits": edits, "props": props, "note": note, "base": base}


import json as _json
import os as _os
_SPEC = _json.load(open(_os.path.join(_os.path.dirname(_os.path.dirname(_os.path.abspath(__file__))), "spec", "constants.json")))
_G1024 = int(_SPEC["integer"]["1024"]["g"], 16)
_P1024 = int(_SPEC["integer"]["1024"]["p"], 16)
_G1024_HEX = "0x%X" % _G1024
_G1024_SQ = "0x%X" % pow(_G1024, 2, _P1024)
_G1024_FULLORDER = "0x2"       # an element of Z_p^* outside the order-q subgroup

SP = "spake2.py"

_MATCH_OLD = """        if other_side not in (SideA, SideB):
            raise OffSides("I don't know what side they're on")
        if self.side == other_side:
            if self.side == SideA:
                raise OffSides("I'm A, but I got a message from A (not B).")
            else:
                raise OffSides("I'm B, but I got a message from B (not A).")
        return inbound_message
"""
_MATCH_NEW = """        match (self.side, other_side):
            case (b"A", b"A"):
                raise OffSides("I'm A, but I got a message from A (not B).")
            case (b"B", b"B"):
                raise OffSides("I'm B, but I got a message from B (not A).")
            case (_, b"A") | (_, b"B"):
                return inbound_message
            case _:
                raise OffSides("I don't know what side they're on")
"""
GR = "groups.py"
ED = "ed25519_basic.py"
UT = "util.py"

_ITER = [(ED, '''def scalarmult_element_safe_slow(pt, n):
    # this form is slightly slower, but tolerates arbitrary points, including
    # those which are not in the main 1*L subgroup. This includes points of
    # order 1 (the neutral element Zero), 2, 4, and 8.
    assert n >= 0
    if n==0:
        return xform_affine_to_extended((0,1))
    _ = double_element(scalarmult_element_safe_slow(pt, n>>1))
    return add_elements(_, pt) if n&1 else _
''', '''def _double_and_add(pt, n, add): # extended->extended
    # left-to-right binary scalarmult; 'add' is one of the two addition formulas
    assert n >= 0
    acc = xform_affine_to_extended((0,1))
    if n == 0:
        return acc
    for bit in bin(n)[2:]:
        acc = double_element(acc)
        if bit == "1":
            acc = add(acc, pt)
    return acc

def scalarmult_element_safe_slow(pt, n):
    return _double_and_add(pt, n, add_elements)
'''), (ED, '''    assert n >= 0
    if n==0:
        return xform_affine_to_extended((0,1))
    _ = double_element(scalarmult_element(pt, n>>1))
    return _add_elements_nonunfied(_, pt) if n&1 else _
''', '''    return _double_and_add(pt, n, _add_elements_nonunfied)
''')]

_GEN_OLD = '''    for plus in itertools.count(0):
        y_plus = (y + plus) % Q
        x = xrecover(y_plus)
        Pa = [x,y_plus] # no attempt to use both "positive" and "negative" X

        # only about 50% of Y coordinates map to valid curve points (I think
        # the other half give you points on the "twist").
        if not isoncurve(Pa):
            continue

        P = ElementOfUnknownGroup(xform_affine_to_extended(Pa))
'''
_GEN_NEW = '''    for P in _curve_points_from(y):
'''
_GEN_DEF_OLD = '''def arbitrary_element(seed): # unknown DL
'''
_GEN_DEF_NEW = '''def _curve_points_from(y):
    # successive Y values, as curve points (no attempt to use both "positive"
    # and "negative" X); only about 50% of Y coordinates are on the curve
    for plus in itertools.count(0):
        y_plus = (y + plus) % Q
        Pa = [xrecover(y_plus), y_plus]
        if isoncurve(Pa):
            yield ElementOfUnknownGroup(xform_affine_to_extended(Pa))

def arbitrary_element(seed): # unknown DL
'''

_IMASK_OLD = '    top_byte_mask_int, num_bytes = generate_mask(maxval)\n    while True:\n        enough_bytes = random_list_of_ints(num_bytes, entropy_f)\n        assert len(enough_bytes) == num_bytes\n        candidate_bytes = mask_list_of_ints(top_byte_mask_int, enough_bytes)\n        candidate_int = list_of_ints_to_number(candidate_bytes)\n'
_IMASK_NEW = '    num_bits = size_bits(maxval)\n    num_bytes = size_bytes(maxval)\n    while True:\n        drawn = entropy_f(num_bytes)\n        assert len(drawn) == num_bytes\n        candidate_int = int.from_bytes(drawn, "big") & ((1 << num_bits) - 1)\n'

_RTL = "def _double_and_add(pt, n, add): # extended->extended\n    # right-to-left binary scalarmult; 'add' is one of the two addition formulas\n    assert n >= 0\n    result = xform_affine_to_extended((0,1))\n    addend = pt\n    while n:\n        if n & 1:\n            result = add(result, addend)\n        addend = double_element(addend)\n        n >>= 1\n    return result\n\ndef scalarmult_element_safe_slow(pt, n):\n    return _double_and_add(pt, n, add_elements)\n"

CORPUS = [
    # ------------------------------------------------------------------ C07 typestate
    B("c07-restore-not-started", ["C07"], [(SP, """        g = self.params.group
        self._started = True
        xy_scalar_bytes = unhexlify(d["xy_scalar"].encode("ascii"))
        self.xy_scalar = g.bytes_to_scalar(xy_scalar_bytes)
        self.xy_elem = g.Base.scalarmult(self.xy_scalar)
        self.compute_outbound_message()
        return self


# applications""", """        g = self.params.group
        xy_scalar_bytes = unhexlify(d["xy_scalar"].encode("ascii"))
        self.xy_scalar = g.bytes_to_scalar(xy_scalar_bytes)
        self.xy_elem = g.Base.scalarmult(self.xy_scalar)
        self.compute_outbound_message()
        return self


# applications""")]),
    B("c07-serialize-resets-finished", ["C07", "C08"], [(SP, """            raise SerializedTooEarly("call .start() before .serialize()")
""", """            raise SerializedTooEarly("call .start() before .serialize()")
        self._finished = False
""")]),
    B("c07-start-guard-removed", ["C07"], [(SP, """        if self._started:
            raise OnlyCallStartOnce("start() can only be called once")
""", "")], tests="killed"),
    B("c07-finish-guard-only-after-success", ["C07"], [(SP, """        if self._finished:
            raise OnlyCallFinishOnce("finish() can only be called once")
        self._finished = True
""", """        if self._finished and self.inbound_message is None:
            raise OnlyCallFinishOnce("finish() can only be called once")
        self._finished = True
""")], note="refusal depends on a second condition"),
    B("c07-reflection-resets-flag", ["C07"], [(SP, """        if inbound_elem.to_bytes() == self.outbound_message:
            raise ReflectionThwarted
""", """        if inbound_elem.to_bytes() == self.outbound_message:
            self._finished = False
            raise ReflectionThwarted
""")], silent=["C16"], note="T6 reset; still at most one key, but flag reset outside ctor"),
    B("c07-class-default-outbound", ["C07"], [(SP, """    side = None # set by the subclass
""", """    side = None # set by the subclass
    outbound_message = b""
    xy_scalar = 0
""")], note="finish-before-start no longer fails on a missing field"),
    B("c07-start-regenerates-on-restored", ["C07"], [(SP, """        if self._started:
            raise OnlyCallStartOnce("start() can only be called once")
""", """        if self._started and self.entropy_f is os.urandom:
            raise OnlyCallStartOnce("start() can only be called once")
""")]),
    B("c07-serialize-too-early-guard-removed", ["C07"], [(SP, """        if not self._started:
            raise SerializedTooEarly("call .start() before .serialize()")
""", "")]),
    N("c07-flag-store-after-work", [(SP, """        self._finished = True

        self.inbound_message = self._extract_message(inbound_side_and_message)
""", """        self.inbound_message = self._extract_message(inbound_side_and_message)
        self._finished = True
""")], props=["C07"], note="DESIGN 4.7: flag placement is not an obligation"),
    # ------------------------------------------------------------------ C05 strict decoding
    B("c05-ed-length-check-removed", ["C05", "C02", "C15"], [(ED, """    if len(s) != 32:
        raise ValueError("encoded point must be exactly 32 bytes")
    unclamped = int(binascii.hexlify(s[::-1]), 16)
""", """    unclamped = int(binascii.hexlify(s[:32][::-1]), 16)
""")], note="F1 part 1 re-introduced"),
    B("c05-ed-y-range-removed", ["C05", "C02"], [(ED, """    if y >= Q:
        raise ValueError("non-canonical point encoding: y >= Q")
""", "")], note="F1 part 2 re-introduced"),
    B("c05-ed-sign-on-zero-accepted", ["C05"], [(ED, """        if x == 0:
            raise ValueError("non-canonical point encoding: sign bit on x=0")
""", "")], note="F1 part 3 re-introduced"),
    B("c05-int-length-assert-removed", ["C05", "C02", "C15"], [(GR, """        assert isinstance(b, bytes)
        assert len(b) == self.element_size_bytes
        i = bytes_to_number(b)
        if i <= 0""", """        assert isinstance(b, bytes)
        i = bytes_to_number(b)
        if i <= 0""")]),
    B("c05-int-upper-bound-removed", ["C05"], [(GR, """        if i <= 0 or i >= self.p:   # Zp* excludes 0""", """        if i <= 0:   # Zp* excludes 0""")]),
    B("c05-int-membership-removed", ["C05"], [(GR, """        if not self._is_member(e):
            raise ValueError("element is not in the right group")
        return e
""", """        return e
""")], tests="killed"),
    B("c05-ed-membership-via-Element", ["C05"], [(ED, """    if not is_extended_zero(P.scalarmult(L).XYTZ):
        raise ValueError("element is not in the right group")""", """    if not is_extended_zero(Element(P.XYTZ).scalarmult(L).XYTZ):
        raise ValueError("element is not in the right group")""")], note="Element.scalarmult reduces L % L = 0: everything on the curve is accepted"),
    B("c05-ed-membership-8L", ["C05"], [(ED, """    if not is_extended_zero(P.scalarmult(L).XYTZ):
        raise ValueError("element is not in the right group")""", """    if not is_extended_zero(P.scalarmult(8*L).XYTZ):
        raise ValueError("element is not in the right group")""")], note="8L kills every curve point"),
    B("c05-ed-safe-ladder-uses-dedicated-add", ["C05"], [(ED, """    _ = double_element(scalarmult_element_safe_slow(pt, n>>1))
    return add_elements(_, pt) if n&1 else _""", """    _ = double_element(scalarmult_element_safe_slow(pt, n>>1))
    return _add_elements_nonunfied(_, pt) if n&1 else _""")]),
    B("c05-ed-oncurve-wrong-d", ["C05"], [(ED, """    return (-x*x + y*y - 1 - d*x*x*y*y) % Q == 0""", """    return (-x*x + y*y - 1 - 2*d*x*x*y*y) % Q == 0""")], tests="killed"),
    B("c05-ed-zero-check-removed", ["C05"], [(ED, """    if P is Zero:
        raise ValueError("element was Zero")
""", """    if P is Zero:
        return Element(P.XYTZ)
""")]),
    B("c05-finish-lenient-decoder", ["C05"], [(SP, """        inbound_elem = g.bytes_to_element(self.inbound_message)
""", """        inbound_elem = g.bytes_to_element(self.inbound_message[:g.element_size_bytes])
""")], note="finish() truncates before the strict decoder"),
    N("c05-int-assert-to-if-raise", [(GR, """        assert len(b) == self.element_size_bytes
        i = bytes_to_number(b)""", """        if len(b) != self.element_size_bytes:
            raise ValueError("wrong length")
        i = bytes_to_number(b)""")]),
    N("c05-int-upper-bound-gt", [(GR, """        if i <= 0 or i >= self.p:   # Zp* excludes 0""", """        if i < 0 or i > self.p:""")], note="i == 0 and i == p fail the membership test"),
    N("c05-ed-range-check-lt-form", [(ED, """    if y >= Q:
        raise ValueError("non-canonical point encoding: y >= Q")
""", """    if not (y < Q):
        raise ValueError("non-canonical point encoding: y >= Q")
""")]),
    N("c05-ed-decode-helper-inlined", [(ED, """    P = bytes_to_unknown_group_element(bytes)
    if P is Zero:
        raise ValueError("element was Zero")
""", """    if bytes == _zero_bytes:
        raise ValueError("element was Zero")
    P = ElementOfUnknownGroup(xform_affine_to_extended(decodepoint(bytes)))
""")]),
    # ------------------------------------------------------------------ C06 side confusion / reflection
    B("c06-symmetric-assert-removed", ["C06"], [(SP, """        assert other_side == SideSymmetric
        return inbound_message""", """        return inbound_message""")]),
    B("c06-asym-unknown-side-accepted", ["C06"], [(SP, """        if other_side not in (SideA, SideB):
            raise OffSides("I don't know what side they're on")
""", "")], tests="killed"),
    B("c06-reflection-only-side-A", ["C06"], [(SP, """        if inbound_elem.to_bytes() == self.outbound_message:
            raise ReflectionThwarted""", """        if self.side != SideB and inbound_elem.to_bytes() == self.outbound_message:
            raise ReflectionThwarted""")]),
    B("c06-reflection-check-removed", ["C06"], [(SP, """        if inbound_elem.to_bytes() == self.outbound_message:
            raise ReflectionThwarted
""", "")], tests="killed"),
    B("c06-reflection-only-ed25519", ["C06"], [(SP, """        if inbound_elem.to_bytes() == self.outbound_message:
            raise ReflectionThwarted""", """        if len(self.outbound_message) == 32 and inbound_elem.to_bytes() == self.outbound_message:
            raise ReflectionThwarted""")]),
    B("c06-symmetric-accepts-lowercase", ["C06"], [(SP, """        assert other_side == SideSymmetric
        return inbound_message""", """        assert other_side.upper() == SideSymmetric
        return inbound_message""")], note="b's' accepted as well: one unusual byte"),
    B("c06-own-side-raises-wrong-class", ["C06"], [(SP, """                raise OffSides("I'm B, but I got a message from B (not A).")""", """                raise ValueError("I'm B, but I got a message from B (not A).")""")]),
    B("c06-asym-side-check-only-empty-id", ["C06"], [(SP, """        if self.side == other_side:
            if self.side == SideA:""", """        if self.side == other_side and not self.idA:
            if self.side == SideA:""")], note="own-side check skipped when idA is set"),
    N("c06-side-slice-spelling", [(SP, """    def _extract_message(self, inbound_side_and_message):
        other_side = inbound_side_and_message[0:1]
        inbound_message = inbound_side_and_message[1:]

        if other_side not in""", """    def _extract_message(self, inbound_side_and_message):
        other_side = inbound_side_and_message[:1]
        inbound_message = inbound_side_and_message[1:]

        if other_side not in""")]),
    N("c06-symmetric-if-raise", [(SP, """        assert other_side == SideSymmetric
        return inbound_message""", """        if other_side != SideSymmetric:
            raise OffSides("unknown side")
        return inbound_message""")]),
    N("c06-reflection-compare-raw", [(SP, """        if inbound_elem.to_bytes() == self.outbound_message:
            raise ReflectionThwarted""", """        if self.inbound_message == self.outbound_message:
            raise ReflectionThwarted""")], props=["C06"], note="raw comparison is equivalent given canonical decoding (C05 D2)"),
    # ------------------------------------------------------------------ C12 group law
    B("c12-add-d-not-doubled", ["C12"], [(ED, "    C = T1*(2*d)*T2 % Q\n", "    C = T1*d*T2 % Q\n")], tests="killed"),
    B("c12-double-sign-H", ["C12"], [(ED, "    H = (D-B) % Q\n    X3 = (E*F) % Q\n    Y3 = (G*H) % Q\n    Z3 = (F*G) % Q\n    T3 = (E*H) % Q\n    return (X3, Y3, Z3, T3)\n\ndef add_elements",
                                          "    H = (B-D) % Q\n    X3 = (E*F) % Q\n    Y3 = (G*H) % Q\n    Z3 = (F*G) % Q\n    T3 = (E*H) % Q\n    return (X3, Y3, Z3, T3)\n\ndef add_elements")], tests="killed"),
    B("c12-add-wrong-modulus", ["C12"], [(ED, "    D = Z1*2*Z2 % Q\n", "    D = Z1*2*Z2 % L\n")], tests="killed"),
    B("c12-dedicated-T3-dropped-factor", ["C12"], [(ED, "    Z3 = (F*G) % Q\n    T3 = (E*H) % Q\n    return (X3, Y3, Z3, T3)\n\ndef scalarmult_element(",
                                                     "    Z3 = (F*G) % Q\n    T3 = (E*G) % Q\n    return (X3, Y3, Z3, T3)\n\ndef scalarmult_element(")], tests="killed"),
    B("c12-element-add-uses-dedicated", ["C12"], [(ED, "        sum_XYTZ = add_elements(self.XYTZ, other.XYTZ)", "        sum_XYTZ = _add_elements_nonunfied(self.XYTZ, other.XYTZ)")], tests="killed",
      note="P+P, P+(-P) and additions of torsion points are wrong"),
    B("c12-safe-ladder-dedicated", ["C12", "C13"], [(ED, """    _ = double_element(scalarmult_element_safe_slow(pt, n>>1))
    return add_elements(_, pt) if n&1 else _""", """    _ = double_element(scalarmult_element_safe_slow(pt, n>>1))
    return _add_elements_nonunfied(_, pt) if n&1 else _""")]),
    B("c12-scalarmult-not-reduced", ["C12"], [(ED, """        s = s % L
        # scalarmult(s=0) gets you Zero""", """        s = abs(s)
        # scalarmult(s=0) gets you Zero""")], tests="killed"),
    B("c12-d-constant-wrong", ["C12"], [(ED, "d = -121665 * inv(121666)", "d = -121665 * inv(121665)")], tests="killed"),
    N("c12-double-E-rewritten", [(ED, "    E = (J*J-A-B) % Q\n", "    E = (2*X1*Y1) % Q\n")]),
    N("c12-drop-intermediate-reduction", [(ED, "    A = ((Y1-X1)*(Y2-X2)) % Q\n", "    A = ((Y1-X1)*(Y2-X2))\n")]),
    N("c12-reorder-statements", [(ED, "    X3 = (E*F) % Q\n    Y3 = (G*H) % Q\n    T3 = (E*H) % Q\n    Z3 = (F*G) % Q\n", "    Z3 = (F*G) % Q\n    T3 = (E*H) % Q\n    Y3 = (G*H) % Q\n    X3 = (E*F) % Q\n")]),
    # ------------------------------------------------------------------ C13 group axioms through the API
    B("c13-negate-L-2", ["C13"], [(ED, "        return Element(scalarmult_element(self.XYTZ, L-1))", "        return Element(scalarmult_element(self.XYTZ, L-2))")], note="F2 re-introduced"),
    B("c13-negate-L-3", ["C13"], [(ED, "        return Element(scalarmult_element(self.XYTZ, L-1))", "        return Element(scalarmult_element(self.XYTZ, L-3))")]),
    B("c13-add-zero-unknown", ["C13", "C01"], [(ED, "        if isinstance(other, (Element, _ZeroElement)):", "        if isinstance(other, Element):")], note="F3 re-introduced"),
    B("c13-int-eq-removed", ["C13"], [(GR, """    def __eq__(self, other):
        if not isinstance(other, _Element):
            return NotImplemented
        return self._group is other._group and self._e == other._e
    def __ne__(self, other):
        return not self == other
""", "")], note="F4 re-introduced"),
    B("c13-int-eq-compares-group-only", ["C13"], [(GR, "        return self._group is other._group and self._e == other._e", "        return self._group is other._group")]),
    B("c13-zero-add-returns-self", ["C13"], [(ED, "        return other # zero+anything = anything", "        return self # zero+anything = anything")]),
    B("c13-zero-scalarmult-base-for-0", ["C13"], [(ED, "        return self # zero*anything = zero", "        return self if s else Base # zero*anything = zero")]),
    B("c13-int-scalarmult-abs", ["C13"], [(GR, "        return _Element(self, pow(e1._e, i % self.q, self.p))", "        return _Element(self, pow(e1._e, abs(i) % self.q, self.p))")],
      note="negative scalars give the wrong element; K still agrees on both sides only if both negate"),
    B("c13-int-add-no-reduction", ["C13"], [(GR, "        return _Element(self, (e1._e * e2._e) % self.p)", "        return _Element(self, (e1._e * e2._e))")], tests="killed"),
    B("c13-ladder-bit-mismatch", ["C13"], [(ED, """    _ = double_element(scalarmult_element(pt, n>>1))
    return _add_elements_nonunfied(_, pt) if n&1 else _""", """    _ = double_element(scalarmult_element(pt, n>>1))
    return _add_elements_nonunfied(_, pt) if n&2 else _""")], tests="killed"),
    B("c13-element-scalarmult-zero-not-mapped", ["C13", "C12"], [(ED, """        if s == 0:
            return Zero
        # scalarmult(s=1)""", """        # scalarmult(s=1)""")], note="s = 0 mod L reaches the fast ladder base case and is typed Element"),
    B("c13-elem-add-identity-not-detected", ["C13"], [(ED, """        if is_extended_zero(sum_XYTZ):
            return Zero
        return ElementOfUnknownGroup(sum_XYTZ)""", """        return ElementOfUnknownGroup(sum_XYTZ)""")], note="P + (-P) no longer is Zero"),
    N("c13-int-scalarmult-no-mod-q", [(GR, "        return _Element(self, pow(e1._e, i % self.q, self.p))", "        return _Element(self, pow(e1._e, i, self.p))")], props=["C13", "C01"],
      note="pow with a negative exponent computes the inverse (Python >= 3.8); same value on subgroup members"),
    N("c13-int-eq-via-to-bytes", [(GR, "        return self._group is other._group and self._e == other._e", "        return self._e == other._e")], props=["C13"]),
    N("c13-negate-by-coordinates", [(ED, "        return Element(scalarmult_element(self.XYTZ, L-1))", "        (X, Y, Z, T) = self.XYTZ\n        return Element(((-X) % Q, Y, Z, (-T) % Q))")], props=["C13", "C12"]),
    # ------------------------------------------------------------------ C18 shipped parameter sets
    B("c18-generator-squared", ["C18", "C03"], [(GR, "    g=" + _G1024_HEX + ",", "    g=" + _G1024_SQ + ",")],
      note="another generator of the same subgroup: every test passes, interop with released versions is lost"),
    B("c18-seed-override-1024", ["C18", "C14", "C03"], [("parameters/i1024.py", "Params1024 = _Params(I1024)", "Params1024 = _Params(I1024, M=b'm')")]),
    B("c18-default-params-1024", ["C18"], [(SP, "from .parameters.ed25519 import ParamsEd25519\n\nDefaultParams = ParamsEd25519",
                                            "from .parameters.ed25519 import ParamsEd25519\nfrom .parameters.i1024 import Params1024\n\nDefaultParams = Params1024")], tests="killed"),
    B("c18-from-serialized-default-differs", ["C18"], [(SP, "    def from_serialized(klass, data, params=DefaultParams):",
                                                        "    def from_serialized(klass, data, params=None):\n        from .parameters.i3072 import Params3072\n        params = params or Params3072")],
      note="only the restore default differs"),
    B("c18-S-seed-equals-M", ["C18"], [("params.py", 'def __init__(self, group, M=b"M", N=b"N", S=b"symmetric"):', 'def __init__(self, group, M=b"M", N=b"N", S=b"M"):')], tests="killed"),
    B("c18-ctor-order-assert-removed", ["C18"], [(GR, "        assert pow(g, self.q, self.p) == 1\n", "")]),
    B("c18-base-y-changed", ["C18"], [(ED, "By = 4 * inv(5)", "By = 4 * inv(7)")], tests="killed"),
    B("c18-all-drops-3072", ["C18"], [("parameters/all.py", "from .i3072 import Params3072\n", "")]),
    N("c18-literal-rewritten", [(GR, "    g=" + _G1024_HEX + ",", "    g=0x1*" + _G1024_HEX + ",")]),
    N("c18-L-shift-form", [(ED, "L = 2**252 + 27742317777372353535851937790883648493", "L = (1 << 252) + 27742317777372353535851937790883648493")]),
    N("c18-group-positional-args", [(GR, "I1024 = IntegerGroup(\n    p=", "I1024 = IntegerGroup(\n    "), ], note="first argument positional"),
    # ------------------------------------------------------------------ C17 transcript hash
    B("c17-ids-hashed-jointly", ["C17", "C02"], [(SP, "                           sha256(idA).digest(), sha256(idB).digest(),\n", "                           sha256(idA+idB).digest(),\n")], tests="killed"),
    B("c17-fields-truncated", ["C17", "C02"], [(SP, "                           X_msg, Y_msg, K_bytes])", "                           X_msg[:64], Y_msg[:64], K_bytes])")]),
    B("c17-empty-id-dropped", ["C17", "C02"], [(SP, """    transcript = b"".join([sha256(pw).digest(),
                           sha256(idA).digest(), sha256(idB).digest(),
                           X_msg, Y_msg, K_bytes])""", """    pieces = [sha256(pw).digest()]
    if idA or idB:
        pieces += [sha256(idA).digest(), sha256(idB).digest()]
    transcript = b"".join(pieces + [X_msg, Y_msg, K_bytes])""")], tests="killed"),
    B("c17-sorted-by-length", ["C17"], [(SP, "    first_msg, second_msg = sorted([msg1, msg2])", "    first_msg, second_msg = sorted([msg1, msg2], key=len)")],
      note="messages have equal length, so the sort is a no-op and the transcript depends on argument order"),
    B("c17-symmetric-not-sorted-when-equal-prefix", ["C17"], [(SP, "    first_msg, second_msg = sorted([msg1, msg2])", "    first_msg, second_msg = (msg1, msg2) if msg1[:1] == msg2[:1] else sorted([msg1, msg2])")],
      note="order-dependent only when the two messages share their first byte"),
    B("c17-call-site-swapped-B", ["C17", "C01"], [(SP, "    def X_msg(self): return self.inbound_message\n    def Y_msg(self): return self.outbound_message", "    def X_msg(self): return self.outbound_message\n    def Y_msg(self): return self.inbound_message")], tests="killed"),
    B("c17-pw-not-hashed-into-transcript", ["C17", "C02"], [(SP, """    first_msg, second_msg = sorted([msg1, msg2])
    transcript = b"".join([sha256(pw).digest(),""", """    first_msg, second_msg = sorted([msg1, msg2])
    transcript = b"".join([sha256(b"").digest(),""")], tests="killed"),
    N("c17-plus-instead-of-join", [(SP, """    transcript = b"".join([sha256(pw).digest(),
                           sha256(idSymmetric).digest(),
                           first_msg, second_msg, K_bytes])""", """    transcript = (sha256(pw).digest() + sha256(idSymmetric).digest()
                  + first_msg + second_msg + K_bytes)""")]),
    N("c17-min-max-instead-of-sorted", [(SP, "    first_msg, second_msg = sorted([msg1, msg2])", "    first_msg, second_msg = min(msg1, msg2), max(msg1, msg2)")]),
    N("c17-hashlib-qualified", [(SP, "    key = sha256(transcript).digest()\n    return key\n\ndef finalize_SPAKE2_symmetric", "    import hashlib\n    return hashlib.sha256(transcript).digest()\n\ndef finalize_SPAKE2_symmetric")]),
    # ------------------------------------------------------------------ C08 persist/restore transparency
    B("c08-restore-swaps-ids", ["C08"], [(SP, """                     idA=unhexlify(d["idA"].encode("ascii")),
                     idB=unhexlify(d["idB"].encode("ascii")),""", """                     idA=unhexlify(d["idB"].encode("ascii")),
                     idB=unhexlify(d["idA"].encode("ascii")),""")], silent=["C07", "C06"]),
    B("c08-restore-drops-idS", ["C08"], [(SP, """                     idSymmetric=unhexlify(d["idS"].encode("ascii")),
""", "")]),
    B("c08-serialize-calls-entropy", ["C08", "C11"], [(SP, """        return json.dumps(self._serialize_to_dict()).encode("ascii")""", """        self.entropy_f(1)
        return json.dumps(self._serialize_to_dict()).encode("ascii")""")]),
    B("c08-restore-scalar-off-by-one", ["C08"], [(SP, """        self.xy_scalar = g.bytes_to_scalar(xy_scalar_bytes)
        self.xy_elem = g.Base.scalarmult(self.xy_scalar)
        self.compute_outbound_message()
        return self


# applications""", """        self.xy_scalar = g.bytes_to_scalar(xy_scalar_bytes) + 1
        self.xy_elem = g.Base.scalarmult(self.xy_scalar)
        self.compute_outbound_message()
        return self


# applications""")], tests="killed"),
    B("c08-restore-elem-from-stale-scalar", ["C08"], [(SP, """        self.xy_scalar = g.bytes_to_scalar(xy_scalar_bytes)
        self.xy_elem = g.Base.scalarmult(self.xy_scalar)
        self.compute_outbound_message()
        return self

# add ECC""", """        self.xy_scalar = g.bytes_to_scalar(xy_scalar_bytes)
        self.xy_elem = g.Base.scalarmult(self.xy_scalar % (2**128))
        self.compute_outbound_message()
        return self

# add ECC""")], note="symmetric restore: outbound message differs for large scalars only"),
    B("c08-restore-password-stripped", ["C08"], [(SP, """        self = klass(password=unhexlify(d["password"].encode("ascii")),
                     idA=""", """        self = klass(password=unhexlify(d["password"].encode("ascii")).rstrip(b"\\0"),
                     idA=""")], note="passwords ending in NUL restore to a different session"),
    B("c08-serialize-memoised-on-instance", ["C08", "C07"], [(SP, """        return json.dumps(self._serialize_to_dict()).encode("ascii")""", """        self._blob = json.dumps(self._serialize_to_dict()).encode("ascii")
        self.xy_scalar = self.xy_scalar + 0
        return self._blob""")], note="serialize() writes instance fields"),
    B("c08-serialize-ensure-ascii-false", ["C08"], [(SP, """        return json.dumps(self._serialize_to_dict()).encode("ascii")""", """        return json.dumps(self._serialize_to_dict(), ensure_ascii=False).encode("utf-8")""")]),
    B("c08-restore-skips-reflection-field", ["C08", "C06"], [(SP, """        self.xy_elem = g.Base.scalarmult(self.xy_scalar)
        self.compute_outbound_message()
        return self


# applications""", """        self.xy_elem = g.Base.scalarmult(self.xy_scalar)
        self.compute_outbound_message()
        self.outbound_message = self.outbound_message[::-1][::-1][:-1] + b"\\0"
        return self


# applications""")], tests="killed"),
    N("c08-restore-via-fromhex", [(SP, """        self = klass(password=unhexlify(d["password"].encode("ascii")),
                     idA=""", """        self = klass(password=bytes.fromhex(d["password"]),
                     idA=""")], props=["C08", "C10", "C09"]),
    # ------------------------------------------------------------------ C09 wrong role / parameters
    B("c09-fingerprint-omits-N", ["C09", "C10"], [(SP, """                  self.params.M.to_bytes(),
                  self.params.N.to_bytes(),
                  ]""", """                  self.params.M.to_bytes(),
                  ]""")]),
    B("c09-side-check-only-A", ["C09"], [(SP, """        if d["side"].encode("ascii") != self.side:
            raise WrongSideSerialized""", """        if self.side == SideA and d["side"].encode("ascii") != self.side:
            raise WrongSideSerialized""")]),
    B("c09-fingerprint-comparison-inverted-prefix", ["C09"], [(SP, """        if d["hashed_params"] != self.hash_params():
            err = ("SPAKE2.from_serialized() must be called with the same"
                   "params= that were used to create the serialized data."
                   "These are different somehow.")
            raise WrongGroupError(err)
        g = self.params.group
        self._started = True
        xy_scalar_bytes = unhexlify(d["xy_scalar"].encode("ascii"))
        self.xy_scalar = g.bytes_to_scalar(xy_scalar_bytes)
        self.xy_elem = g.Base.scalarmult(self.xy_scalar)
        self.compute_outbound_message()
        return self


# applications""", """        if d["hashed_params"][:8] != self.hash_params()[:8]:
            err = ("SPAKE2.from_serialized() must be called with the same"
                   "params= that were used to create the serialized data."
                   "These are different somehow.")
            raise WrongGroupError(err)
        g = self.params.group
        self._started = True
        xy_scalar_bytes = unhexlify(d["xy_scalar"].encode("ascii"))
        self.xy_scalar = g.bytes_to_scalar(xy_scalar_bytes)
        self.xy_elem = g.Base.scalarmult(self.xy_scalar)
        self.compute_outbound_message()
        return self


# applications""")], note="only 32 bits of the fingerprint compared"),
    B("c09-from-serialized-ignores-params", ["C09"], [(SP, "        return klass._deserialize_from_dict(d, params)", "        return klass._deserialize_from_dict(d, DefaultParams)")], tests="killed"),
    B("c09-symmetric-side-check-removed", ["C09"], [(SP, """        if d["side"].encode("ascii") != SideSymmetric:
            raise WrongSideSerialized
""", "")], note="A/B state offered to Symmetric now fails with KeyError('idS') instead of WrongSideSerialized"),
    B("c09-symmetric-fingerprint-uses-M", ["C09", "C10"], [(SP, """                  self.params.S.to_bytes(),
                  ]""", """                  self.params.M.to_bytes(),
                  ]""")]),
    B("c09-wrong-group-only-warns", ["C09"], [(SP, """            raise WrongGroupError(err)
        g = self.params.group
        self._started = True
        xy_scalar_bytes = unhexlify(d["xy_scalar"].encode("ascii"))
        self.xy_scalar = g.bytes_to_scalar(xy_scalar_bytes)
        self.xy_elem = g.Base.scalarmult(self.xy_scalar)
        self.compute_outbound_message()
        return self

# add ECC""", """            if len(d["hashed_params"]) == 63: raise WrongGroupError(err)
        g = self.params.group
        self._started = True
        xy_scalar_bytes = unhexlify(d["xy_scalar"].encode("ascii"))
        self.xy_scalar = g.bytes_to_scalar(xy_scalar_bytes)
        self.xy_elem = g.Base.scalarmult(self.xy_scalar)
        self.compute_outbound_message()
        return self

# add ECC""")], note="mismatch raises only for well-formed digests"),
    # ------------------------------------------------------------------ C10 persisted format
    B("c10-key-renamed-both-sides", ["C10"], [(SP, """             "xy_scalar": hexlify(g.scalar_to_bytes(self.xy_scalar)).decode("ascii"),
             }
        return d

    @classmethod
    def _deserialize_from_dict(klass, d, params):
        def _should_be_unused(count): raise NotImplementedError
        self = klass(password=unhexlify(d["password"].encode("ascii")),
                     idA=""", """             "scalar": hexlify(g.scalar_to_bytes(self.xy_scalar)).decode("ascii"),
             }
        return d

    @classmethod
    def _deserialize_from_dict(klass, d, params):
        def _should_be_unused(count): raise NotImplementedError
        self = klass(password=unhexlify(d["password"].encode("ascii")),
                     idA="""), (SP, """        xy_scalar_bytes = unhexlify(d["xy_scalar"].encode("ascii"))
        self.xy_scalar = g.bytes_to_scalar(xy_scalar_bytes)
        self.xy_elem = g.Base.scalarmult(self.xy_scalar)
        self.compute_outbound_message()
        return self


# applications""", """        xy_scalar_bytes = unhexlify(d["scalar"].encode("ascii"))
        self.xy_scalar = g.bytes_to_scalar(xy_scalar_bytes)
        self.xy_elem = g.Base.scalarmult(self.xy_scalar)
        self.compute_outbound_message()
        return self


# applications""")], silent=["C08"]),
    B("c10-password-base64", ["C10"], [(SP, """import os, json
""", """import os, json, base64
"""), (SP, """             "password": hexlify(self.pw).decode("ascii"),
             "xy_scalar": hexlify(g.scalar_to_bytes(self.xy_scalar)).decode("ascii"),
             }
        return d

    @classmethod
    def _deserialize_from_dict(klass, d, params):
        def _should_be_unused(count): raise NotImplementedError
        self = klass(password=unhexlify(d["password"].encode("ascii")),
                     idA=""", """             "password": base64.b64encode(self.pw).decode("ascii"),
             "xy_scalar": hexlify(g.scalar_to_bytes(self.xy_scalar)).decode("ascii"),
             }
        return d

    @classmethod
    def _deserialize_from_dict(klass, d, params):
        def _should_be_unused(count): raise NotImplementedError
        self = klass(password=base64.b64decode(d["password"].encode("ascii")),
                     idA=""")]),
    B("c10-fingerprint-recipe-order", ["C10"], [(SP, """        pieces = [g.arbitrary_element(b"").to_bytes(),
                  g.scalar_to_bytes(g.password_to_scalar(b"")),
                  self.params.S.to_bytes(),
                  ]""", """        pieces = [g.scalar_to_bytes(g.password_to_scalar(b"")),
                  g.arbitrary_element(b"").to_bytes(),
                  self.params.S.to_bytes(),
                  ]""")], silent=["C08", "C09"]),
    B("c10-scalar-stored-as-decimal", ["C10"], [(SP, """             "xy_scalar": hexlify(g.scalar_to_bytes(self.xy_scalar)).decode("ascii"),
             }
        return d

    @classmethod
    def _deserialize_from_dict(klass, d, params):
        if d["side"].""", """             "xy_scalar": str(self.xy_scalar),
             }
        return d

    @classmethod
    def _deserialize_from_dict(klass, d, params):
        if d["side"]."""), (SP, """        xy_scalar_bytes = unhexlify(d["xy_scalar"].encode("ascii"))
        self.xy_scalar = g.bytes_to_scalar(xy_scalar_bytes)
        self.xy_elem = g.Base.scalarmult(self.xy_scalar)
        self.compute_outbound_message()
        return self

# add ECC""", """        self.xy_scalar = int(d["xy_scalar"])
        self.xy_elem = g.Base.scalarmult(self.xy_scalar)
        self.compute_outbound_message()
        return self

# add ECC""")]),
    B("c10-extra-version-key-required", ["C10"], [(SP, """        d = json.loads(data.decode("ascii"))
        return klass._deserialize_from_dict(d, params)""", """        d = json.loads(data.decode("ascii"))
        if d["version"] != 1:
            raise ValueError("unknown state version")
        return klass._deserialize_from_dict(d, params)""")], tests="killed"),
    N("c10-dict-constructor", [(SP, """        d = {"hashed_params": self.hash_params(),
             "side": self.side.decode("ascii"),
             "idS": hexlify(self.idSymmetric).decode("ascii"),
             "password": hexlify(self.pw).decode("ascii"),
             "xy_scalar": hexlify(g.scalar_to_bytes(self.xy_scalar)).decode("ascii"),
             }""", """        d = dict(hashed_params=self.hash_params(),
                 side=self.side.decode("ascii"),
                 idS=hexlify(self.idSymmetric).decode("ascii"),
                 password=hexlify(self.pw).decode("ascii"),
                 xy_scalar=hexlify(g.scalar_to_bytes(self.xy_scalar)).decode("ascii"))""")]),
    N("c10-bytes-hex-method", [(SP, """             "password": hexlify(self.pw).decode("ascii"),
             "xy_scalar": hexlify(g.scalar_to_bytes(self.xy_scalar)).decode("ascii"),
             }
        return d

    @classmethod
    def _deserialize_from_dict(klass, d, params):
        def""", """             "password": self.pw.hex(),
             "xy_scalar": hexlify(g.scalar_to_bytes(self.xy_scalar)).decode("ascii"),
             }
        return d

    @classmethod
    def _deserialize_from_dict(klass, d, params):
        def""")]),
    # ------------------------------------------------------------------ C11 entropy discipline / unbiased sampling
    B("c11-rejection-replaced-by-modulo", ["C11"], [(UT, """        if candidate_int < maxval:
            return start + candidate_int""", """        return start + (candidate_int % maxval)""")]),
    B("c11-accepts-candidate-equal-maxval", ["C11"], [(UT, "        if candidate_int < maxval:", "        if candidate_int <= maxval:")], tests="killed"),
    B("c11-mask-not-applied", ["C11"], [(UT, "        candidate_bytes = mask_list_of_ints(top_byte_mask_int, enough_bytes)", "        candidate_bytes = enough_bytes")],
      note="still unbiased, but far more than two expected draws and not the specified sampler"),
    B("c11-mask-one-bit-short", ["C11"], [(UT, "        top_byte_mask_int = (0x1 << leftover_bits) - 1", "        top_byte_mask_int = (0x1 << (leftover_bits - 1)) - 1")],
      note="values >= 2^(bits-1) are never produced"),
    B("c11-draw-hoisted-out-of-loop", ["C11"], [(UT, """    while True:
        enough_bytes = random_list_of_ints(num_bytes, entropy_f)
        assert len(enough_bytes) == num_bytes""", """    enough_bytes = random_list_of_ints(num_bytes, entropy_f)
    while True:
        assert len(enough_bytes) == num_bytes""")], note="a rejected candidate loops forever / same bytes"),
    B("c11-retry-falls-back", ["C11"], [(UT, """        if candidate_int < maxval:
            return start + candidate_int""", """        if candidate_int < maxval:
            return start + candidate_int
        return start + (candidate_int >> 1)""")], note="second chance halves the rejected candidate: biased"),
    B("c11-ed-oversampling-40", ["C11"], [(ED, "    oversized = int(binascii.hexlify(entropy_f(32+32)), 16)", "    oversized = int(binascii.hexlify(entropy_f(32+8)), 16)")], tests="killed"),
    B("c11-int-random-scalar-small-range", ["C11"], [(GR, "        return unbiased_randrange(0, self.q, entropy_f)", "        return unbiased_randrange(0, min(self.q, 2**64), entropy_f)")]),
    B("c11-finish-consumes-entropy", ["C11"], [(SP, """        self.inbound_message = self._extract_message(inbound_side_and_message)
""", """        self.inbound_message = self._extract_message(inbound_side_and_message)
        self._nonce = self.entropy_f(16)
""")]),
    B("c11-ctor-consumes-entropy", ["C11"], [(SP, """        self._started = False
        self._finished = False
""", """        self._started = False
        self._finished = False
        self._seed = entropy_f(8)
""")], tests="killed"),
    B("c11-start-mixes-os-urandom", ["C11", "C16"], [(SP, "        self.xy_scalar = g.random_scalar(self.entropy_f)", "        self.xy_scalar = g.random_scalar(lambda n: bytes(a ^ b for a, b in zip(self.entropy_f(n), os.urandom(n))))")],
      note="scalar no longer a function of the supplied entropy"),
    B("c11-little-endian-candidate", ["C11"], [(UT, """    s = "".join(["%02x" % b for b in l])
    return int(s, 16)""", """    s = "".join(["%02x" % b for b in reversed(l)])
    return int(s, 16)""")], note="mask lands on the least significant byte: candidate range is wrong"),
    N("c11-listcomp-variable-renamed", [(UT, """    s = "".join(["%02x" % b for b in l])""", """    s = "".join(["%02x" % octet for octet in l])""")]),
    N("c11-acceptance-negated-form", [(UT, """        if candidate_int < maxval:
            return start + candidate_int""", """        if candidate_int >= maxval:
            continue
        return start + candidate_int""")]),
    # ------------------------------------------------------------------ C15 codecs
    B("c15-overflow-guard-loosened", ["C15"], [(UT, "    if num > maxval:\n        raise ValueError", "    if num > maxval + 1:\n        raise ValueError")]),
    B("c15-overflow-guard-tightened", ["C15"], [(UT, "    if num > maxval:\n        raise ValueError", "    if num >= maxval:\n        raise ValueError")]),
    B("c15-ed-scalar-width-62", ["C15"], [(ED, """    assert 0 <= y < 2**256
    return binascii.unhexlify(("%064x" % y).encode("ascii"))[::-1]""", """    assert 0 <= y < 2**256
    return binascii.unhexlify(("%062x" % y).encode("ascii"))[::-1]""")], tests="killed"),
    B("c15-int-scalar-decoder-little-endian", ["C15"], [(GR, """        assert len(b) == self.scalar_size_bytes
        i = bytes_to_number(b)""", """        assert len(b) == self.scalar_size_bytes
        i = bytes_to_number(b[::-1])""")], tests="killed"),
    B("c15-ed-encoder-sign-on-bit-254", ["C15"], [(ED, """    if x & 1:
        y += 1<<255""", """    if x & 1:
        y += 1<<254""")], tests="killed"),
    B("c15-ed-decoder-sign-uses-y-parity", ["C15"], [(ED, "    if bool(x & 1) != bool(unclamped & (1<<255)):", "    if bool(y & 1) != bool(unclamped & (1<<255)):")], tests="killed"),
    B("c15-size-bytes-floor", ["C15"], [(UT, "    return int(math.ceil(size_bits(maxval) / 8))", "    return int(size_bits(maxval) // 8) or 1")], tests="killed"),
    B("c15-int-element-width-from-q", ["C15"], [(GR, "        return number_to_bytes(e._e, self.p)", "        return number_to_bytes(e._e % self.p, self.p - 1 if self.p > 2**2000 else self.p)")],
      note="only the 2048/3072-bit groups are affected"),
    N("c15-width-via-floor-div", [(UT, "    return int(math.ceil(size_bits(maxval) / 8))", "    return (size_bits(maxval) + 7) // 8")]),
    N("c15-int-to-bytes-method", [(UT, """    fmt_str = "%0" + str(2*num_bytes) + "x"
    s_hex = fmt_str % num
    s = binascii.unhexlify(s_hex.encode("ascii"))""", """    s = num.to_bytes(num_bytes, "big")""")]),
    N("c15-scalar-decoder-assert-removed", [(ED, "    assert len(s) == 32, len(s)\n", "")], props=["C15"], note="DESIGN 4.15: scalar-decoder asserts are not obligations"),
    # ------------------------------------------------------------------ C14 derivations
    B("c14-password-stripped", ["C02", "C03"], [(SP, "        self.pw_scalar = params.group.password_to_scalar(password)", "        self.pw_scalar = params.group.password_to_scalar(password.strip())")],
      silent=["C08"], note="passwords differing only in surrounding whitespace collide"),
    B("c14-long-password-prehashed", ["C14", "C03"], [(GR, """    oversized = expand_password(pw, scalar_size_bytes+16)""", """    if len(pw) > 64:
        pw = hashlib.sha256(pw).digest()
    oversized = expand_password(pw, scalar_size_bytes+16)""")], note="only passwords longer than one hash block are affected"),
    B("c14-hkdf-length-plus-8", ["C14"], [(GR, "    oversized = expand_password(pw, scalar_size_bytes+16)", "    oversized = expand_password(pw, scalar_size_bytes+8)")], tests="killed"),
    B("c14-info-string-changed", ["C14"], [(GR, '        info=b"SPAKE2 arbitrary element"', '        info=b"SPAKE2 arbitrary Element"')], tests="killed"),
    B("c14-salt-nonempty", ["C14"], [(GR, '''        salt=b"",
        info=b"SPAKE2 pw"
''', '''        salt=b"\\0",
        info=b"SPAKE2 pw"
''')], tests="killed"),
    B("c14-int-element-mod-q", ["C14"], [(GR, "        h = bytes_to_number(processed_seed) % self.p", "        h = bytes_to_number(processed_seed) % self.q")], tests="killed"),
    B("c14-ed-cofactor-4", ["C14"], [(ED, "        P8 = P.scalarmult(8)", "        P8 = P.scalarmult(4)")], tests="killed"),
    B("c14-ed-torsion-assert-removed", ["C14"], [(ED, "        assert is_extended_zero(P8.scalarmult(L).XYTZ)\n", "")]),
    B("c14-ed-identity-skip-removed", ["C14"], [(ED, """        if is_extended_zero(P8.XYTZ):
            continue
""", "")]),
    B("c14-symmetric-seed-perturbed-integer", ["C14"], [(GR, """        processed_seed = expand_arbitrary_element_seed(seed,
                                                       self.element_size_bytes)""", """        if seed == b"symmetric":
            seed = b"Symmetric"
        processed_seed = expand_arbitrary_element_seed(seed,
                                                       self.element_size_bytes)""")], note="no vector pins S of the integer groups"),
    B("c14-ed-start-at-1", ["C14"], [(ED, "    for plus in itertools.count(0):", "    for plus in itertools.count(1):")], tests="killed"),
    B("c14-ed-x-sign-from-seed", ["C14"], [(ED, "        Pa = [x,y_plus] # no attempt", "        if hseed[0] & 1: x = Q-x\n        Pa = [x,y_plus] # no attempt")], tests="killed"),
    B("c14-int-cofactor-guard-removed", ["C14"], [(GR, "        assert r * self.q == self.p - 1\n", "")]),
    N("c14-hkdf-positional-module-alias", [(GR, """def expand_password(data, num_bytes):
    return hkdf.HKDF(""", """def expand_password(data, num_bytes):
    H = hkdf.HKDF
    return H(""")]),
    N("c14-ed-length-constant-folded", [(ED, "    hseed = expand_arbitrary_element_seed(seed, int((256/8)+16))", "    hseed = expand_arbitrary_element_seed(seed, 48)")]),
    # ------------------------------------------------------------------ C01 agreement
    B("c01-B-unblinding-hook-wrong", ["C01", "C03"], [(SP, """    side = SideB
    def my_blinding(self): return self.params.N
    def my_unblinding(self): return self.params.M""", """    side = SideB
    def my_blinding(self): return self.params.N
    def my_unblinding(self): return self.params.N""")], tests="killed"),
    B("c01-unblind-sign-lost-symmetric", ["C01"], [(SP, "        pw_unblinding = self.my_unblinding().scalarmult(-self.pw_scalar)",
                                                   "        pw_unblinding = self.my_unblinding().scalarmult(self.pw_scalar if self.side == SideSymmetric else -self.pw_scalar)")], tests="killed"),
    B("c01-shared-element-uses-pw-scalar", ["C01", "C03"], [(SP, "        K_elem = inbound_elem.add(pw_unblinding).scalarmult(self.xy_scalar)",
                                                            "        K_elem = inbound_elem.add(pw_unblinding).scalarmult(self.xy_scalar + (self.pw_scalar >> 250))")],
      note="differs only for password scalars >= 2^250 (never on the 160-bit group, rarely on Ed25519)"),
    B("c01-restore-recomputes-with-negated-scalar", ["C01", "C08"], [(SP, """        self.xy_scalar = g.bytes_to_scalar(xy_scalar_bytes)
        self.xy_elem = g.Base.scalarmult(self.xy_scalar)
        self.compute_outbound_message()
        return self

# add ECC""", """        self.xy_scalar = g.bytes_to_scalar(xy_scalar_bytes)
        self.xy_elem = g.Base.scalarmult(-self.xy_scalar)
        self.compute_outbound_message()
        return self

# add ECC""")], tests="killed"),
    N("c01-K-distributed-form", [(SP, "        K_elem = inbound_elem.add(pw_unblinding).scalarmult(self.xy_scalar)",
                                  "        K_elem = inbound_elem.scalarmult(self.xy_scalar).add(self.my_unblinding().scalarmult(-self.pw_scalar * self.xy_scalar))")],
      props=["C01", "C03", "C05", "C06", "C02", "C17"], note="x*In + (-w*x)*U"),
    N("c01-hooks-moved-to-base-as-attributes", [(SP, """    def my_blinding(self): return self.params.S
    def my_unblinding(self): return self.params.S
""", """    def my_blinding(self):
        p = self.params
        return p.S
    def my_unblinding(self):
        return self.my_blinding()
""")]),
    # ------------------------------------------------------------------ C04 message hides the password
    B("c04-scalar-truncated-32bit", ["C04"], [(SP, "        self.xy_scalar = g.random_scalar(self.entropy_f)", "        self.xy_scalar = g.random_scalar(self.entropy_f) % (2**32)")],
      note="keys still agree; messages cover a tiny part of the subgroup"),
    B("c04-scalar-xor-password", ["C04"], [(SP, "        self.xy_scalar = g.random_scalar(self.entropy_f)", "        self.xy_scalar = g.random_scalar(self.entropy_f) ^ (self.pw_scalar & 0xff)")]),
    B("c04-id-length-mixed-into-blinding", ["C04", "C03", "C01"], [(SP, "        pw_blinding = self.my_blinding().scalarmult(self.pw_scalar)",
                                                            "        pw_blinding = self.my_blinding().scalarmult(self.pw_scalar + len(getattr(self, 'idA', b'')))")],
      tests="killed", note="the message depends on the identity; unblinding does not compensate, so keys differ for non-empty idA"),
    B("c04-base-term-dropped", ["C04", "C01", "C03"], [(SP, "        message_elem = self.xy_elem.add(pw_blinding)", "        message_elem = pw_blinding")], tests="killed"),
    B("c04-blinding-uses-base", ["C04", "C03"], [(SP, "    def my_blinding(self): return self.params.S\n    def my_unblinding(self): return self.params.S",
                                                    "    def my_blinding(self): return self.params.group.Base\n    def my_unblinding(self): return self.params.group.Base")], tests="killed",
      note="blinding with the generator: x + w is recoverable"),
    B("c04-persisted-scalar-differs", ["C04", "C08"], [(SP, """             "xy_scalar": hexlify(g.scalar_to_bytes(self.xy_scalar)).decode("ascii"),
             }
        return d

    @classmethod
    def _deserialize_from_dict(klass, d, params):
        def""", """             "xy_scalar": hexlify(g.scalar_to_bytes(self.xy_scalar ^ 1)).decode("ascii"),
             }
        return d

    @classmethod
    def _deserialize_from_dict(klass, d, params):
        def""")], tests="killed"),
    # ------------------------------------------------------------------ C02 binding
    B("c02-password-lowercased-for-scalar", ["C02", "C03"], [(SP, "        self.pw_scalar = params.group.password_to_scalar(password)", "        self.pw_scalar = params.group.password_to_scalar(password.lower())")],
      note="blinding scalar is case-insensitive while the transcript is not"),
    B("c02-whole-message-hashed", ["C02", "C17"], [(SP, "        self.inbound_message = self._extract_message(inbound_side_and_message)\n",
                                                    "        self.inbound_message = self._extract_message(inbound_side_and_message)\n        self._raw_in = inbound_side_and_message\n"),
                                                   (SP, "    def Y_msg(self): return self.inbound_message\n", "    def Y_msg(self): return self._raw_in\n")], tests="killed"),
    B("c02-key-path-skips-ids-for-symmetric-like", ["C02", "C17"], [(SP, """        return finalize_SPAKE2(self.idA, self.idB,""", """        if self.idA == self.idB:
            return finalize_SPAKE2(b"", b"",
                                   self.X_msg(), self.Y_msg(), K_bytes, self.pw)
        return finalize_SPAKE2(self.idA, self.idB,""")], note="equal identities are not bound (('a','a') and ('b','b') give the same key)"),
    N("c02-transcript-uses-reencoded-element", [(SP, "    def Y_msg(self): return self.inbound_message\n", "    def Y_msg(self): return self.params.group.bytes_to_element(self.inbound_message).to_bytes()\n")],
      props=["C02", "C05", "C06"], note="re-encoding equals the raw payload under canonical decoding"),
    # ------------------------------------------------------------------ C03 wire conformance
    B("c03-side-byte-lowercase", ["C03", "C06"], [(SP, 'SideA = b"A"', 'SideA = b"a"')], tests="killed"),
    B("c03-element-size-off", ["C03", "C15"], [("ed25519_group.py", "Ed25519Group.element_size_bytes = 32", "Ed25519Group.element_size_bytes = 33")]),
    # ------------------------------------------------------------------ the square-root helper (C15 K5-root, C14 H6)
    B("c15-xrecover-wrong-exponent", ["C15", "C14"], [(ED, "    x = pow(xx,(Q+3)//8,Q)\n    if (x*x - xx) % Q != 0: x = (x*I) % Q", "    x = pow(xx,(Q+11)//8,Q)\n    if (x*x - xx) % Q != 0: x = (x*I) % Q")], tests="killed"),
    N("c15-xrecover-exponent-same-value", [(ED, "    x = pow(xx,(Q+3)//8,Q)\n    if (x*x - xx) % Q != 0: x = (x*I) % Q", "    x = pow(xx,(Q+5)//8,Q)\n    if (x*x - xx) % Q != 0: x = (x*I) % Q")], note="(Q+5)//8 == (Q+3)//8 for Q = 2^255-19"),
    B("c15-xrecover-odd-root", ["C15", "C14"], [(ED, "    if x % 2 != 0: x = Q-x\n    return x\n\nBy", "    if x % 2 == 0 and x > Q//2: x = Q-x\n    return x\n\nBy")], tests="killed",
      note="returns the odd root for large even roots"),
    B("c15-xrecover-skips-i-branch-for-small", ["C15", "C14"], [(ED, "    if (x*x - xx) % Q != 0: x = (x*I) % Q", "    if (x*x - xx) % Q != 0 and xx > 2**200: x = (x*I) % Q")],
      note="only y whose xx is below 2^200 are affected (probability 2^-55): valid encodings of such points are rejected and M/N/S derivation could change"),
    N("c15-xrecover-reordered", [(ED, "    xx = (y*y-1) * inv(d*y*y+1)", "    den = d*y*y+1\n    xx = (y*y-1) * inv(den)")]),
    # ------------------------------------------------------------------ lessons from the independent seeds (rounds 1-3)
    B("seed-c11-discard-all-zero-draw", ["C11", "C04"], [(UT, """        assert len(enough_bytes) == num_bytes
""", """        assert len(enough_bytes) == num_bytes
        if not any(enough_bytes):
            continue
""")], silent=["C16"], note="scalar 0 becomes unreachable on groups whose order has a bit length divisible by 8"),
    B("seed-c15-ed-scalar-decoder-refuses-top-range", ["C15", "C08"], [("ed25519_group.py", """    def bytes_to_scalar(self, b):
        return ed25519_basic.bytes_to_scalar(b)""", """    def bytes_to_scalar(self, b):
        if b[-1] & 0xf0:
            raise ValueError("scalar is not reduced")
        return ed25519_basic.bytes_to_scalar(b)""")], note="legal scalars in [2^252, L) can be saved but not restored"),
    B("seed-c09-fingerprint-cached-on-params", ["C09", "C16"], [("params.py", """        self.S_str = S
""", """        self.S_str = S
        self._fp = None
"""), (SP, """        g = self.params.group
        pieces = [g.arbitrary_element(b"").to_bytes(),
                  g.scalar_to_bytes(g.password_to_scalar(b"")),
                  self.params.M.to_bytes(),
                  self.params.N.to_bytes(),
                  ]
        return sha256(b"".join(pieces)).hexdigest()""", """        if self.params._fp is not None:
            return self.params._fp
        g = self.params.group
        pieces = [g.arbitrary_element(b"").to_bytes(),
                  g.scalar_to_bytes(g.password_to_scalar(b"")),
                  self.params.M.to_bytes(),
                  self.params.N.to_bytes(),
                  ]
        self.params._fp = sha256(b"".join(pieces)).hexdigest()
        return self.params._fp""")], note="the cached value is per parameter object, not per role: whichever role runs first decides what the fingerprint covers"),
    B("seed-c07-decorator-undoes-flag", ["C07"], [(SP, """class _SPAKE2_Base:
    "This class manages""", """def _undo_flag_on_error(flag):
    def decorate(f):
        def wrapper(self, *args, **kwargs):
            try:
                return f(self, *args, **kwargs)
            except Exception:
                setattr(self, flag, False)
                raise
        return wrapper
    return decorate

class _SPAKE2_Base:
    "This class manages"""), (SP, """    def start(self):
        if self._started:""", """    @_undo_flag_on_error("_started")
    def start(self):
        if self._started:""")], silent=["C16"], note="the refusal of a second start() itself clears the flag: history start, start, start"),
    B("seed-c01-element-add-skips-identity-detection", ["C01", "C13"], [(ED, """        sum_element = ElementOfUnknownGroup.add(self, other)
        if sum_element is Zero:
            return sum_element
        if isinstance(other, (Element, _ZeroElement)):""", """        if isinstance(other, Element):
            return Element(add_elements(self.XYTZ, other.XYTZ))
        sum_element = ElementOfUnknownGroup.add(self, other)
        if sum_element is Zero:
            return sum_element
        if isinstance(other, (Element, _ZeroElement)):""")], note="P + (-P) is typed Element; the fast ladder then runs on the identity (peer scalar 0)"),
    N("seed-neutral-decorator-passthrough", [(SP, """class _SPAKE2_Base:
    "This class manages""", """def _traced(f):
    def wrapper(self, *args, **kwargs):
        return f(self, *args, **kwargs)
    return wrapper

class _SPAKE2_Base:
    "This class manages"""), (SP, """    def finish(self, inbound_side_and_message):
        if self._finished:""", """    @_traced
    def finish(self, inbound_side_and_message):
        if self._finished:""")], note="a pass-through decorator changes nothing"),
    # ------------------------------------------------------------------ totality ("for every input")
    B("total-empty-password-refused", ["C01"], [(SP, """        assert isinstance(password, bytes)
        self.pw = password""", """        assert isinstance(password, bytes)
        if not password:
            raise ValueError("empty password")
        self.pw = password""")], tests="survive", note="the empty password is a legal input of C01's quantifier"),
    B("total-number-to-bytes-refuses-zero", ["C15"], [(UT, """    if num > maxval:
        raise ValueError
    num_bytes = size_bytes(maxval)""", """    if num > maxval or num == 0:
        raise ValueError
    num_bytes = size_bytes(maxval)""")], tests="killed"),
    B("total-int-scalar-encoder-refuses-large", ["C15", "C08"], [(GR, """        assert 0 <= 0 < self.q
        return number_to_bytes(i, self.q)""", """        assert i < self.q // 2 + self.q // 4 + self.q // 8 + self.q // 16 + self.q // 32 + self.q // 64
        return number_to_bytes(i, self.q)""")], note="the top 1/64 of the scalars cannot be serialised"),
    B("total-password-to-scalar-refuses-long", ["C14"], [(GR, """    assert isinstance(pw, bytes)
    # the oversized hash""", """    assert isinstance(pw, bytes)
    assert len(pw) < 1024
    # the oversized hash""")]),
    B("total-finish-refuses-long-ids", ["C01"], [(SP, """        K_bytes = K_elem.to_bytes()
        key = self._finalize(K_bytes)""", """        K_bytes = K_elem.to_bytes()
        if len(self.pw) > 255:
            raise ValueError("password too long for transcript")
        key = self._finalize(K_bytes)""")]),
    # ------------------------------------------------------------------ idioms: loops over known lists, incremental hashing
    N("idiom-incremental-sha256-loop", [(SP, """    transcript = b"".join([sha256(pw).digest(),
                           sha256(idA).digest(), sha256(idB).digest(),
                           X_msg, Y_msg, K_bytes])
    key = sha256(transcript).digest()
    return key
""", """    h = sha256()
    for piece in (sha256(pw).digest(), sha256(idA).digest(), sha256(idB).digest(), X_msg, Y_msg, K_bytes):
        h.update(piece)
    return h.digest()
""")], note="field-by-field update in the same order"),
    N("idiom-fingerprint-built-in-loop", [(SP, """        pieces = [g.arbitrary_element(b"").to_bytes(),
                  g.scalar_to_bytes(g.password_to_scalar(b"")),
                  self.params.S.to_bytes(),
                  ]
        return sha256(b"".join(pieces)).hexdigest()""", """        pieces = [g.arbitrary_element(b"").to_bytes(),
                  g.scalar_to_bytes(g.password_to_scalar(b""))]
        for elem in (self.params.S,):
            pieces.append(elem.to_bytes())
        return sha256(b"".join(pieces)).hexdigest()""")]),
    B("idiom-incremental-sha256-wrong-order", ["C17", "C02", "C03", "C01"], [(SP, """    transcript = b"".join([sha256(pw).digest(),
                           sha256(idSymmetric).digest(),
                           first_msg, second_msg, K_bytes])
    key = sha256(transcript).digest()
    return key""", """    h = sha256()
    for piece in (sha256(pw).digest(), sha256(idSymmetric).digest(), msg1, msg2, K_bytes):
        h.update(piece)
    return h.digest()""")], tests="killed", note="messages hashed in call order instead of sorted order"),
    B("total-int-decoder-refuses-high-byte", ["C15", "C01"], [(GR, """        i = bytes_to_number(b)
        if i <= 0 or i >= self.p:   # Zp* excludes 0""", """        i = bytes_to_number(b)
        if b[0] == 0xff:
            raise ValueError("suspicious element")
        if i <= 0 or i >= self.p:   # Zp* excludes 0""")], silent=["C05"], note="valid elements whose top byte is 0xff are refused: strictness holds, agreement does not"),
    B("total-ed-decoder-refuses-small-y", ["C15", "C01"], [(ED, """    if y >= Q:
        raise ValueError("non-canonical point encoding: y >= Q")""", """    if y >= Q or y < 2**128:
        raise ValueError("non-canonical point encoding: y >= Q")""")], silent=["C05"]),
    N("idiom-import-time-unknown-condition", [(GR, """    assert isinstance(pw, bytes)
    # the oversized hash""", """    assert isinstance(pw, bytes)
    import sys
    if sys.flags.optimize > 5:
        scalar_size_bytes = scalar_size_bytes + 0
    # the oversized hash""")], note="a condition on an unknown external value evaluated during import: both branches leave the same state"),
    # ------------------------------------------------------------------ C16 isolation
    B("c16-blinding-cache-on-params", ["C16"], [(SP, """        pw_blinding = self.my_blinding().scalarmult(self.pw_scalar)
""", """        cache = self.params.__dict__.setdefault("_blind_cache", {})
        if self.side not in cache:
            cache[self.side] = self.my_blinding().scalarmult(self.pw_scalar)
        pw_blinding = cache[self.side]
""")]),
    B("c16-last-inbound-on-class", ["C16"], [(SP, """        self.inbound_message = self._extract_message(inbound_side_and_message)
""", """        self.inbound_message = self._extract_message(inbound_side_and_message)
        _SPAKE2_Base.last_inbound = self.inbound_message
""")]),
    B("c16-module-memo-by-password", ["C16"], [(SP, """SideA = b"A"
""", """SideA = b"A"
_PW_MEMO = {}
"""), (SP, """        self.pw_scalar = params.group.password_to_scalar(password)
""", """        if password not in _PW_MEMO:
            _PW_MEMO[password] = params.group.password_to_scalar(password)
        self.pw_scalar = _PW_MEMO[password]
""")], note="memo keyed by password only: wrong scalar for another group"),
    B("c16-time-fallback-entropy", ["C16", "C11"], [(SP, """import os, json
""", """import os, json, time
"""), (SP, """        self.xy_scalar = g.random_scalar(self.entropy_f)
""", """        f = self.entropy_f if self.entropy_f is not None else (lambda n: bytes([int(time.time()) & 255]) * n)
        self.xy_scalar = g.random_scalar(f)
""")]),
    B("c16-zero-mutated", ["C16"], [(ED, """        if is_extended_zero(sum_XYTZ):
            return Zero
""", """        if is_extended_zero(sum_XYTZ):
            Zero.XYTZ = sum_XYTZ
            return Zero
""")]),
    B("c16-element-memo-field", ["C16"], [(ED, """    def to_bytes(self):
        return encodepoint(xform_extended_to_affine(self.XYTZ))
""", """    def to_bytes(self):
        self._enc = encodepoint(xform_extended_to_affine(self.XYTZ))
        return self._enc
""")], note="W7: shared element written after construction"),
    B("c16-global-counter", ["C16"], [(GR, """def expand_password(data, num_bytes):
""", """_CALLS = 0
def expand_password(data, num_bytes):
    global _CALLS
    _CALLS += 1
""")]),
    N("c16-mutate-list-returned-by-helper", [(UT, """        candidate_bytes = mask_list_of_ints(top_byte_mask_int, enough_bytes)""", """        enough_bytes[0] = enough_bytes[0] & top_byte_mask_int
        candidate_bytes = enough_bytes""")], props=["C16", "C11"], note="the helper returns a freshly built list; masking it in place is local"),
    N("c16-local-list-build", [(SP, """        pieces = [g.arbitrary_element(b"").to_bytes(),
                  g.scalar_to_bytes(g.password_to_scalar(b"")),
                  self.params.M.to_bytes(),
                  self.params.N.to_bytes(),
                  ]
""", """        pieces = []
        pieces.append(g.arbitrary_element(b"").to_bytes())
        pieces.append(g.scalar_to_bytes(g.password_to_scalar(b"")))
        pieces.append(self.params.M.to_bytes())
        pieces.append(self.params.N.to_bytes())
""")], note="mutating a locally allocated list"),
    N("c16-dict-item-assignment", [(SP, """        d = {"hashed_params": self.hash_params(),
             "side": self.side.decode("ascii"),
             "idS": hexlify(self.idSymmetric).decode("ascii"),
             "password": hexlify(self.pw).decode("ascii"),
             "xy_scalar": hexlify(g.scalar_to_bytes(self.xy_scalar)).decode("ascii"),
             }
""", """        d = {}
        d["hashed_params"] = self.hash_params()
        d["side"] = self.side.decode("ascii")
        d["idS"] = hexlify(self.idSymmetric).decode("ascii")
        d["password"] = hexlify(self.pw).decode("ascii")
        d["xy_scalar"] = hexlify(g.scalar_to_bytes(self.xy_scalar)).decode("ascii")
""")]),
    N("c16-incremental-hash", [(SP, """    transcript = b"".join([sha256(pw).digest(),
                           sha256(idA).digest(), sha256(idB).digest(),
                           X_msg, Y_msg, K_bytes])
    key = sha256(transcript).digest()
    return key
""", """    transcript = (sha256(pw).digest() + sha256(idA).digest() + sha256(idB).digest()
                  + X_msg + Y_msg + K_bytes)
    key = sha256(transcript).digest()
    return key
""")], note="+ instead of join"),

    # ---- defects seeded into behaviour-preserving refactorings (seeded_neutral/): the generalised
    # rules that accept the refactored code must still reject a defect written in its idiom
    B("n02-handwritten-sort-one-branch-unsorted", ["C17", "C01"], [(SP, "        first_msg, second_msg = msg2, msg1\n", "        first_msg, second_msg = msg1, msg2\n")],
      base="seeded_neutral/N02", tests="fail", note="hand-written sort that does not swap: the two ends hash the messages in different orders"),
    B("n04-while-candidate-step-2", ["C14"], [(ED, "        y = (y + 1) % Q\n", "        y = (y + 2) % Q\n")],
      base="seeded_neutral/N04", tests="fail", note="try-and-increment skips every other candidate"),
    B("n04-zero-scalar-reaches-fast-ladder", ["C12", "C13"], [(ED, "        return Zero if s == 0 else self._scalarmult_nonzero(s)\n", "        return self._scalarmult_nonzero(s)\n")],
      base="seeded_neutral/N04", note="private fast-path helper reached with s = 0"),
    B("n05-safe-ladder-given-dedicated-addition", ["C12", "C05"], [(ED, "    return _scalarmult_ladder(pt, n, add_elements)\n", "    return _scalarmult_ladder(pt, n, _add_elements_nonunfied)\n")],
      base="seeded_neutral/N05", note="higher-order ladder instantiated with the non-unified addition for arbitrary points"),
    B("n05-precomputed-2d-wrong", ["C12"], [(ED, "_TWO_D = (2*d) % Q", "_TWO_D = d % Q")],
      base="seeded_neutral/N05", tests="fail", note="precomputed curve constant is d, not 2d"),
    B("n05-shared-tail-swaps-Z-T", ["C12"], [(ED, "            (F*G) % Q, # Z3\n            (E*H) % Q) # T3\n", "            (E*H) % Q, # Z3\n            (F*G) % Q) # T3\n")],
      base="seeded_neutral/N05", tests="fail", note="the shared output helper of the three formulas returns Z and T swapped"),
    B("n05-root-parity-flipped", ["C15", "C14"], [(ED, "    if x & 1: x = Q-x\n", "    if not x & 1: x = Q-x\n")],
      base="seeded_neutral/N05", tests="fail", note="xrecover returns the odd root"),
    B("n06-mask-one-bit-short", ["C11", "C04"], [(UT, "    top_byte_mask_int = 0xff >> unused_bits\n", "    top_byte_mask_int = 0x7f >> unused_bits\n")],
      base="seeded_neutral/N06", note="shift-form mask keeps one bit too few: the upper half of the range is never drawn"),
    B("n08-chained-range-check-loses-upper-bound", ["C05"], [(GR, "        if not 0 < i < self.p:   # Zp* excludes 0\n", "        if not 0 < i:   # Zp* excludes 0\n")],
      base="seeded_neutral/N08", note="non-canonical residues i >= p accepted"),
    B("n08-ctor-order-check-inert", ["C18"], [(GR, "        if pow(g, self.q, self.p) != 1:\n            raise AssertionError\n", "        if pow(g, self.q, self.p) != 1:\n            pass\n")],
      base="seeded_neutral/N08", note="if/raise form of the generator-order assertion made inert"),
    B("n01-transcript-x-y-keywords-swapped", ["C17", "C03"], [(SP, "X_msg=self.X_msg(), Y_msg=self.Y_msg(),", "X_msg=self.Y_msg(), Y_msg=self.X_msg(),")],
      base="seeded_neutral/N01", tests="fail", note="keyword call binds X and Y to the wrong slots (both ends agree, published transcript differs)"),
    B("n01-restore-forgets-started-flag", ["C08"], [(SP, "        self._started = True\n        xy_scalar_bytes = _from_hex", "        xy_scalar_bytes = _from_hex")],
      base="seeded_neutral/N01", tests="fail", note="shared restore tail no longer marks the instance as started"),
    B("n10-phase-bit-overwritten", ["C07"], [(SP, "        self._phase |= phase_bit\n", "        self._phase = phase_bit\n")],
      base="seeded_neutral/N10", note="bit-set state: finish() clears the started bit, so start() is accepted again after finish()"),
    B("n11-divmod-remainder-unchecked", ["C14"], [(GR, "        assert leftover == 0\n", "        assert leftover >= 0\n")],
      base="seeded_neutral/N11", note="divmod form of the cofactor no longer checks that q divides p-1"),
    B("n12-sign-bit-read-from-bit-254", ["C15", "C05"], [(ED, "    x_is_odd = (encoded >> 255) & 1", "    x_is_odd = (encoded >> 254) & 1")],
      base="seeded_neutral/N12", tests="fail", note="shift-form sign extraction reads the wrong bit"),
    B("n13-inplace-mask-on-last-byte", ["C11", "C04"], [(UT, "    octets[0] &= top_byte_mask_int\n", "    octets[-1] &= top_byte_mask_int\n")],
      base="seeded_neutral/N13", note="in-place mask applied to the least significant byte of the draw"),
    B("n13-top-byte-bits-or-7", ["C11", "C04"], [(UT, "    top_byte_bits = (num_bits % 8) or 8\n", "    top_byte_bits = (num_bits % 8) or 7\n")],
      base="seeded_neutral/N13", note="`or`-form mask width wrong when bits is a multiple of 8"),
    B("n16-generator-skips-second-identity", ["C02", "C17"], [(SP, "    for identity in identities:\n", "    for identity in identities[:1]:\n")],
      base="seeded_neutral/N16", tests="fail", note="generator-built transcript omits idB"),
    # ---- modern-idiom probes (neutral): constructs a maintainer might introduce

 N("p-fstring-messages", [(SP, '''                raise OffSides("I'm A, but I got a message from A (not B).")
            else:
                raise OffSides("I'm B, but I got a message from B (not A).")''', '''                me, peer = "A", "B"
            else:
                me, peer = "B", "A"
            raise OffSides(f"I'm {me}, but I got a message from {me} (not {peer}).")''')]),
 N("p-starred-unpack", [(SP, '''        other_side = inbound_side_and_message[0:1]
        inbound_message = inbound_side_and_message[1:]

        if other_side not in (SideA, SideB):''', '''        other_side, inbound_message = inbound_side_and_message[:1], inbound_side_and_message[1:]

        if not any(other_side == s for s in (SideA, SideB)):''')]),
 N("p-dataclass-like-params", [("params.py", '''class _Params:
    def __init__(self, group, M=b"M", N=b"N", S=b"symmetric"):
        self.group = group
        self.M = group.arbitrary_element(seed=M)
        self.N = group.arbitrary_element(seed=N)
        self.S = group.arbitrary_element(seed=S)
        self.M_str = M
        self.N_str = N
        self.S_str = S''', '''class _Params:
    __slots__ = ("group", "M", "N", "S", "M_str", "N_str", "S_str")

    def __init__(self, group, M=b"M", N=b"N", S=b"symmetric"):
        self.group = group
        for name, seed in zip(("M", "N", "S"), (M, N, S)):
            setattr(self, name, group.arbitrary_element(seed=seed))
            setattr(self, name + "_str", seed)''')]),
 N("p-try-finally-finish", [(SP, '''        self._finished = True

        self.inbound_message = self._extract_message(inbound_side_and_message)''', '''        try:
            pass
        finally:
            self._finished = True

        self.inbound_message = self._extract_message(inbound_side_and_message)''')]),
 N("p-enumerate-zip-hash-params", [(SP, '''        pieces = [g.arbitrary_element(b"").to_bytes(),
                  g.scalar_to_bytes(g.password_to_scalar(b"")),
                  self.params.M.to_bytes(),
                  self.params.N.to_bytes(),
                  ]
        return sha256(b"".join(pieces)).hexdigest()''', '''        pieces = [g.arbitrary_element(b"").to_bytes(),
                  g.scalar_to_bytes(g.password_to_scalar(b""))]
        pieces += map(lambda e: e.to_bytes(), (self.params.M, self.params.N))
        h = sha256()
        for _i, piece in enumerate(pieces):
            h.update(piece)
        return h.hexdigest()''')]),
 N("p-walrus-partial", [(GR, '''        i = bytes_to_number(b)
        if i <= 0 or i >= self.p:   # Zp* excludes 0''', '''        if (i := bytes_to_number(b)) <= 0 or i >= self.p:   # Zp* excludes 0''')]),
 N("p-property-sizes", [(GR, '''        self.element_size_bytes = size_bytes(self.p)
''', '''        self._element_size_bytes = size_bytes(self.p)
'''), (GR, '''    def order(self):
        return self.q
''', '''    def order(self):
        return self.q

    @property
    def element_size_bytes(self):
        return self._element_size_bytes
''')]),
 N("p-dict-dispatch-blinding", [(SP, '''class SPAKE2_A(_SPAKE2_Asymmetric):
    side = SideA
    def my_blinding(self): return self.params.M
    def my_unblinding(self): return self.params.N''', '''class SPAKE2_A(_SPAKE2_Asymmetric):
    side = SideA
    def my_blinding(self): return {"A": self.params.M, "B": self.params.N}["A"]
    def my_unblinding(self): return {"A": self.params.M, "B": self.params.N}.get("B")''')]),
 N("p-all-isinstance-tuple", [(SP, '''        assert isinstance(password, bytes)
        self.pw = password''', '''        assert all(isinstance(x, (bytes,)) for x in (password,))
        self.pw = password''')]),
 N("p-nested-helper-closure", [(UT, '''def number_to_bytes(num, maxval):
    if num > maxval:
        raise ValueError
''', '''def number_to_bytes(num, maxval):
    def too_big(n, limit=maxval):
        return n > limit
    if too_big(num):
        raise ValueError
''')]),
 N("p-ifexp-chain-symmetric-sides", [(SP, '''        if other_side == SideA:
            raise OffSides("I'm Symmetric, but I got a message from A")
        if other_side == SideB:
            raise OffSides("I'm Symmetric, but I got a message from B")
        assert other_side == SideSymmetric''', '''        who = "A" if other_side == SideA else ("B" if other_side == SideB else None)
        if who is not None:
            raise OffSides("I'm Symmetric, but I got a message from %s" % who)
        assert other_side == SideSymmetric''')]),
 N("p-super-init", [(SP, '''        _SPAKE2_Base.__init__(self, password,
                              params=params, entropy_f=entropy_f)
        self.idSymmetric''', '''        super().__init__(password, params=params, entropy_f=entropy_f)
        self.idSymmetric''')]),
 N("p-global-tuple-consts", [(SP, '''SideA = b"A"
SideB = b"B"
SideSymmetric = b"S"''', '''SideA, SideB, SideSymmetric = (bytes([c]) for c in b"ABS")''')]),
    # ---- iterative (loop) double-and-add ladders

 N("p-iterative-ladder", _ITER),
 B("p-iterative-ladder-skips-doubling-on-zero-bit", ["C13"], [(_ITER[0][0], _ITER[0][1], _ITER[0][2].replace('''        acc = double_element(acc)
        if bit == "1":
            acc = add(acc, pt)''', '''        if bit == "1":
            acc = add(double_element(acc), pt)''')), _ITER[1]]),
 B("p-iterative-ladder-lsb-first", ["C13"], [(_ITER[0][0], _ITER[0][1], _ITER[0][2].replace("bin(n)[2:]", "bin(n)[:1:-1]")), _ITER[1]]),
    # ---- try-and-increment written as a lazily consumed generator

 N("p-generator-candidate-search", [(ED, _GEN_OLD, _GEN_NEW), (ED, _GEN_DEF_OLD, _GEN_DEF_NEW)]),
 B("p-generator-candidate-search-starts-at-1", ["C14"], [(ED, _GEN_OLD, _GEN_NEW), (ED, _GEN_DEF_OLD, _GEN_DEF_NEW.replace("itertools.count(0)", "itertools.count(1)"))]),
 B("p-generator-candidate-search-no-curve-test", ["C14"], [(ED, _GEN_OLD, _GEN_NEW), (ED, _GEN_DEF_OLD, _GEN_DEF_NEW.replace("        if isoncurve(Pa):\n            yield", "        if True:\n            yield"))]),
    N("p-iterative-ladder-bit-positions", [(_ITER[0][0], _ITER[0][1], _ITER[0][2].replace("""    for bit in bin(n)[2:]:
        acc = double_element(acc)
        if bit == "1":""", """    for i in reversed(range(n.bit_length())):
        acc = double_element(acc)
        if (n >> i) & 1:""")), _ITER[1]]),
    B("p-iterative-ladder-bit-positions-off-by-one", ["C13"], [(_ITER[0][0], _ITER[0][1], _ITER[0][2].replace("""    for bit in bin(n)[2:]:
        acc = double_element(acc)
        if bit == "1":""", """    for i in reversed(range(n.bit_length() - 1)):
        acc = double_element(acc)
        if (n >> i) & 1:""")), _ITER[1]]),
    # ---- rejection sampling with the whole integer masked instead of the first byte
    N("p-integer-mask-candidate", [(UT, _IMASK_OLD, _IMASK_NEW)]),
    B("p-integer-mask-candidate-one-bit-short", ["C11", "C04"], [(UT, _IMASK_OLD, _IMASK_NEW.replace("(1 << num_bits) - 1", "(1 << (num_bits - 1)) - 1"))]),
    B("p-integer-mask-candidate-modulo-range", ["C11", "C04"], [(UT, _IMASK_OLD, _IMASK_NEW.replace("& ((1 << num_bits) - 1)", "% maxval"))],
      note="modulo reduction instead of masking: biased"),
    # ---- defects seeded into the third batch of refactorings
    B("n18-digit-helper-not-reversed", ["C13"], [(ED, "    bits.reverse()\n", "")],
      base="seeded_neutral/N18", tests="fail", note="digit helper returns the bits least significant first"),
    B("n19-integer-mask-one-bit-wide", ["C11", "C04"], [(UT, "    value_mask = (0x1 << num_bits) - 1\n", "    value_mask = (0x1 << num_bits)\n")],
      base="seeded_neutral/N19", note="integer mask keeps bit num_bits instead of the low num_bits bits"),
    B("n17-moved-transcript-swaps-ids", ["C17", "C03"], [("_transcript.py", "_digest(pw), _digest(idA), _digest(idB),", "_digest(pw), _digest(idB), _digest(idA),")],
      base="seeded_neutral/N17", tests="fail", note="transcript function moved to its own module hashes idB before idA"),
    B("n21-sign-on-zero-check-compares-one", ["C05"], [(ED, "    if sign and x == 0:\n", "    if sign and x == 1:\n")],
      base="seeded_neutral/N21", note="guard-clause form of the sign-on-x=0 rejection tests the wrong value"),
    B("n23-scalar-size-property-one-too-wide", ["C15"], [(GR, "    def scalar_size_bytes(self):\n        return size_bytes(self.q)\n", "    def scalar_size_bytes(self):\n        return size_bytes(self.q) + 1\n")],
      base="seeded_neutral/N23", tests="fail", note="size property one byte wider than the encoding of q"),
    B("n20-unblinding-sign-lost", ["C01"], [(SP, "                                                   -pw_scalar)\n", "                                                   pw_scalar)\n")],
      base="seeded_neutral/N20", tests="fail", note="shared offset helper called with +pw for the unblinding"),
    B("n24-double-uses-sum-for-G", ["C12"], [(ED, "    y2_minus_x2 = (y_squared - x_squared) % Q           # G\n", "    y2_minus_x2 = (y_squared + x_squared) % Q           # G\n")],
      base="seeded_neutral/N24", tests="fail", note="descriptive-name doubling formula with a sign error"),
    # ---- functools.cached_property for the per-instance parameter fingerprint
    N("p-cached-property-fingerprint", [(SP, "import os, json\n", "import os, json, functools\n"),
                                        (SP, """    def hash_params(self):
        # We can't really reconstruct the group from static data, but we'll""", """    def hash_params(self):
        return self._hashed_params

    @functools.cached_property
    def _hashed_params(self):
        # We can't really reconstruct the group from static data, but we'll""")],
      note="the asymmetric fingerprint is computed once per instance (kept in the instance's own dictionary)"),
    # ---- match statement (Python 3.10) in the side check
    N("p-match-statement-extract-message", [(SP, _MATCH_OLD, _MATCH_NEW)], note="structural pattern matching on (own side, peer side)"),
    B("p-match-statement-own-side-accepted", ["C06"], [(SP, _MATCH_OLD, _MATCH_NEW.replace("""            case (b"A", b"A"):
                raise OffSides("I'm A, but I got a message from A (not B).")
""", ""))], note="the (A, A) case is missing: side A accepts a message labelled A"),
    # ---- ordinary dict idioms in the restore function (probes after round 9)
    N("r-reader-get-with-default", [(SP, """        if d["side"].encode("ascii") != self.side:
            raise WrongSideSerialized
        if d["hashed_params"] != self.hash_params():""", """        if d.get("side", "").encode("ascii") != self.side:
            raise WrongSideSerialized
        if d.get("hashed_params") != self.hash_params():""")], note="d.get(k[, default]) instead of d[k] for keys every stored object has"),
    N("r-reader-dict-copy", [(SP, """        def _should_be_unused(count): raise NotImplementedError
        self = klass(password=unhexlify(d["password"].encode("ascii")),
                     idA=""", """        def _should_be_unused(count): raise NotImplementedError
        d = dict(d)
        self = klass(password=unhexlify(d["password"].encode("ascii")),
                     idA=""")], note="the reader works on a copy of the parsed object"),
    B("r-reader-get-misspelt-key", ["C10", "C09"], [(SP, """        if d["side"].encode("ascii") != self.side:
            raise WrongSideSerialized
        if d["hashed_params"] != self.hash_params():""", """        if d.get("side", "").encode("ascii") != self.side:
            raise WrongSideSerialized
        if d.get("hashed_param") != self.hash_params() and d.get("hashed_param") is not None:""")],
      tests="fail", note="tolerant lookup of a misspelt key: the fingerprint is never compared"),
    # ---- N29 (root helper returning (x, xx), sign test on the even root, on-curve test as x*x == xx)
    B("n29-sign-test-inverted", ["C15", "C05"], [(ED, "    if unclamped & (1<<255):\n        if x == 0:", "    if not unclamped & (1<<255):\n        if x == 0:")],
      base="seeded_neutral/N29", tests="fail", note="the even root is negated when the sign bit is clear"),
    B("n29-root-helper-returns-odd-root", ["C15", "C14"], [(ED, "    if x % 2 != 0: x = Q-x\n    # postcondition", "    if x % 2 == 0: x = Q-x\n    # postcondition")],
      base="seeded_neutral/N29", tests="fail", note="the postcondition 'x is even' the decoder relies on no longer holds"),
    B("n29-oncurve-compares-wrong-square", ["C05"], [(ED, "    if (x*x - xx) % Q != 0:\n        raise NotOnCurve", "    if (x*x + xx) % Q != 0:\n        raise NotOnCurve")],
      base="seeded_neutral/N29", tests="fail", note="the shortcut on-curve test compares x*x with -xx"),
    B("n29-helper-returns-numerator-as-square", ["C05", "C15"], [(ED, "    return x, xx\n", "    return x, (y*y-1)\n")],
      base="seeded_neutral/N29", tests="fail", note="the second component handed to the on-curve shortcut is not the square the root solves for"),
    # ---- right-to-left iterative ladder (result + r*addend = n*P)
    N("p-rtl-ladder", [(_ITER[0][0], _ITER[0][1], _RTL), _ITER[1]], props=["C13", "C12", "C05", "C14", "C01", "C03"],
      note="behaviour-preserving at the element API (to_bytes normalises); the projective representation differs"),
    B("p-rtl-ladder-addend-not-doubled-on-zero-bit", ["C13"], [(_ITER[0][0], _ITER[0][1], _RTL.replace("""            result = add(result, addend)
        addend = double_element(addend)""", """            result = add(result, addend)
            addend = double_element(addend)""")), _ITER[1]]),
    B("p-rtl-ladder-adds-point-not-addend", ["C13"], [(_ITER[0][0], _ITER[0][1], _RTL.replace("result = add(result, addend)", "result = add(result, pt)")), _ITER[1]]),
    # ---- second set of idiom probes (neutral)

 N("q-dict-comprehension-serialize", [(SP, '''        d = {"hashed_params": self.hash_params(),
             "side": self.side.decode("ascii"),
             "idA": hexlify(self.idA).decode("ascii"),
             "idB": hexlify(self.idB).decode("ascii"),
             "password": hexlify(self.pw).decode("ascii"),
             "xy_scalar": hexlify(g.scalar_to_bytes(self.xy_scalar)).decode("ascii"),
             }
        return d''', '''        d = {"hashed_params": self.hash_params(),
             "side": self.side.decode("ascii")}
        d.update({name: hexlify(value).decode("ascii")
                  for name, value in (("idA", self.idA), ("idB", self.idB), ("password", self.pw),
                                      ("xy_scalar", g.scalar_to_bytes(self.xy_scalar)))})
        return d''')]),
 N("q-try-except-translate", [(SP, '''        inbound_elem = g.bytes_to_element(self.inbound_message)
''', '''        try:
            inbound_elem = g.bytes_to_element(self.inbound_message)
        except ValueError:
            raise
''')]),
 N("q-annotated-assignments", [(SP, '''        self._started = False
        self._finished = False
''', '''        self._started: bool = False
        self._finished: bool = False
''')]),
 N("q-augmented-attribute", [(SP, '''        self._finished = True

        self.inbound_message''', '''        self._finished |= True

        self.inbound_message''')]),
 N("q-while-else-sampler", [(UT, '''        if candidate_int < maxval:
            return start + candidate_int''', '''        if candidate_int < maxval:
            break
    return start + candidate_int''')]),
 N("q-functools-reduce-join", [(SP, '''    transcript = b"".join([sha256(pw).digest(),
                           sha256(idA).digest(), sha256(idB).digest(),
                           X_msg, Y_msg, K_bytes])''', '''    import functools, operator
    transcript = functools.reduce(operator.add, [sha256(pw).digest(),
                           sha256(idA).digest(), sha256(idB).digest(),
                           X_msg, Y_msg, K_bytes], b"")''')]),
 N("q-isinstance-and-not-bool", [(GR, '''        if not isinstance(i, int):
            raise TypeError("E*N requires N be a scalar")''', '''        if not isinstance(i, int) or isinstance(i, str):
            raise TypeError("E*N requires N be a scalar")''')]),
 N("q-set-comprehension-sides", [(SP, '''        if other_side not in (SideA, SideB):''', '''        if other_side not in {s for s in (SideA, SideB)}:''')]),
 N("q-conditional-import", [(UT, '''import os, binascii, math
''', '''import os, binascii, math
try:
    from math import ceil as _ceil
except ImportError:
    _ceil = math.ceil
''')]),
 N("q-struct-pack-side", [(SP, '''        outbound_side_and_message = self.side + self.outbound_message''', '''        outbound_side_and_message = b"%s%s" % (self.side, self.outbound_message)''')]),
    # ---- defects seeded into the fourth batch (idiomatic Python 3.10+ modernisations P01..P08)
    B("p01-top-byte-mask-zero-on-byte-multiple", ["C11", "C04"], [(UT, "    top_byte_bits = size_bits(maxval) % 8 or 8\n", "    top_byte_bits = size_bits(maxval) % 8\n")],
      base="seeded_neutral/P01", note="`% 8 or 8` spelled without the `or 8`: mask 0 when the bit length is a multiple of 8"),
    B("p01-little-endian-encoder", ["C15"], [(UT, '    return num.to_bytes(num_bytes, "big")\n', '    return num.to_bytes(num_bytes, "little")\n')],
      base="seeded_neutral/P01", tests="fail", note="int.to_bytes with the wrong byte order: encoder and decoder disagree"),
    B("p01-accepts-offset-equal-span", ["C11", "C04"], [(UT, "        if offset < span:\n", "        if offset <= span:\n")],
      base="seeded_neutral/P01", note="renamed-locals sampler accepts the excluded upper end"),
    B("p03-inline-digits-not-reversed", ["C13"], [(ED, "    for bit in reversed(bits):\n", "    for bit in bits:\n")],
      base="seeded_neutral/P03", tests="fail", note="inline digit peel consumed least significant digit first"),
    B("p03-inline-peel-shifts-two", ["C13"], [(ED, "        bits.append(n & 1)\n        n >>= 1\n", "        bits.append(n & 1)\n        n >>= 2\n")],
      base="seeded_neutral/P03", tests="fail", note="inline digit peel drops every other bit"),
    B("p03-safe-ladder-gets-dedicated-add", ["C12"], [(ED, "    return _double_and_add(pt, n, add_elements)\n", "    return _double_and_add(pt, n, _add_elements_nonunified)\n")],
      base="seeded_neutral/P03", note="shared ladder instantiated with the non-unified addition for arbitrary points"),
    B("p03-two-d-constant-is-d", ["C12"], [(ED, "_TWO_D = (2*d) % Q\n", "_TWO_D = d % Q\n")],
      base="seeded_neutral/P03", tests="fail", note="hoisted curve constant is d, not 2d"),
    B("p03-sign-bit-one-too-low", ["C15"], [(ED, "        y |= _SIGN_BIT\n", "        y |= _SIGN_BIT >> 1\n")],
      base="seeded_neutral/P03", tests="fail", note="sign of x stored in bit 254"),
    B("p04-eq-is-identity", ["C13"], [(ED, "        return self.to_bytes() == other.to_bytes()\n", "        return self is other\n")],
      base="seeded_neutral/P04", tests="fail", note="with __ne__ derived from __eq__, both become object identity"),
    B("p04-low-order-retry-dropped", ["C14"], [(ED, "        if P8._is_identity:\n            continue\n", "")],
      base="seeded_neutral/P04", note="property-form identity test on 8*P removed"),
    B("p04-cofactor-constant-four", ["C14"], [(ED, "_COFACTOR = 8\n", "_COFACTOR = 4\n")],
      base="seeded_neutral/P04", note="named cofactor constant too small"),
    B("p05-symmetric-transcript-unsorted", ["C02"], [(SP, "    first_msg, second_msg = min(msg1, msg2), max(msg1, msg2)\n", "    first_msg, second_msg = msg1, msg2\n")],
      base="seeded_neutral/P05", tests="fail", note="min/max form of the message ordering removed"),
    B("p05-symmetric-hash-commits-to-nothing", ["C09"], [(SP, "        return (self.params.S,)\n", "        return ()\n")],
      base="seeded_neutral/P05", note="hook listing the hashed blinding elements returns none for the symmetric class"),
    B("p05-serialize-idB-from-idA", ["C10"], [(SP, '        return {"idA": _to_hex(self.idA), "idB": _to_hex(self.idB)}\n', '        return {"idA": _to_hex(self.idA), "idB": _to_hex(self.idA)}\n')],
      base="seeded_neutral/P05", note="identity hook of the shared serializer stores idA twice"),
    B("p05-keyword-transcript-swaps-messages", ["C17"], [(SP, "                               X_msg=self.X_msg(), Y_msg=self.Y_msg(),\n", "                               X_msg=self.Y_msg(), Y_msg=self.X_msg(),\n")],
      base="seeded_neutral/P05", tests="fail", note="keyword call binds the two messages to the wrong slots"),
    B("p05-unblinding-sign-lost", ["C01"], [(SP, "        pw_unblinding = self.my_unblinding().scalarmult(-self.pw_scalar)\n", "        pw_unblinding = self.my_unblinding().scalarmult(self.pw_scalar)\n")],
      base="seeded_neutral/P05", tests="fail", note="extracted shared-element helper adds the blinding instead of removing it"),
    B("p05-restore-does-not-mark-started", ["C07"], [(SP, "        self._started = True\n        self._set_secret_scalar(g.bytes_to_scalar", "        self._set_secret_scalar(g.bytes_to_scalar")],
      base="seeded_neutral/P05", note="restore helper forgets the started flag: start() is accepted on a restored instance"),
    B("p08-restore-scalar-off-by-one", ["C10"], [(SP, "        self.xy_scalar = g.bytes_to_scalar(xy_scalar_bytes)\n", "        self.xy_scalar = g.bytes_to_scalar(xy_scalar_bytes) + 1\n")],
      base="seeded_neutral/P08", tests="fail", note="shared restore tail resumes with a different scalar"),
    # Python 3 derives != from __eq__: removing the redundant __ne__ changes nothing
    N("r-int-ne-removed", [(GR, "    def __ne__(self, other):\n        return not self == other\n", "")], props=["C13", "C01", "C03"]),
    N("r-ed-ne-removed", [(ED, "    def __ne__(self, other):\n        return not self == other\n", "")], props=["C13", "C01", "C03", "C05"]),
    B("r-ed-ne-removed-eq-compares-x-only", ["C13"], [(ED, "    def __ne__(self, other):\n        return not self == other\n", ""),
      (ED, "        return self.to_bytes() == other.to_bytes()\n", "        return self.XYTZ[0] == other.XYTZ[0]\n")], tests="fail"),
    B("p02-membership-or", ["C05"], [(GR, "        return e._group is self and pow(e._e, self.q, self.p) == 1\n", "        return e._group is self or pow(e._e, self.q, self.p) == 1\n")],
      base="seeded_neutral/P02", note="one-expression membership test with `or`: every residue is accepted"),
    B("p02-cofactor-property-unchecked", ["C14"], [(GR, "        r = (self.p - 1) // self.q\n        assert r * self.q == self.p - 1\n", "        r = (self.p - 1) // self.q\n")],
      base="seeded_neutral/P02", note="cofactor property no longer checks that q divides p-1"),
    B("p02-shared-hkdf-helper-ignores-info", ["C18"], [(GR, "        info=info,\n", "        info=b\"SPAKE2 pw\",\n")],
      base="seeded_neutral/P02", tests="fail", note="shared HKDF helper uses the password label for blinding elements too"),
    B("p07-setattr-loop-derives-N-from-M-seed", ["C18"], [("params.py", 'seeds = (("M", M), ("N", N), ("S", S))', 'seeds = (("M", M), ("N", M), ("S", S))')],
      base="seeded_neutral/P07", tests="fail", note="setattr loop over (name, seed) pairs binds N to M's seed"),
    B("p06-blinding-generator-omits-N", ["C09"], [(SP, "        yield self.params.M\n        yield self.params.N\n", "        yield self.params.M\n")],
      base="seeded_neutral/P06", note="generator hook feeding the incremental fingerprint hash yields M only"),
    B("p06-fingerprint-guard-inverted", ["C09"], [(SP, '        if state["hashed_params"] != self.hash_params():\n', '        if state["hashed_params"] == self.hash_params():\n')],
      base="seeded_neutral/P06", tests="fail", note="shared resume helper rejects the matching fingerprint and accepts every other"),
    B("p06-password-field-holds-scalar", ["C10"], [(SP, '            "password": _hex_text(self.pw),\n', '            "password": group.scalar_to_bytes(self.xy_scalar).hex(),\n')],
      base="seeded_neutral/P06", tests="fail", note="dict literal with a spliced identity hook stores the scalar under the password key"),
    # ---- found by the mutation sweep (tools/mutation_sweep.py): survives the tests
    B("m-int-ne-recurses", ["C13"], [(GR, "        return not self == other\n", "        return not self != other\n")],
      note="__ne__ defined through != : RecursionError on every use (the tests never compare integer-group elements with !=)"),
    # is_extended_zero compares X unreduced: the formulas must hand it a value that is 0 exactly when it is 0 mod Q
    B("m-double-x-unreduced", ["C14"], [(ED, "    E = (J*J-A-B) % Q\n", "    E = (J*J-A-B)\n"), (ED, "    H = (D-B) % Q\n    X3 = (E*F) % Q\n", "    H = (D-B) % Q\n    X3 = (E*F)\n")],
      note="2*P = identity with X3 a non-zero multiple of Q is not recognised: a small-order candidate is not skipped by arbitrary_element "
           "(survives the tests: such seeds are never met); C05 is unaffected - L is odd, so L*P comes out of the addition formula", silent=["C05"]),
    B("m-add-x-unreduced", ["C13", "C05", "C14"], [(ED, "    A = ((Y1-X1)*(Y2-X2)) % Q\n", "    A = ((Y1-X1)*(Y2-X2))\n"), (ED, "    B = ((Y1+X1)*(Y2+X2)) % Q\n", "    B = ((Y1+X1)*(Y2+X2))\n"),
      (ED, "    E = (B-A) % Q\n", "    E = (B-A)\n"), (ED, "    H = (B+A) % Q\n    X3 = (E*F) % Q\n", "    H = (B+A) % Q\n    X3 = (E*F)\n")], tests="killed",
      note="e + (-e) is not recognised as the identity (import already fails on the L-torsion assert)"),
    N("m-add-x-product-of-residues", [(ED, "    H = (B+A) % Q\n    X3 = (E*F) % Q\n", "    H = (B+A) % Q\n    X3 = (E*F)\n")],
      note="E and F are residues: E*F is 0 exactly when it is 0 mod Q - equivalent (mutation-sweep survivor)"),
    N("m-add-x-differences-of-residues", [(ED, "    E = (B-A) % Q\n", "    E = (B-A)\n"), (ED, "    F = (D-C) % Q\n", "    F = (D-C)\n"),
      (ED, "    H = (B+A) % Q\n    X3 = (E*F) % Q\n", "    H = (B+A) % Q\n    X3 = (E*F)\n")],
      note="differences of residues vanish only when they vanish mod Q - equivalent"),
    # mutants the tests kill but no check reported before the sweep (gross failures of one API function)
    B("m-int-add-ctor-args-swapped", ["C13"], [(GR, "        return _Element(self, (e1._e * e2._e) % self.p)", "        return _Element((e1._e * e2._e) % self.p, self)")], tests="killed",
      note="the sum is stored in the group slot and the group in the value slot"),
    B("m-int-zero-ctor-args-swapped", ["C13"], [(GR, "        self.Zero = _Element(self, 1)", "        self.Zero = _Element(1, self)")], tests="killed"),
    B("m-ladder-assert-positive", ["C13"], [(ED, """    assert n >= 0
    if n==0:
        return xform_affine_to_extended((0,1))
    _ = double_element(scalarmult_element_safe_slow(pt, n>>1))""", """    assert n > 0
    if n==0:
        return xform_affine_to_extended((0,1))
    _ = double_element(scalarmult_element_safe_slow(pt, n>>1))""")], tests="killed",
      note="the recursion always ends in n = 0, which the assertion now refuses: every multiplication raises"),
    B("m-affine-y-unreduced", ["C15"], [(ED, "    return ((x*inv(z))%Q, (y*inv(z))%Q)", "    return ((x*inv(z))%Q, (y*inv(z)))")], tests="killed"),
    B("m-affine-x-unreduced", ["C15"], [(ED, "    return ((x*inv(z))%Q, (y*inv(z))%Q)", "    return ((x*inv(z)), (y*inv(z))%Q)")], tests="killed",
      note="the sign bit is the parity of an unreduced product"),
    B("m-encodepoint-range-254", ["C15"], [(ED, "    assert 0 <= y < (1<<255) # always", "    assert 0 <= y < (1<<254) # always")], tests="killed",
      note="half of the points cannot be encoded"),
    B("m-int-scalar-decoder-refuses-own-width", ["C15"], [(GR, "        assert len(b) == self.scalar_size_bytes", "        assert len(b) != self.scalar_size_bytes")], tests="killed"),
    B("m-ed-scalar-decoder-refuses-own-width", ["C15"], [(ED, "    assert len(s) == 32, len(s)", "    assert len(s) == 33, len(s)")], tests="killed"),
    B("m-int-scalar-decoder-isinstance-swapped", ["C15"], [(GR, """        # for restore of intermediate state
        assert isinstance(b, bytes)""", """        # for restore of intermediate state
        assert isinstance(bytes, b)""")], tests="killed", note="isinstance with its operands exchanged: TypeError on every input"),
    B("m-default-identity-not-empty", ["C03"], [(SP, '    def __init__(self, password, idSymmetric=b"",', '    def __init__(self, password, idSymmetric=b"x",')], tests="killed",
      note="an omitted identity no longer means the empty string"),
    B("m-ed-ne-recurses", ["C13"], [(ED, "        return not self == other\n", "        return not self != other\n")],
      note="survives the tests (no test compares Ed25519 elements with !=)"),
    B("m-start-always-refuses", ["C01", "C03", "C04"], [(SP, "        if self._started:\n", "        if True:\n")], tests="killed",
      note="start() raises OnlyCallStartOnce on a fresh instance: reported as LIFECYCLE by the properties that promise a message/key; no verdict elsewhere"),
    B("m-ctor-isinstance-swapped", ["C01", "C03", "C04"], [(SP, "        assert isinstance(password, bytes)\n", "        assert isinstance(bytes, password)\n")], tests="killed"),
    # ---- identifier-swap mutants (tools/mutation_sweep.py --ops names) the tests kill and no check reported
    B("m-int-order-returns-p", ["C13"], [(GR, "    def order(self):\n        return self.q\n", "    def order(self):\n        return self.p\n")], tests="killed"),
    B("m-int-scalar-decoder-wants-element-width", ["C15"], [(GR, "        assert len(b) == self.scalar_size_bytes", "        assert len(b) == self.element_size_bytes")], tests="killed",
      note="every group whose scalars are shorter than its elements can no longer restore a scalar"),
    # ---- from the sweep on the modernised tree: with lazily reduced formulas one missing final reduction lets sizes square per step
    B("pall-shared-tail-y-unreduced", ["C13"], [(ED, "(G*H) % Q", "(G*H)")], base="seeded_neutral/PALL", tests="killed",
      note="the tests time out: coordinates of degree 4 in unreduced inputs, 250 doublings"),
]
