"""Independent re-derivation of the C12 identities with sympy (thorough tier only).

Run under the tooling interpreter (python3-vt, which has sympy).  The formula functions
are *translated* from their ast to sympy expressions (never executed); the polynomial
arithmetic, the Groebner basis and the ideal reduction are sympy's - independent of
sa/poly.py.  Input: JSON on stdin {"Q":..., "d":..., "functions": {qual: source}}.
Output: JSON {qual: {"kind":..., ...}}."""
import ast
import json
import sys


def main():
    import sympy
    from sympy import symbols, Poly, groebner, reduced, expand
    req = json.load(sys.stdin)
    Q, d = int(req["Q"]), int(req["d"])
    consts = {k: int(v) for k, v in req["consts"].items()}
    x1, y1, z1, x2, y2, z2 = symbols("x1 y1 z1 x2 y2 z2")
    gens = (x1, y1, z1, x2, y2, z2)

    def tr(n, env):
        if isinstance(n, ast.Constant):
            return sympy.Integer(n.value)
        if isinstance(n, ast.Name):
            if n.id in env:
                return env[n.id]
            return sympy.Integer(consts[n.id])
        if isinstance(n, ast.Tuple):
            return tuple(tr(e, env) for e in n.elts)
        if isinstance(n, ast.UnaryOp) and isinstance(n.op, ast.USub):
            return -tr(n.operand, env)
        if isinstance(n, ast.BinOp):
            a, b = tr(n.left, env), tr(n.right, env)
            if isinstance(n.op, ast.Add):
                return a + b
            if isinstance(n.op, ast.Sub):
                return a - b
            if isinstance(n.op, ast.Mult):
                return a * b
            if isinstance(n.op, ast.Mod):
                if b == Q:
                    return a
                raise ValueError("reduction by a modulus other than Q")
        raise ValueError("untranslatable node %s" % type(n).__name__)

    def run(src, args):
        f = ast.parse(src).body[0]
        env = dict(zip([a.arg for a in f.args.args], args))
        for st in f.body:
            if isinstance(st, ast.Expr):
                continue
            if isinstance(st, ast.Assign):
                v = tr(st.value, env)
                t = st.targets[0]
                if isinstance(t, ast.Tuple):
                    for e, xv in zip(t.elts, v):
                        env[e.id] = xv
                else:
                    env[t.id] = v
            elif isinstance(st, ast.Return):
                return tr(st.value, env)
            else:
                raise ValueError("statement %s" % type(st).__name__)

    def curve(x, y):
        return -x**2 + y**2 - 1 - d * x**2 * y**2
    G = groebner([curve(x1, y1), curve(x2, y2)], *gens, modulus=Q, order="grevlex")

    def nf(e):
        p = Poly(expand(e), *gens, modulus=Q)
        if p.is_zero:
            return True, True
        _, r = reduced(p, list(G.polys), *gens, modulus=Q, order="grevlex")
        return False, Poly(r, *gens, modulus=Q).is_zero
    P1 = (x1 * z1, y1 * z1, z1, x1 * y1 * z1)
    P2 = (x2 * z2, y2 * z2, z2, x2 * y2 * z2)
    out = {}
    for qual, src in req["functions"].items():
        nargs = len(ast.parse(src).body[0].args.args)
        try:
            if nargs == 2:
                X3, Y3, Z3, T3 = run(src, [P1, P2])
                k = d * x1 * x2 * y1 * y2
                ids = [X3 * (1 + k) - (x1 * y2 + y1 * x2) * Z3, Y3 * (1 - k) - (y1 * y2 + x1 * x2) * Z3, X3 * Y3 - Z3 * T3]
                zc = Z3 - 4 * z1**2 * z2**2 * (1 - k**2)
                zd = 4 * z1**2 * z2**2 * (x1 * y2 - y1 * x2) * (y1 * y2 - x1 * x2)
                res = [nf(e) for e in ids]
                kind = None
                if all(r[1] for r in res):
                    if nf(zc)[1]:
                        kind = "add-complete"
                    elif nf(Z3 - zd)[1] or nf(Z3 + zd)[1]:
                        kind = "add-dedicated"
                    else:
                        kind = "add-unknown-denominator"
                out[qual] = {"kind": kind, "raw_zero": [r[0] for r in res]}
            else:
                X3, Y3, Z3, T3 = run(src, [P1])
                k = d * x1**2 * y1**2
                ids = [X3 * (1 + k) - 2 * x1 * y1 * Z3, Y3 * (1 - k) - (y1**2 + x1**2) * Z3, X3 * Y3 - Z3 * T3]
                res = [nf(e) for e in ids]
                zok = nf(Z3 + z1**4 * (1 - k**2))[1] or nf(Z3 - z1**4 * (1 - k**2))[1]
                out[qual] = {"kind": "double" if all(r[1] for r in res) and zok else None, "raw_zero": [r[0] for r in res]}
        except Exception as e:          # noqa
            out[qual] = {"kind": None, "error": str(e)}
    json.dump(out, sys.stdout)


if __name__ == "__main__":
    main()
