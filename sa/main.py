"""CLI: ./check <ID> [--tier quick|thorough]; ./check --replay <file>; ./check --all"""
import importlib
import json
import os
import sys
import traceback

from .loader import World, AnalysisError, Decided
from .report import Ctx, finish

PROPS = {  # id -> (module, level)
    "C01": ("c01", "other"), "C02": ("c02", "other"), "C03": ("c03", "other"), "C04": ("c04", "other"),
    "C05": ("c05", "other"), "C06": ("c06", "other"), "C07": ("c07", "other"), "C08": ("c08", "other"),
    "C09": ("c09", "other"), "C10": ("c10", "other"), "C11": ("c11", "other"), "C12": ("c12", "proof"),
    "C13": ("c13", "other"), "C14": ("c14", "other"), "C15": ("c15", "other"), "C16": ("c16", "other"),
    "C17": ("c17", "other"), "C18": ("c18", "other"),
}


def run_one(pid, tier, only=None):
    modname, level = PROPS[pid]
    ctx = Ctx(pid, tier, level)
    ctx.only = only
    # a check must never hang: the analysis of one tree is bounded in wall-clock time
    import signal

    def _expired(signum, frame):
        raise AnalysisError("analysis time budget (%d s) exhausted" % BUDGET_S)
    BUDGET_S = int(os.environ.get("VERIF_BUDGET_S", "600"))
    try:
        signal.signal(signal.SIGALRM, _expired)
        signal.alarm(BUDGET_S)
    except (ValueError, AttributeError):
        pass
    try:
        mod = importlib.import_module("sa.rules." + modname)
        world = World()
        ctx.analysed.update({k: v for k, v in world.inventory().items() if k not in ("modules", "excluded")})
        ctx.analysed["modules"] = len(world.mods)
        mod.check(ctx, world)
        if tier == "thorough" and hasattr(mod, "thorough"):
            mod.thorough(ctx, world)
        rc = finish(ctx, seed=int(os.environ.get("VERIF_SEED", "0") or 0))
        try:
            signal.alarm(0)
        except (ValueError, AttributeError):
            pass
        if rc == 0 and tier == "thorough" and only is None:
            from . import selftest
            rc = selftest.sensitivity(pid, ctx)
        return rc
    except Decided as e:
        # e.g. the package cannot be imported: whatever the property promises, no call can deliver it
        if e.applies is not None and pid not in e.applies:
            print("ANALYSIS-ERROR property=%s %s" % (pid, e))
            return 2
        ctx.min_obligations = 0
        ctx.ob(e.rule, e.instance, False, str(e), e.site)
        return finish(ctx, seed=int(os.environ.get("VERIF_SEED", "0") or 0))
    except AnalysisError as e:
        print("ANALYSIS-ERROR property=%s %s" % (pid, e))
        if any(not o.ok for o in ctx.obs):
            # violations already established stand, whatever else could not be analysed
            ctx.min_obligations = 0
            ctx.note("analysis aborted early: %s" % e)
            rc = finish(ctx, seed=int(os.environ.get("VERIF_SEED", "0") or 0))
            return rc if rc == 1 else 2
        return 2
    except Exception:
        traceback.print_exc()
        print("ANALYSIS-ERROR property=%s internal error of the checker (traceback above)" % pid)
        return 2


def main(argv):
    tier = os.environ.get("VERIF_TIER", "quick")
    args = list(argv)
    if "--tier" in args:
        i = args.index("--tier")
        tier = args[i + 1]
        del args[i:i + 2]
    if tier not in ("quick", "thorough"):
        tier = "quick"
    if args and args[0] == "--replay":
        r = json.load(open(args[1]))
        return run_one(r["property_id"], tier, only=(r["rule"], r["instance"]))
    if args and args[0] == "--all":
        worst = 0
        for pid in sorted(PROPS):
            if os.path.exists(os.path.join(os.path.dirname(__file__), "rules", PROPS[pid][0] + ".py")):
                worst = max(worst, run_one(pid, tier))
        return worst
    if not args or args[0] not in PROPS:
        print("usage: ./check <C01..C18> [--tier quick|thorough] | --replay <file> | --all")
        return 2
    return run_one(args[0], tier)


if __name__ == "__main__":
    sys.exit(main(sys.argv[1:]))
