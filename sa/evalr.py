"""Forking abstract evaluator over terms (DESIGN 3.3).

Evaluates function bodies of the analysed package on symbolic inputs and returns
every path as (path condition, heap effects, Return(term) | Raise(class)).
No repository code is executed: statements are interpreted over the term language
of terms.py; branches are pruned only by constant folding.
"""
import ast

from .terms import (V, Const, Sym, App, TupleV, DictV, Obj, ClassV, FuncV, Bound, ModV, ExtV, IterV,
                    mk_app, ty_of, is_app, show, TRUE, FALSE, NONE)
from .loader import AnalysisError, stmt_text


class LoopNotUnrollable(Exception):
    """A loop over something other than a sequence of known length was reached while a
    function with loops was being inlined tentatively; the caller falls back to an opaque call."""


class State(object):
    __slots__ = ("heap", "pc", "log", "approx", "ctor_pc", "all_ctor_pcs", "pmut")

    def __init__(self):
        self.pmut = []     # [(value of a parameter before, after)]: in-place updates of caller-owned sequences
        self.ctor_pc = []
        self.all_ctor_pcs = []
        self.heap = {}     # oid -> {field: term}
        self.pc = []       # [(term, polarity, site)]
        self.log = []      # effect records (tuples, first item = kind)
        self.approx = []   # sites where the evaluation over-approximated

    def fork(self):
        n = State()
        n.heap = {k: dict(v) for k, v in self.heap.items()}
        n.pc = list(self.pc)
        n.log = list(self.log)
        n.approx = list(self.approx)
        n.pmut = list(self.pmut)
        n.ctor_pc = self.ctor_pc
        n.all_ctor_pcs = self.all_ctor_pcs
        return n

    def fields(self, obj):
        return self.heap[obj.oid]

    def cond_terms(self):
        return [(t, p) for (t, p, _) in self.pc]


class Outcome(object):
    """One path through an evaluated callable."""
    __slots__ = ("kind", "value", "state", "site")

    def __init__(self, kind, value, state, site=None):
        self.kind = kind      # 'return' | 'raise'
        self.value = value    # returned term | exception term
        self.state = state
        self.site = site

    @property
    def exc(self):
        return exc_name(self.value) if self.kind == "raise" else None

    def __repr__(self):
        return "<%s %s | %d conds>" % (self.kind, show(self.value, maxdepth=4), len(self.state.pc))


class SuperV(V):
    def __init__(self, owner, recv):
        self.owner = owner
        self.recv = recv
        self._setkey(("Super", owner._key, recv._key))


def exc_name(t):
    """Short class name of an exception term."""
    if isinstance(t, App) and t.f.startswith("exc:"):
        return t.f[4:].rsplit(".", 1)[-1]
    if isinstance(t, ClassV):
        return t.name
    if isinstance(t, ExtV):
        return t.name.rsplit(".", 1)[-1]
    return "?" + show(t, maxdepth=2)


def exc_class(t):
    """ClassV of a package exception term, builtin name otherwise."""
    if isinstance(t, App) and t.f.startswith("exc:"):
        return t.f[4:]
    if isinstance(t, ClassV):
        return t.qual
    if isinstance(t, ExtV):
        return t.name
    return None


_BUILTIN_EXC_PARENTS = {
    "KeyError": "LookupError", "IndexError": "LookupError", "LookupError": "Exception",
    "AssertionError": "Exception", "AttributeError": "Exception", "TypeError": "Exception",
    "ValueError": "Exception", "NotImplementedError": "RuntimeError", "RuntimeError": "Exception",
    "ZeroDivisionError": "ArithmeticError", "OverflowError": "ArithmeticError",
    "ArithmeticError": "Exception", "UnicodeDecodeError": "UnicodeError", "UnicodeEncodeError": "UnicodeError",
    "UnicodeError": "ValueError", "Exception": "BaseException", "StopIteration": "Exception",
    "OSError": "Exception", "NameError": "Exception", "UnboundLocalError": "NameError",
}

_MUTATORS = ("append", "extend", "insert", "pop", "remove", "clear", "sort", "reverse", "update",
             "setdefault", "popitem", "add", "discard", "__setitem__", "__delitem__")

_PURE_CONST_METHODS = ("encode", "decode", "join", "bit_length", "hex", "lower", "upper", "strip",
                       "startswith", "endswith", "format", "to_bytes", "zfill", "rjust", "ljust",
                       "split", "replace", "count", "index", "find", "get", "keys", "values", "items")


class Policy(object):
    """Inline policy (computed from the AST, DESIGN 3.3)."""

    def __init__(self, world):
        self.world = world
        self.force_opaque = set()   # FuncV quals a rule wants kept opaque
        self.force_inline = set()
        self._cache = {}

    def classify(self, f):
        k = f._key
        if k not in self._cache:
            self._cache[k] = self._classify(f.node, f.mod)
        return self._cache[k]

    def _classify(self, node, mod):
        name = getattr(node, "name", None)
        body = node.body if isinstance(node.body, list) else [ast.Return(value=node.body)]
        has_loop = recursive = False
        for st in body:
            for n in ast.walk(st):
                if isinstance(n, (ast.For, ast.While)):
                    has_loop = True
                if isinstance(n, ast.Call) and isinstance(n.func, ast.Name) and n.func.id == name \
                        and not isinstance(getattr(node, "_parent", None), ast.ClassDef):
                    recursive = True     # (inside a class a bare name is the module-level function)
                if isinstance(n, ast.Call) and isinstance(n.func, ast.Attribute) and n.func.attr == name \
                        and isinstance(n.func.value, ast.Name) and n.func.value.id in ("self", "cls", "klass") \
                        and name is not None and not name.startswith("__"):
                    recursive = True
        if recursive:
            return "recursive"
        if has_loop:
            return "loop"
        if self.is_leaf_arith(node, mod):
            nst = sum(1 for st in body for n in ast.walk(st) if isinstance(n, ast.stmt))
            branch = any(isinstance(n, (ast.If, ast.IfExp)) for st in body for n in ast.walk(st))
            if branch or nst >= 6 or (self.returns_boolean(node) and len(node.args.args) == 1 and not node.args.defaults
                                      and not isinstance(getattr(node, "_parent", None), (ast.FunctionDef, ast.Lambda))):
                return "leaf"
            if nst >= 3 and len(node.args.args) in (1, 2) and not node.args.kwonlyargs and isinstance(node, ast.FunctionDef) \
                    and self._unpacks_extended(node) and self.ret_shape(FuncV(node, mod)) == 4:
                return "leaf"       # a compactly written coordinate formula (4-tuple of arithmetic on one or two extended points)       # (a predicate on one value, e.g. on a coordinate tuple, stays opaque; see returns_boolean)
        return "inline"

    @staticmethod
    def _unpacks_extended(node):
        """every parameter is unpacked into four names (extended coordinates X, Y, Z, T)"""
        params = [a.arg for a in node.args.args]
        got = set()
        for st in node.body:
            if isinstance(st, ast.Assign) and len(st.targets) == 1 and isinstance(st.targets[0], (ast.Tuple, ast.List)):
                t, v = st.targets[0], st.value
                if isinstance(v, ast.Name) and v.id in params and len(t.elts) == 4:
                    got.add(v.id)
                if isinstance(v, (ast.Tuple, ast.List)) and len(v.elts) == len(t.elts):
                    for te, ve in zip(t.elts, v.elts):
                        if isinstance(ve, ast.Name) and ve.id in params and isinstance(te, (ast.Tuple, ast.List)) and len(te.elts) == 4:
                            got.add(ve.id)
        return bool(params) and got == set(params)

    def is_generator(self, f):
        k = ("gen", f._key)
        if k not in self._cache:
            r = False
            if not isinstance(f.node, ast.Lambda):
                stack = list(f.node.body)
                while stack:
                    x = stack.pop()
                    if isinstance(x, (ast.Yield, ast.YieldFrom)):
                        r = True
                        break
                    if isinstance(x, (ast.FunctionDef, ast.Lambda, ast.ClassDef)):
                        continue
                    stack.extend(ast.iter_child_nodes(x))
            self._cache[k] = r
        return self._cache[k]

    @staticmethod
    def returns_boolean(node):
        """Every return value is syntactically a truth value (comparison, and/or/not, True/False):
        an arithmetic predicate.  Predicates stay opaque and are validated semantically."""
        rets = [n for n in ast.walk(node) if isinstance(n, ast.Return)]
        if not rets:
            return False
        for r in rets:
            v = r.value
            if isinstance(v, ast.Call) and isinstance(v.func, ast.Name) and v.func.id == "bool" and len(v.args) == 1 and not v.keywords:
                v = v.args[0]                      # bool(<comparison / and / or>)
            if isinstance(v, (ast.Compare, ast.BoolOp)) or (isinstance(v, ast.UnaryOp) and isinstance(v.op, ast.Not)) \
                    or (isinstance(v, ast.Constant) and isinstance(v.value, bool)):
                continue
            return False
        return True

    _LEAF_BUILTINS = ("pow", "bool", "int", "len", "abs", "divmod", "min", "max", "tuple", "list", "sum")

    def is_leaf_arith(self, node, mod, _seen=()):
        """Pure integer/tuple arithmetic: no raise/assert/attribute/object construction;
        calls only to builtin arithmetic or to other leaf-arithmetic package functions."""
        body = node.body if isinstance(node.body, list) else []
        if not body:
            return False
        if isinstance(getattr(node, "_parent", None), ast.ClassDef):
            return False          # methods dispatch on objects (==, +, ...): not plain integer arithmetic
        ok_stmt = (ast.Assign, ast.AugAssign, ast.Return, ast.If, ast.Expr, ast.Pass)
        ok_expr = (ast.Name, ast.Constant, ast.BinOp, ast.UnaryOp, ast.Compare, ast.BoolOp, ast.Tuple,
                   ast.List, ast.Subscript, ast.IfExp, ast.Load, ast.Store, ast.operator, ast.unaryop,
                   ast.cmpop, ast.boolop, ast.expr_context, ast.Call, ast.Slice, ast.keyword,
                   ast.GeneratorExp, ast.ListComp, ast.comprehension)
        for st in body:
            for n in ast.walk(st):
                if isinstance(n, ast.stmt):
                    if not isinstance(n, ok_stmt):
                        return False
                    if isinstance(n, ast.Expr) and not isinstance(n.value, ast.Constant):
                        return False
                elif isinstance(n, ast.Call):
                    if not isinstance(n.func, ast.Name) or any(k.arg is None for k in n.keywords):
                        return False
                    tgt = self.world.static_lookup(mod, n.func.id)
                    if tgt is None:
                        if n.func.id not in self._LEAF_BUILTINS or n.keywords:
                            return False
                    elif isinstance(tgt, FuncV):
                        if tgt._key in _seen:
                            return False
                        if tgt.node is not node and not self.is_leaf_arith(tgt.node, tgt.mod, _seen + (tgt._key,)):
                            return False
                    else:
                        return False      # class instantiation or external call: not pure arithmetic
                elif not isinstance(n, ok_expr):
                    return False
        return True

    def ret_shape(self, f, _seen=None):
        """Length n if every return of f is (syntactically) an n-tuple, else None."""
        k = ("shape", f._key)
        if k in self._cache:
            return self._cache[k]
        _seen = _seen or set()
        if f._key in _seen:
            return "self"
        _seen = _seen | {f._key}
        node = f.node
        if isinstance(node, ast.Lambda):
            return None
        assigns = {}
        for n in ast.walk(node):
            if isinstance(n, ast.Assign) and len(n.targets) == 1 and isinstance(n.targets[0], ast.Name):
                assigns.setdefault(n.targets[0].id, []).append(n.value)

        def shape(e, depth=0):
            if depth > 4:
                return None
            if isinstance(e, ast.Tuple):
                return len(e.elts)
            if isinstance(e, ast.Call) and isinstance(e.func, ast.Name) and e.func.id in ("tuple", "list") and len(e.args) == 1 and not e.keywords:
                return shape(e.args[0], depth + 1)
            if isinstance(e, (ast.GeneratorExp, ast.ListComp)) and len(e.generators) == 1 and not e.generators[0].ifs \
                    and isinstance(e.generators[0].iter, (ast.Tuple, ast.List)):
                return len(e.generators[0].iter.elts)
            if isinstance(e, ast.IfExp):
                a, b = shape(e.body, depth + 1), shape(e.orelse, depth + 1)
                if a in ("self", "param"):
                    return b
                if b in ("self", "param"):
                    return a
                return a if a == b else None
            if isinstance(e, ast.Call) and isinstance(e.func, ast.Name) and e.func.id in [x.arg for x in node.args.args + node.args.kwonlyargs]:
                return "param"        # result of a function-valued parameter: no information
            if isinstance(e, ast.Name) and e.id in assigns and len(assigns[e.id]) == 1:
                return shape(assigns[e.id][0], depth + 1)
            if isinstance(e, ast.Name) and e.id in assigns and e.id not in [x.arg for x in node.args.args + node.args.kwonlyargs]:
                # a local assigned several times (an accumulator): every assigned value has the same shape
                ss = [shape(v, depth + 1) for v in assigns[e.id]]
                real = {x for x in ss if x not in ("self", "param")}
                if len(real) == 1 and None not in real:
                    return real.pop()
                return None
            if isinstance(e, ast.Call) and isinstance(e.func, ast.Name):
                v = self.world.static_lookup(f.mod, e.func.id)
                if isinstance(v, FuncV):
                    return self.ret_shape(v, _seen)
            if isinstance(e, ast.Name) and e.id not in assigns and e.id not in [x.arg for x in node.args.args]:
                v = f.mod.globals.get(e.id)          # a module constant (value after abstract import)
                if isinstance(v, TupleV):
                    return len(v.items)
            return None
        shapes = [shape(n.value) for n in ast.walk(node) if isinstance(n, ast.Return) and n.value is not None]
        shapes = [x for x in shapes if x != "param"] or shapes
        real = {x for x in shapes if x not in ("self", "param")}
        r = real.pop() if len(real) == 1 and None not in shapes and isinstance(next(iter(real)), int) else None
        self._cache[k] = r
        return r

    def decide(self, f, args):
        if f.qual in self.force_inline:
            return "inline"
        if f.qual in self.force_opaque:
            return "opaque"
        c = self.classify(f)
        if c == "inline":
            return "inline"
        if c == "leaf" and all(_is_closed(a) for a in args):
            return "inline"      # constant folding of the program's own constants
        if c == "loop":
            return "try"         # inline if every loop can be unrolled, else opaque
        return "opaque"


def _is_closed(t):
    if isinstance(t, Const):
        return True
    if isinstance(t, TupleV):
        return all(_is_closed(i) for i in t.items)
    return False


def _unbounded(it):
    """An iterator that is never exhausted: itertools.count/cycle/repeat (no times), or a lazy
    map/filter stage over one (a filter over it may fail to terminate, but it does not end)."""
    if is_app(it, "itertools.count") or (is_app(it, "itertools.repeat") and len(it.args) == 1 and not it.kw) \
            or (is_app(it, "itertools.cycle") and len(it.args) == 1):
        return True
    if is_app(it, "maplam", "filterlam", "filter", "map") and len(it.args) == 2:
        return _unbounded(it.args[1])
    return False


def _const_term(x):
    if isinstance(x, (tuple, list)):
        return TupleV([_const_term(i) for i in x], "tuple" if isinstance(x, tuple) else "list")
    return Const(x)


_OPERATOR_BINOPS = {"operator.add": "Add", "operator.concat": "Add", "operator.mul": "Mult", "operator.sub": "Sub",
                    "operator.or_": "BitOr", "operator.and_": "BitAnd", "operator.xor": "BitXor", "operator.mod": "Mod"}
UNROLL_MAX = 40      # loops over longer known sequences are not unrolled (the callee stays an opaque call)


class Path(object):
    __slots__ = ("st", "kind", "val")

    def __init__(self, st, kind, val):
        self.st = st      # State
        self.kind = kind  # normal | return | break | continue
        self.val = val    # env (normal/break/continue) | returned term


def _int_rel(t, pol=True):
    """t = a comparison of a non-constant term x with an integer constant c  ->  (x, op, c) with op one of
    '==', '!=', '<', '<=', '>', '>=' (polarity applied), else None"""
    if not (isinstance(t, App) and t.f in ("Eq", "NotEq", "Lt", "LtE", "Gt", "GtE") and len(t.args) == 2 and not t.kw):
        return None
    a, b = t.args
    op = {"Eq": "==", "NotEq": "!=", "Lt": "<", "LtE": "<=", "Gt": ">", "GtE": ">="}[t.f]
    isint = lambda k: isinstance(k, Const) and isinstance(k.v, int) and not isinstance(k.v, bool)
    if isint(b) and not isinstance(a, Const):
        x, c = a, b.v
    elif isint(a) and not isinstance(b, Const):
        x, c = b, a.v
        op = {"<": ">", "<=": ">=", ">": "<", ">=": "<=", "==": "==", "!=": "!="}[op]
    else:
        return None
    if ty_of(x) != "int":
        return None                    # the +-1 steps below are right for integers only
    if not pol:
        op = {"==": "!=", "!=": "==", "<": ">=", "<=": ">", ">": "<=", ">=": "<"}[op]
    return x, op, c


def _decide_by_interval(v, pc):
    """Decide the comparison v of a term with an integer constant from the comparisons of the same term with
    integer constants already on the path (interval plus excluded points); None when they do not decide it."""
    r = _int_rel(v)
    if r is None:
        return None
    x, op, c = r
    lo = hi = None
    neq = set()
    for (t, pol, _) in pc:
        q = _int_rel(t, pol)
        if q is None or q[0] != x:
            continue
        _, o2, c2 = q
        if o2 == "==":
            lo = c2 if lo is None else max(lo, c2)
            hi = c2 if hi is None else min(hi, c2)
        elif o2 == "!=":
            neq.add(c2)
        elif o2 in ("<", "<="):
            b = c2 - 1 if o2 == "<" else c2
            hi = b if hi is None else min(hi, b)
        else:
            b = c2 + 1 if o2 == ">" else c2
            lo = b if lo is None else max(lo, b)
    if lo is None and hi is None and not neq:
        return None
    while lo is not None and lo in neq:
        lo += 1
    while hi is not None and hi in neq:
        hi -= 1
    below = hi is not None and hi < c          # every admissible value is < c
    above = lo is not None and lo > c          # every admissible value is > c
    at = lo is not None and hi is not None and lo == hi == c
    out = c in neq or below or above
    if op == "==":
        return True if at else False if out else None
    if op == "!=":
        return False if at else True if out else None
    if op == "<":
        return True if below else False if (lo is not None and lo >= c) else None
    if op == "<=":
        return True if (hi is not None and hi <= c) else False if above else None
    if op == ">":
        return True if above else False if (hi is not None and hi <= c) else None
    if op == ">=":
        return True if (lo is not None and lo >= c) else False if below else None
    return None


class Ev(object):
    def __init__(self, world, policy=None, fuel=60000, maxpaths=1500, loop_mode="error"):
        self.world = world
        self.policy = policy or Policy(world)
        self.fuel = fuel
        self.fuel0 = fuel
        self.maxpaths = maxpaths
        self.loop_mode = loop_mode    # 'error' | 'once'
        self.raised = []              # [(State, exc term, site)]
        self.depth = 0
        self.maxdepth = 14
        if not hasattr(world, "_next_oid"):
            world._next_oid = [1]
        self.next_oid = world._next_oid      # one allocator per World: object ids never collide
        self.continues = []           # paths that reached the end of a loop body (loop_mode='once')
        self.loop_entries = []        # (site, {carried local: value before the loop}) per loop entered in 'once' mode
        self.importing = False        # True while module top levels are evaluated (abstract import)
        self.unfold_once = set()      # quals of recursive functions to inline at their outermost call only
        self.active = []              # quals of the functions being inlined (call stack)
        self.trace_calls = None       # optional list collecting (callee FuncV, args, site)

    # ------------------------------------------------------------------ helpers
    def site(self, node, env):
        return (env["mod"].relpath, getattr(node, "lineno", 0), env.get("fname", "<module>"))

    def new_obj(self, cls, st):
        o = Obj(self.next_oid[0], cls)
        self.next_oid[0] += 1
        st.heap[o.oid] = {}
        return o

    # single-pass iterators (zip/map/enumerate/reversed/generators): a heap cell holding what is left
    def new_iter(self, items, st):
        it = IterV(self.next_oid[0])
        self.next_oid[0] += 1
        st.heap[it.oid] = {"items": TupleV(list(items.items), "list")}
        return it

    def take(self, v, st):
        """Consume an iterator completely: -> the sequence of its remaining items (and it is empty
        from now on, for every alias).  Other values are returned unchanged."""
        if isinstance(v, IterV):
            cell = st.heap.get(v.oid)
            if cell is None or "items" not in cell:
                return App("iter-unknown", (v,))
            cur = cell["items"]
            st.heap[v.oid] = {"items": TupleV([], "list")}
            return cur
        return v

    def do_raise(self, st, exc, site, detail=None):
        if isinstance(exc, str):
            exc = App("exc:builtins." + exc, [Const(detail)] if detail is not None else [])
        self.raised.append((st, exc, site))

    def burn(self, n=1):
        self.fuel -= n
        if self.fuel < 0:
            raise AnalysisError("evaluation fuel exhausted (budget, not a verdict)")

    def truth(self, v):
        if isinstance(v, Const):
            return bool(v.v)
        if isinstance(v, Obj):
            if v.cls.lookup("__bool__") or v.cls.lookup("__len__"):
                return None
            return True
        if isinstance(v, (FuncV, ClassV, Bound, ModV, ExtV, IterV)):
            return True
        if is_app(v, "flag") and isinstance(v.args[0], Const):
            return bool(v.args[0].v)
        if isinstance(v, TupleV):
            return bool(v.items)
        if isinstance(v, DictV):
            return bool(v.items)
        if is_app(v, "H"):
            return True
        return None

    def branch(self, v, st, site):
        """-> [(state, bool)] forking on unknown truth values."""
        t = self.truth(v)
        if t is not None:
            return [(st, t)]
        if is_app(v, "Not"):
            return [(s, not b) for s, b in self.branch(v.args[0], st, site)]
        if is_app(v, "bool"):
            return self.branch(v.args[0], st, site)
        for (c, pol, _) in st.pc:
            if c == v:
                return [(st, pol)]
        if is_app(v, "Eq", "NotEq") and len(v.args) == 2 and any(isinstance(a, Const) for a in v.args) \
                and not all(isinstance(a, Const) for a in v.args):
            # x == c is false once x == c' (another constant) is known on the path
            c, x = (v.args[0], v.args[1]) if isinstance(v.args[0], Const) else (v.args[1], v.args[0])
            for (t, pol, _) in st.pc:
                if pol is True and is_app(t, "Eq") and len(t.args) == 2:
                    c2, x2 = (t.args[0], t.args[1]) if isinstance(t.args[0], Const) else (t.args[1], t.args[0])
                    if isinstance(c2, Const) and x2 == x and c2 != c and type(c2.v) is type(c.v):
                        return [(st, v.f == "NotEq")]
        r = _decide_by_interval(v, st.pc)
        if r is not None:
            return [(st, r)]
        if ty_of(v) == "int" and isinstance(v, (App, Sym)):
            # truth value of an integer: it is not zero
            return self.branch(mk_app("NotEq", (v, Const(0))), st, site)
        if ty_of(v) in ("bytes", "str", "list", "bytearray") and not is_app(v, "NotEq", "Eq") and not isinstance(v, TupleV):
            # truth value of a byte/character string: it is non-empty
            return self.branch(mk_app("NotEq", (mk_app("len", (v,)), Const(0))), st, site)
        if is_app(v, "Or") and len(v.args) == 2:
            out = []
            for s1, bb in self.branch(v.args[0], st, site):
                if bb:
                    out.append((s1, True))
                else:
                    out += self.branch(v.args[1], s1, site)
            return out
        if is_app(v, "And"):
            # a chained comparison / conjunction: decided conjunct by conjunct, so that the path
            # condition holds the individual facts
            out = []
            cur = [st]
            for i, c in enumerate(v.args):
                nxt = []
                for s0 in cur:
                    for s1, bb in self.branch(c, s0, site):
                        if bb:
                            nxt.append(s1)
                        else:
                            out.append((s1, False))
                cur = nxt
            return [(s1, True) for s1 in cur] + out
        a = st.fork()
        a.pc.append((v, True, site))
        b = st
        b.pc.append((v, False, site))
        return [(a, True), (b, False)]

    # ------------------------------------------------------------------ abstract import
    def import_all(self):
        w = self.world
        if getattr(w, "static", None) is None:
            w.static = State()
            w.import_facts = []
            order = sorted(w.mods)
            for name in order:
                self.import_module(w.mods[name])
        return w.static

    def import_module(self, m):
        if m.imported:
            return
        m.imported = True
        w = self.world
        was = self.importing
        self.importing = True
        try:
            self._import_body(m)
        finally:
            self.importing = was

    def _import_body(self, m):
        w = self.world
        # parent packages first
        if "." in m.name:
            parent = m.name.rsplit(".", 1)[0]
            if parent in w.mods and parent != m.name and not w.mods[parent].imported:
                pass  # the parent __init__ would import siblings; order is irrelevant for analysis
        for stn in m.tree.body:
            st = w.static      # (a nested import may have advanced the static state)
            # every path gets its own copy of the module namespace; the surviving one is written back
            env = {"locals": dict(m.globals), "mod": m, "closure": None, "fname": "<module>", "toplevel": True,
                   "toplevel_copy": True}
            mark = len(self.raised)
            before = set(st.heap)       # (snapshot: one of the paths continues in this very state object)
            paths = self.stmt(stn, env, st)
            dropped = self.raised[mark:]
            del self.raised[mark:]
            for (s, e, site) in dropped:
                w.import_facts.append(("import-time raise path dropped", exc_name(e), site))
            normal = [p for p in paths if p.kind == "normal"]
            if len(normal) > 1:
                # paths that differ only in a condition the analysis could not fold, but leave the
                # module namespace and the heap identical, are one import as far as later code can tell
                table = {}
                sigs = {self._import_sig(p, before, table) for p in normal}
                if len(sigs) == 1:
                    w.import_facts.append(("import-time fork without observable difference collapsed", len(normal), self.site(stn, env)))
                    normal = normal[:1]
            if not normal and dropped and all(p.kind != "normal" for p in paths):
                from .loader import ImportRaises
                (_, e0, site0) = dropped[0]
                raise ImportRaises("%s:%d: this module-level statement raises on every path: %s"
                                   % (m.relpath, stn.lineno, "; ".join("%s at %s:%s (%s)" % (exc_name(e), s_[0], s_[1], s_[2]) for (_, e, s_) in dropped[:4])),
                                   exc_name(e0), site0)
            if len(normal) != 1:
                raise AnalysisError("%s:%d: module top-level statement has %d normal paths (import must be deterministic)%s"
                                    % (m.relpath, stn.lineno, len(normal),
                                       "".join("; raises %s at %s" % (exc_name(e), (site,)) for (_, e, site) in dropped[:4])))
            w.static = normal[0].st
            m.globals.clear()
            m.globals.update(normal[0].val["locals"])

    @staticmethod
    def _import_sig(p, before, table):
        """Namespace + heap of a path, with the objects it allocated numbered in allocation order."""
        from .terms import canon_id
        new = sorted(o for o in p.st.heap if o not in before)
        ren = {o: -(i + 1) for i, o in enumerate(new)}
        memo = {}
        g = tuple(sorted((k, canon_id(v, ren, table, memo)) for k, v in p.val["locals"].items() if isinstance(v, V)))
        h = tuple(sorted((ren.get(oid, oid), tuple(sorted((k, canon_id(v, ren, table, memo)) for k, v in f.items() if isinstance(v, V))))
                         for oid, f in p.st.heap.items()))
        return (g, h)

    def module_global(self, m, name, st):
        """Value of a module-level name (after abstract import)."""
        if not m.imported:
            self.import_module(m)
        if name in m.globals:
            return m.globals[name]
        return None

    # ------------------------------------------------------------------ expressions
    def expr(self, n, env, st):
        self.burn()
        meth = getattr(self, "e_" + type(n).__name__, None)
        if meth is None:
            raise AnalysisError("%s:%d: unsupported expression %s" % (env["mod"].relpath, n.lineno, type(n).__name__))
        return meth(n, env, st)

    def e_Constant(self, n, env, st):
        return [(st, Const(n.value))]

    def lookup_name(self, name, env, st):
        e = env
        while e is not None:
            if name in e["locals"]:
                return e["locals"][name]
            if e.get("toplevel"):
                break
            e = e.get("closure")
        m = env["mod"]
        if not env.get("toplevel"):
            v = self.module_global(m, name, st)
            if v is not None:
                return v
        if name in m.env and not env.get("toplevel"):
            # bound at module level but not (yet) evaluated
            b = self.world.static_lookup(m, name)
            if isinstance(b, (FuncV, ClassV, ModV, ExtV)):
                return b
        if name in ("True", "False", "None"):
            return Const({"True": True, "False": False, "None": None}[name])
        import builtins
        if hasattr(builtins, name):
            return ExtV("builtins." + name)
        return None

    def e_Name(self, n, env, st):
        v = self.lookup_name(n.id, env, st)
        if v is None:
            self.do_raise(st, "NameError", self.site(n, env), n.id)
            return []
        return [(st, v)]

    def _seq(self, elts, env, st):
        outs = [(st, ())]
        for e in elts:
            nxt = []
            if isinstance(e, ast.Starred):
                for (s1, acc) in outs:
                    for (s2, v) in self.expr(e.value, env, s1):
                        v = self.take(v, s2)
                        if isinstance(v, TupleV):
                            nxt.append((s2, acc + v.items))
                        else:
                            nxt.append((s2, acc + (App("star", [v]),)))
            else:
                for (s1, acc) in outs:
                    for (s2, v) in self.expr(e, env, s1):
                        nxt.append((s2, acc + (v,)))
            outs = nxt
        return outs

    def e_Tuple(self, n, env, st):
        return [(s, TupleV(a, "tuple")) for s, a in self._seq(n.elts, env, st)]

    def e_List(self, n, env, st):
        out = []
        for s, a in self._seq(n.elts, env, st):
            # [f(D[0]), *D[1:]]  ==  D with D[0] := f(D[0])   (same normal form as [f(D[0])] + D[1:])
            if len(a) == 2 and is_app(a[1], "star") and is_app(a[1].args[0], "slice") and a[1].args[0].args[1:] == (Const(1), NONE, NONE):
                D = a[1].args[0].args[0]
                from .terms import subterms as _st
                if any(x == mk_app("index", (D, Const(0))) for x in _st(a[0])):
                    out.append((s, App("setitem", (D, Const(0), a[0]))))
                    continue
            out.append((s, TupleV(a, "list")))
        return out

    def e_Set(self, n, env, st):
        return [(s, TupleV(a, "set")) for s, a in self._seq(n.elts, env, st)]

    def e_Dict(self, n, env, st):
        if any(k is None for k in n.keys):
            # {..., **other, ...}: entries in order, later keys replace earlier ones at their first position
            outs = [(st, [])]
            for k, v in zip(n.keys, n.values):
                nxt = []
                for s1, acc in outs:
                    for s2, vv in self.expr(v, env, s1):
                        if k is None:
                            vv = self.take(vv, s2)
                            if isinstance(vv, TupleV):
                                vv = mk_app("dict", (vv,))
                            if not isinstance(vv, DictV):
                                nxt.append((s2, None))
                                continue
                            nxt.append((s2, None if acc is None else acc + list(vv.items.items())))
                        else:
                            for s3, kk in self.expr(k, env, s2):
                                nxt.append((s3, None if acc is None or not isinstance(kk, Const) else acc + [(kk.v, vv)]))
                outs = nxt
            res = []
            for s1, acc in outs:
                if acc is None:
                    res.append((s1, App("dict-unpack", [Const(ast.unparse(n))])))
                else:
                    d = {}
                    for kk, vv in acc:
                        d[kk] = vv
                    res.append((s1, DictV(list(d.items()))))
            return res
        out = []
        for s1, ks in self._seq(n.keys, env, st):
            for s2, vs in self._seq(n.values, env, s1):
                if all(isinstance(k, Const) for k in ks):
                    out.append((s2, DictV(list(zip([k.v for k in ks], vs)))))
                else:
                    out.append((s2, App("dict", list(ks) + list(vs))))
        return out

    def e_Attribute(self, n, env, st):
        res = []
        for s1, o in self.expr(n.value, env, st):
            res += self.getattr(o, n.attr, s1, self.site(n, env))
        return res

    def getattr(self, o, name, st, site=None):
        if isinstance(o, Obj):
            f = st.heap.get(o.oid)
            if f is None:
                raise AnalysisError("dangling object %r" % (o,))
            if name in f:
                return [(st, f[name])]
            if name == "__dict__":
                return [(st, App("__dict__", [o]))]
            if name == "__class__":
                return [(st, o.cls)]
            r = o.cls.lookup(name)
            if r is None:
                self.do_raise(st, "AttributeError", site, "%s.%s" % (o.cls.name, name))
                return []
            if r[0] == "func":
                return self._bind_method(r, o, o.cls, st, site)
            return [(s_, self.msc_wrap(("class", r[2].qual, name), v_)) for s_, v_ in self.expr(r[1], self._class_env(r[2]), st)]
        if isinstance(o, ClassV):
            if name == "__name__":
                return [(st, Const(o.name))]
            r = o.lookup(name)
            if r is None:
                if o.is_exception():
                    return [(st, App("getattr", [o, Const(name)]))]
                self.do_raise(st, "AttributeError", site, "%s.%s" % (o.name, name))
                return []
            if r[0] == "func":
                return self._bind_method(r, None, o, st, site)
            fm = self._enum_member(r[2], name)
            if fm is not None:
                return [(st, fm)]
            return [(s_, self.msc_wrap(("class", r[2].qual, name), v_)) for s_, v_ in self.expr(r[1], self._class_env(r[2]), st)]
        if isinstance(o, SuperV):
            mro = o.recv.cls.mro() if isinstance(o.recv, Obj) else o.recv.mro()
            after = mro[mro.index(o.owner) + 1:] if o.owner in mro else []
            for c in after:
                for stn in c.node.body:
                    if isinstance(stn, ast.FunctionDef) and stn.name == name:
                        return self._bind_method(("func", stn, c), o.recv if isinstance(o.recv, Obj) else None,
                                                 o.recv.cls if isinstance(o.recv, Obj) else o.recv, st, site, force_bind=True)
            return [(st, App("super-attr", [Const(name)]))]
        if isinstance(o, ModV):
            m = self.world.mods[o.name]
            v = self.module_global(m, name, st)
            if v is None:
                sub = o.name + "." + name
                if sub in self.world.mods:
                    return [(st, ModV(sub))]
                b = self.world.static_lookup(m, name)
                if isinstance(b, (FuncV, ClassV, ModV, ExtV)):
                    return [(st, b)]
                self.do_raise(st, "AttributeError", site, "%s.%s" % (o.name, name))
                return []
            return [(st, v)]
        if isinstance(o, ExtV):
            return [(st, ExtV(o.name + "." + name))]
        if isinstance(o, Bound) and name == "__self__":
            return [(st, o.recv)]
        if is_app(o, "sha256obj") and name in ("block_size", "digest_size", "name"):
            return [(st, Const({"block_size": 64, "digest_size": 32, "name": "sha256"}[name]))]
        return [(st, mk_app("getattr", [o, Const(name)]))]

    def _class_env(self, cls):
        return {"locals": {}, "mod": cls.mod, "closure": None, "fname": cls.name}

    _BUILTIN_DECOS = ("classmethod", "staticmethod", "property")

    def apply_decorators(self, fv, decorators, env, st):
        """Apply user decorators (innermost first) to a function value.  functools.wraps /
        lru_cache / cache are transparent.  -> decorated callable value."""
        val = fv
        for d in reversed(decorators):
            outs = self.expr(d, env, st)
            if len(outs) != 1:
                raise AnalysisError("%s:%d: forking decorator expression" % (env["mod"].relpath, d.lineno))
            st, dv = outs[0]
            if isinstance(dv, (ExtV,)) and dv.name in ("functools.lru_cache", "functools.cache", "functools.wraps"):
                continue
            if isinstance(dv, App) and dv.f in ("functools.lru_cache", "functools.wraps", "functools.cache"):
                continue          # lru_cache(maxsize=..)(f), wraps(g)(f): behaviour of f unchanged (pure f)
            res = self.call(dv, (val,), (), st, self.site(d, env))
            if len(res) != 1:
                raise AnalysisError("%s:%d: decorator has %d outcomes" % (env["mod"].relpath, d.lineno, len(res)))
            val = res[0].value
            st = res[0].state
        return val

    def _enum_member(self, cls, name):
        """Members of an enum.Flag / enum.IntFlag class as flag(value, class) terms: integer literals as
        written, enum.auto() = the next power of two (the module's own rule for flags)."""
        if not any(e in ("enum.Flag", "enum.IntFlag") for c in cls.mro() for e in c.extbases):
            return None
        vals, last = {}, 0
        for stn in cls.node.body:
            if isinstance(stn, ast.Assign) and len(stn.targets) == 1 and isinstance(stn.targets[0], ast.Name):
                v = stn.value
                if isinstance(v, ast.Constant) and isinstance(v.value, int) and not isinstance(v.value, bool):
                    vals[stn.targets[0].id] = v.value
                    last = max(last, v.value)
                elif isinstance(v, ast.Call) and not v.args and not v.keywords and ast.unparse(v.func) in ("enum.auto", "auto"):
                    nv = 1 if last == 0 else 1 << last.bit_length()
                    vals[stn.targets[0].id] = nv
                    last = nv
                else:
                    return None
        if name not in vals:
            return None
        return App("flag", (Const(vals[name]), Const(cls.qual)))

    def _bind_method(self, r, obj, cls, st, site, force_bind=False):
        _, node, owner = r
        fv = FuncV(node, owner.mod, owner=owner)
        names = [d.id for d in node.decorator_list if isinstance(d, ast.Name)]
        # functools.cached_property: a property whose first result is kept in the instance's own dictionary
        cached = [d for d in node.decorator_list if (isinstance(d, ast.Name) and d.id == "cached_property")
                  or (isinstance(d, ast.Attribute) and d.attr == "cached_property" and isinstance(d.value, ast.Name) and d.value.id == "functools")]
        user = [d for d in node.decorator_list if not (isinstance(d, ast.Name) and d.id in self._BUILTIN_DECOS) and d not in cached]
        val = fv
        if user:
            key = ("deco", fv._key)
            if key not in self.policy._cache:
                self.policy._cache[key] = self.apply_decorators(fv, user, self._class_env(owner), self.world.static if self.world.static is not None else st)
            val = self.policy._cache[key]
        if "classmethod" in names:
            return [(st, Bound(val, cls))]
        if "staticmethod" in names:
            return [(st, val)]
        if cached:
            if obj is None:
                return [(st, val)]
            res = []
            for o in self.call(val, (obj,), (), st, site):
                if isinstance(obj, Obj) and obj.oid in o.state.heap:
                    o.state.heap[obj.oid][node.name] = o.value          # later reads find the instance attribute first
                    o.state.log.append(("memo-store", obj, node.name, o.value, site))   # not an effect of the caller: a pure function of the instance, kept
                res.append((o.state, o.value))
            return res
        if "property" in names:
            if obj is None:
                return [(st, val)]
            return [(o.state, o.value) for o in self.call(val, (obj,), (), st, site)]
        if obj is not None:
            return [(st, Bound(val, obj))]
        return [(st, val)]

    def e_Subscript(self, n, env, st):
        res = []
        for s1, o in self.expr(n.value, env, st):
            if isinstance(n.slice, ast.Slice):
                parts = [n.slice.lower, n.slice.upper, n.slice.step]
                outs = [(s1, ())]
                for p in parts:
                    nxt = []
                    for (s2, acc) in outs:
                        if p is None:
                            nxt.append((s2, acc + (NONE,)))
                        else:
                            for (s3, v) in self.expr(p, env, s2):
                                nxt.append((s3, acc + (v,)))
                    outs = nxt
                for (s2, acc) in outs:
                    res.append((s2, mk_app("slice", (o,) + acc)))
            else:
                for s2, k in self.expr(n.slice, env, s1):
                    res += self.subscript(o, k, s2, self.site(n, env))
        return res

    def subscript(self, o, k, st, site):
        if is_app(o, "msc"):
            init = self.msc_view(o)
            if init is not None:
                return self.subscript(init, k, st, site)
            if getattr(self, "try_keyerr", 0) > 0:
                self.do_raise(st.fork(), "KeyError", site)       # the miss, inside a try that handles it
            return [(st, App("index", (o, k)))]
        if isinstance(o, DictV) and _is_closed(k):
            kk = _py(k)
            if isinstance(kk, list):
                kk = tuple(kk)
            if kk in o.items:
                return [(st, o.items[kk])]
            self.do_raise(st, "KeyError", site, kk)
            return []
        if isinstance(o, TupleV) and isinstance(k, Const) and isinstance(k.v, int):
            if -len(o.items) <= k.v < len(o.items):
                return [(st, o.items[k.v])]
            self.do_raise(st, "IndexError", site, k.v)
            return []
        if isinstance(o, Obj) and o.cls.lookup("__getitem__"):
            return [(x.state, x.value) for x in self.call_method(o, "__getitem__", (k,), st, site)]
        return [(st, mk_app("index", (o, k)))]

    _OPNAMES = {"Add": "add", "Sub": "sub", "Mult": "mul", "Mod": "mod", "FloorDiv": "floordiv",
                "Div": "truediv", "Pow": "pow", "LShift": "lshift", "RShift": "rshift", "BitAnd": "and",
                "BitOr": "or", "BitXor": "xor", "MatMult": "matmul"}

    def binop(self, op, l, r, st, site):
        nm = self._OPNAMES.get(op)
        if isinstance(l, Obj) and nm and l.cls.lookup("__%s__" % nm):
            return [(o.state, o.value) for o in self.call_method(l, "__%s__" % nm, (r,), st, site)]
        if isinstance(r, Obj) and nm and r.cls.lookup("__r%s__" % nm):
            return [(o.state, o.value) for o in self.call_method(r, "__r%s__" % nm, (l,), st, site)]
        return [(st, mk_app(op, (l, r)))]

    def e_BinOp(self, n, env, st):
        res = []
        op = type(n.op).__name__
        for s1, l in self.expr(n.left, env, st):
            for s2, r in self.expr(n.right, env, s1):
                res += self.binop(op, l, r, s2, self.site(n, env))
        return res

    def e_UnaryOp(self, n, env, st):
        res = []
        op = type(n.op).__name__
        for s1, v in self.expr(n.operand, env, st):
            if op == "Not":
                t = self.truth(v)
                if t is not None:
                    res.append((s1, Const(not t)))
                else:
                    res.append((s1, mk_app("Not", (v,))))
            elif op == "USub" and isinstance(v, Obj) and v.cls.lookup("__neg__"):
                res += [(o.state, o.value) for o in self.call_method(v, "__neg__", (), s1, self.site(n, env))]
            else:
                res.append((s1, mk_app(op, (v,))))
        return res

    def e_BoolOp(self, n, env, st):
        isand = isinstance(n.op, ast.And)
        outs = []
        site = self.site(n, env)
        if len(n.values) == 2 and isinstance(n.values[1], ast.Constant) and not isinstance(n.values[1].value, bool):
            # `x or 1` / `x and 0` as a *value*: the second operand has no effect, no need to fork
            res = []
            for s1, v in self.expr(n.values[0], env, st):
                t = self.truth(v)
                c = Const(n.values[1].value)
                if t is None:
                    res.append((s1, App("Or" if not isand else "And", (v, c))))
                else:
                    res.append((s1, c if (t == isand) else v))
            return res

        def go(i, s1):
            for s2, v in self.expr(n.values[i], env, s1):
                if i == len(n.values) - 1:
                    outs.append((s2, v))
                    continue
                for s3, b in self.branch(v, s2, site):
                    if b == isand:
                        go(i + 1, s3)
                    else:
                        outs.append((s3, v if self.truth(v) is not None else Const(b)))
        go(0, st)
        return outs

    def msc_view(self, v):
        """The value to compute with: while importing, the contents as written so far by the import
        itself (a real, deterministic execution); afterwards None = unknown (any history)."""
        if is_app(v, "msc"):
            if not self.importing:
                return None
            store = self.world.__dict__.setdefault("_msc_store", {})
            cur = store.get(v.args[0].v, v.args[1])
            if is_app(cur, "set", "dict", "list", "defaultdict", "OrderedDict") and not cur.args:
                cur = DictV(()) if cur.f in ("dict", "defaultdict", "OrderedDict") else TupleV((), "set" if cur.f == "set" else "list")
            return cur
        return v

    def msc_write(self, v, op, args):
        """Track writes to a shared container made by the import itself (closed keys only)."""
        if not self.importing:
            return
        store = self.world.__dict__.setdefault("_msc_store", {})
        cur = self.msc_view(v)
        try:
            if op == "[]=" and isinstance(cur, DictV):
                d = dict(cur.items)
                d[_py(args[0])] = args[1]
                store[v.args[0].v] = DictV(d.items())
            elif op == "add" and isinstance(cur, TupleV) and cur.kind == "set":
                if not any(i == args[0] for i in cur.items):
                    store[v.args[0].v] = TupleV(cur.items + (args[0],), "set")
            elif op == "append" and isinstance(cur, TupleV):
                store[v.args[0].v] = TupleV(cur.items + (args[0],), cur.kind)
            elif op == "clear":
                store[v.args[0].v] = DictV(()) if isinstance(cur, DictV) else TupleV((), cur.kind)
        except (ValueError, TypeError):
            pass

    def compare(self, op, a, b, st, site):
        """-> [(state, term)]"""
        if op in ("In", "NotIn") and isinstance(b, IterV):
            b = self.take(b, st)                         # `x in iterator` consumes the iterator
        if is_app(b, "msc") and op in ("In", "NotIn"):
            init = self.msc_view(b)
            if init is not None:
                if isinstance(init, DictV) and _is_closed(a):
                    kk = _py(a)
                    kk = tuple(kk) if isinstance(kk, list) else kk
                    return [(st, Const((kk in init.items) == (op == "In")))]
                if isinstance(init, TupleV):
                    # import is one concrete execution: two different terms written by it are
                    # taken to be different values (no accidental cache hit during import)
                    return [(st, Const(any(i == a for i in init.items) == (op == "In")))]
                return self.compare(op, a, init, st, site)
            return [(st, App(op, (a, b)))]
        if op in ("Eq", "NotEq"):
            for x, y in ((a, b), (b, a)):
                if isinstance(x, Obj):
                    r = x.cls.lookup("__eq__" if op == "Eq" else "__ne__")
                    if r is None and op == "NotEq" and x.cls.lookup("__eq__"):
                        outs = self.call_method(x, "__eq__", (y,), st, site)
                        return [(o.state, mk_app("Not", (o.value,))) for o in outs]
                    if r is not None:
                        outs = self.call_method(x, "__eq__" if op == "Eq" else "__ne__", (y,), st, site)
                        return [(o.state, o.value) for o in outs]
        if op in ("Lt", "LtE", "Gt", "GtE"):
            if isinstance(a, Obj):
                dn = {"Lt": "__lt__", "LtE": "__le__", "Gt": "__gt__", "GtE": "__ge__"}[op]
                if a.cls.lookup(dn):
                    return [(o.state, o.value) for o in self.call_method(a, dn, (b,), st, site)]
        if op in ("In", "NotIn") and isinstance(b, Obj) and b.cls.lookup("__contains__"):
            outs = self.call_method(b, "__contains__", (a,), st, site)
            return [(o.state, o.value if op == "In" else mk_app("Not", (o.value,))) for o in outs]
        return [(st, mk_app(op, (a, b)))]

    def e_Compare(self, n, env, st):
        res = []
        site = self.site(n, env)
        for s1, l in self.expr(n.left, env, st):
            for s2, comps in self._seq(n.comparators, env, s1):
                vals = (l,) + comps
                outs = [(s2, [])]
                for i, op in enumerate(n.ops):
                    nxt = []
                    for s3, acc in outs:
                        for s4, t in self.compare(type(op).__name__, vals[i], vals[i + 1], s3, site):
                            nxt.append((s4, acc + [t]))
                    outs = nxt
                for s3, terms in outs:
                    if len(terms) == 1:
                        res.append((s3, terms[0]))
                    elif any(isinstance(t, Const) and not t.v for t in terms):
                        res.append((s3, FALSE))
                    else:
                        live = [t for t in terms if not isinstance(t, Const)]
                        if not live:
                            res.append((s3, TRUE))
                        elif len(live) == 1:
                            res.append((s3, live[0]))
                        else:
                            res.append((s3, App("And", live)))
        return res

    def e_IfExp(self, n, env, st):
        res = []
        for s1, v in self.expr(n.test, env, st):
            for s2, b in self.branch(v, s1, self.site(n, env)):
                res += self.expr(n.body if b else n.orelse, env, s2)
        return res

    def e_Lambda(self, n, env, st):
        return [(st, FuncV(n, env["mod"], closure=env))]

    def _opaque_expr(self, tag, n, env, st):
        # term identity must depend on the free variables' values
        free = sorted({x.id for x in ast.walk(n) if isinstance(x, ast.Name) and isinstance(x.ctx, ast.Load)})
        bound = {x.id for x in ast.walk(n) if isinstance(x, ast.Name) and isinstance(x.ctx, ast.Store)}
        vals = []
        for nm in free:
            if nm in bound:
                continue
            v = self.lookup_name(nm, env, st)
            if v is not None and not isinstance(v, ExtV):
                vals.append(TupleV([Const(nm), v]))
        st.approx.append((self.site(n, env), tag))
        return [(st, App(tag, [Const(ast.unparse(n))] + vals))]

    def _comp_map(self, tag, n, env, st):
        """[elt for v in it] with one generator and no filter: map(lambda v: elt, it).
        A known list is mapped element-wise; otherwise the result is maplam(body, it)
        with the bound variable replaced by a positional placeholder (name-independent)."""
        g = n.generators[0] if n.generators else None
        simple_t = g is not None and (isinstance(g.target, ast.Name) or (isinstance(g.target, (ast.Tuple, ast.List))
                                                                         and all(isinstance(e, ast.Name) for e in g.target.elts)))
        if len(n.generators) != 1 or g.is_async or not simple_t:
            return self._opaque_expr(tag, n, env, st)
        if g.ifs:
            # over a known sequence a filter is applied item by item when its conditions fold to
            # constants for every item (e.g. `name in names`); otherwise the comprehension stays opaque.
            # Over an unknown (lazy) iterable it becomes a filter stage (see below).
            probe = self.expr(g.iter, env, st.fork())
            for s0, v in probe:
                v = self.take(v, s0)
                if isinstance(v, DictV):
                    v = TupleV([_const_term(k) for k in v.items], "list")
                if isinstance(v, (TupleV, Const)):
                    items = v.items if isinstance(v, TupleV) else [_const_term(x) for x in v.v]
                    for item in items:
                        e2 = self._cp(env)
                        e2["locals"] = dict(e2["locals"])
                        self.assign(g.target, item, e2, s0, self.site(n, env))
                        for cnd in g.ifs:
                            cv = self.expr(cnd, e2, s0.fork())
                            if len(cv) != 1 or self.truth(cv[0][1]) is None:
                                return self._opaque_expr(tag, n, env, st)
        res = []
        for s1, it in self.expr(g.iter, env, st):
            it = self.take(it, s1)
            if isinstance(it, DictV):
                it = TupleV([_const_term(k) for k in it.items], "list")          # iterating a dict: its keys, in order
            if isinstance(it, Const) and isinstance(it.v, (bytes, str, tuple, list)) and len(it.v) <= 256:
                it = TupleV([_const_term(x) for x in it.v], "list")       # iterating a constant: its items
            if isinstance(it, TupleV):
                outs = [(s1, ())]
                for item in it.items:
                    nxt = []
                    for s2, acc in outs:
                        e2 = self._cp(env)
                        e2["locals"] = dict(e2["locals"])
                        if not self.assign(g.target, item, e2, s2, self.site(n, env)):
                            continue
                        keep = True
                        for cnd in g.ifs:                       # (checked above: folds to a constant for this item)
                            cv = self.expr(cnd, e2, s2.fork())
                            if len(cv) == 1 and self.truth(cv[0][1]) is False:
                                keep = False
                        if not keep:
                            nxt.append((s2, acc))
                            continue
                        if tag == "dictcomp":
                            for s3, kk in self.expr(n.key, e2, s2):
                                for s4, v in self.expr(n.value, e2, s3):
                                    nxt.append((s4, acc + ((kk, v),)))
                        else:
                            for s3, v in self.expr(n.elt, e2, s2):
                                nxt.append((s3, acc + (v,)))
                    outs = nxt
                for s2, acc in outs:
                    if tag == "dictcomp":
                        if all(isinstance(kk, Const) for kk, _ in acc):
                            res.append((s2, DictV([(kk.v, v) for kk, v in acc])))
                        else:
                            res += self._opaque_expr(tag, n, env, s2)
                    elif tag == "setcomp":
                        res.append((s2, mk_app("set", (TupleV(acc, "list"),))))
                    elif tag == "genexp":
                        res.append((s2, self.new_iter(TupleV(acc, "list"), s2)))
                    else:
                        res.append((s2, TupleV(acc, "list")))
                continue
            if tag in ("dictcomp", "setcomp"):
                res += self._opaque_expr(tag, n, env, s1)
                continue
            ph = Sym("\u03bb%d" % self.depth)
            e2 = self._cp(env)
            e2["locals"] = dict(e2["locals"])
            if not self.assign(g.target, ph, e2, s1, self.site(n, env)):
                res += self._opaque_expr(tag, n, env, s1)
                continue
            mark = len(self.raised)
            src = it
            ok = True
            for cnd in g.ifs:              # (elt for v in it if c): a filter stage below the mapping
                cb = self.expr(cnd, e2, s1.fork())
                if len(cb) != 1 or len(self.raised) > mark:
                    ok = False
                    break
                src = App("filterlam", (cb[0][1], src))
            bodies = self.expr(n.elt, e2, s1.fork()) if ok else []
            if len(bodies) != 1 or len(self.raised) > mark:
                del self.raised[mark:]
                res += self._opaque_expr(tag, n, env, s1)
                continue
            res.append((s1, mk_app("maplam", (bodies[0][1], src))))
        return res

    def e_ListComp(self, n, env, st):
        return self._comp_map("listcomp", n, env, st)

    def e_GeneratorExp(self, n, env, st):
        return self._comp_map("genexp", n, env, st)

    def e_SetComp(self, n, env, st):
        return self._comp_map("setcomp", n, env, st)

    def e_DictComp(self, n, env, st):
        return self._comp_map("dictcomp", n, env, st)

    def e_JoinedStr(self, n, env, st):
        # an f-string whose pieces are all known strings/ints (no conversion, no format spec) is a constant
        parts = []
        for v in n.values:
            if isinstance(v, ast.Constant) and isinstance(v.value, str):
                parts.append(v.value)
                continue
            if isinstance(v, ast.FormattedValue) and v.conversion == -1 and v.format_spec is None and isinstance(v.value, ast.Name):
                x = self.lookup_name(v.value.id, env, st)
                if isinstance(x, Const) and isinstance(x.v, (str, int)) and not isinstance(x.v, bool):
                    parts.append(str(x.v))
                    continue
            return self._opaque_expr("fstring", n, env, st)
        return [(st, Const("".join(parts)))]

    def e_NamedExpr(self, n, env, st):
        out = []
        for s1, v in self.expr(n.value, env, st):
            env["locals"][n.target.id] = v
            out.append((s1, v))
        return out

    # generators: the body is evaluated eagerly and the yielded values collected per path (the
    # laziness of a generator only moves effects/exceptions to the point of consumption)
    def _yield(self, env, v, st, site):
        if "<yields>" not in env["locals"]:
            raise AnalysisError("%s:%d: yield outside a generator function" % (site[0], site[1]))
        env["locals"]["<yields>"] = env["locals"]["<yields>"] + (v,)

    def e_Yield(self, n, env, st):
        site = self.site(n, env)
        if n.value is None:
            self._yield(env, NONE, st, site)
            return [(st, NONE)]
        outs = self.expr(n.value, env, st)
        if len(outs) > 1:
            raise AnalysisError("%s:%d: yield of an expression that forks" % (site[0], site[1]))
        for s1, v in outs:
            self._yield(env, v, s1, site)
        return [(s1, NONE) for s1, _ in outs]

    def e_YieldFrom(self, n, env, st):
        site = self.site(n, env)
        outs = self.expr(n.value, env, st)
        outs = [(s1, self.take(v, s1)) for s1, v in outs]
        if len(outs) == 1 and not isinstance(outs[0][1], TupleV):
            env["locals"]["<yields-unknown>"] = outs[0][1]        # what the generator yields cannot be enumerated
            return [(outs[0][0], NONE)]
        if len(outs) > 1:
            raise AnalysisError("%s:%d: yield from an expression that forks" % (site[0], site[1]))
        for s1, v in outs:
            for item in v.items:
                self._yield(env, item, s1, site)
        return [(s1, NONE) for s1, _ in outs]

    def e_Starred(self, n, env, st):
        return [(s, App("star", [v])) for s, v in self.expr(n.value, env, st)]

    # ------------------------------------------------------------------ calls
    def e_Call(self, n, env, st):
        res = []
        site = self.site(n, env)
        # super() needs the lexical class
        if isinstance(n.func, ast.Name) and n.func.id == "super" and not n.args:
            f = env.get("func")
            if f is not None and f.owner is not None and "self_value" in env:
                return [(st, SuperV(f.owner, env["self_value"]))]
        # mutator call on a local container: x.append(v) etc.
        if isinstance(n.func, ast.Attribute) and n.func.attr in _MUTATORS and isinstance(n.func.value, ast.Name):
            r = self._local_mutation(n, env, st, site)
            if r is not None:
                return r
        for s1, f in self.expr(n.func, env, st):
            for s2, args in self._seq(n.args, env, s1):
                kwn = [k.arg for k in n.keywords]
                for s3, kwv in self._seq([k.value for k in n.keywords], env, s2):
                    kws = []
                    opaque_star = any(is_app(a, "star") for a in args)
                    for k, v in zip(kwn, kwv):
                        if k is None:
                            if isinstance(v, DictV) and all(isinstance(x, str) for x in v.items):
                                kws.extend(v.items.items())     # **{...} with known keys
                            else:
                                opaque_star = True
                        else:
                            kws.append((k, v))
                    if opaque_star:
                        s3.approx.append((site, "star-args"))
                        res.append((s3, App("call*", (f,) + tuple(args) + tuple(kwv))))
                        continue
                    mark = len(s3.pmut)
                    outs = self.call(f, args, tuple(kws), s3, site)
                    upd = {tuple((a._key, b._key) for a, b in o.state.pmut[mark:]) for o in outs if o.kind == "return"}
                    if len(upd) > 1:
                        raise AnalysisError("%s:%d: a callee updates its argument in place differently on different paths" % (site[0], site[1]))
                    for o in outs[:1] if upd and upd != {()} else ():
                        for (old, new) in o.state.pmut[mark:]:
                            for a in list(n.args) + [k.value for k in n.keywords]:
                                if isinstance(a, ast.Name) and a.id in env["locals"] and env["locals"][a.id] == old:
                                    env["locals"][a.id] = new
                    for o in outs:
                        res.append((o.state, o.value))
        return res

    def _local_mutation(self, n, env, st, site):
        name = n.func.value.id
        if name not in env["locals"]:
            return None
        cur = env["locals"][name]
        meth = n.func.attr
        if is_app(cur, "sha256obj") and meth == "update" and len(n.args) == 1 and name not in env.get("params", ()):
            out = []
            for s2, args in self._seq(n.args, env, st):
                prev = cur.args[0] if cur.args else Const(b"")
                env["locals"][name] = App("sha256obj", (mk_app("cat", (prev, args[0])),))   # h.update(x): h hashes prev || x
                out.append((s2, NONE))
            return out
        if not isinstance(cur, (TupleV, DictV)) or (isinstance(cur, TupleV) and cur.kind == "tuple"):
            return None
        if env.get("toplevel") is None and name in env.get("params", ()):
            return None    # parameter: the container belongs to the caller (judged by C16)
        out = []
        for s2, args in self._seq(n.args, env, st):
            args = tuple(self.take(a, s2) for a in args)
            new = None
            if isinstance(cur, TupleV) and cur.kind == "list":
                if meth == "append" and len(args) == 1:
                    new = TupleV(cur.items + (args[0],), "list")
                elif meth == "extend" and len(args) == 1 and isinstance(args[0], TupleV):
                    new = TupleV(cur.items + args[0].items, "list")
                elif meth == "insert" and len(args) == 2 and isinstance(args[0], Const):
                    items = list(cur.items)
                    items.insert(args[0].v, args[1])
                    new = TupleV(items, "list")
                elif meth == "reverse" and not args:
                    new = TupleV(cur.items[::-1], "list") if not any(is_app(i, "star") for i in cur.items) else mk_app("rev", (cur,))
            elif isinstance(cur, DictV):
                if meth == "update" and len(args) == 1 and isinstance(args[0], TupleV):
                    args = (mk_app("dict", (args[0],)),)           # d.update(iterable of (key, value) pairs)
                if meth == "update" and len(args) == 1 and isinstance(args[0], DictV):
                    d = dict(cur.items)
                    d.update(args[0].items)
                    new = DictV(d.items())
                elif meth == "__setitem__" and len(args) == 2 and isinstance(args[0], Const):
                    d = dict(cur.items)
                    d[args[0].v] = args[1]
                    new = DictV(d.items())
            if new is None:
                return None
            env["locals"][name] = new
            out.append((s2, NONE))
        return out

    def call(self, f, args, kw, st, site):
        """-> [Outcome(kind='return')]; raising paths go to self.raised."""
        self.burn()
        args = tuple(args)
        if isinstance(f, Bound):
            return self.call(f.func, (f.recv,) + args, kw, st, site)
        if isinstance(f, FuncV):
            return self._invoke(f, args, kw, st, site)
        if isinstance(f, ClassV):
            return self._instantiate(f, args, kw, st, site)
        if isinstance(f, ExtV):
            return self._call_ext(f, args, kw, st, site)
        if isinstance(f, App) and f.f == "getattr" and len(f.args) == 2 and isinstance(f.args[1], Const):
            recv, name = f.args
            return self._call_opaque_method(recv, name.v, args, kw, st, site)
        if isinstance(f, Obj) and f.cls.lookup("__call__"):
            return self.call_method(f, "__call__", args, st, site, kw)
        st.log.append(("call-unknown", f, args, site))
        return [Outcome("return", App("call", (f,) + args, kw), st)]

    def call_method(self, obj, name, args, st, site, kw=()):
        out = []
        for s1, m in self.getattr(obj, name, st, site):
            out += self.call(m, args, kw, s1, site)
        return out

    @staticmethod
    def _struct_fields(fmt):
        """struct format made of byte fields only ('c' and '<n>s', n a constant or a %d argument) -> [(kind, width term)]"""
        import re
        if isinstance(fmt, Const) and isinstance(fmt.v, str):
            text, extra = fmt.v, []
        elif is_app(fmt, "fmt") and fmt.args and isinstance(fmt.args[0], Const) and isinstance(fmt.args[0].v, str):
            text, extra = fmt.args[0].v, list(fmt.args[1:])
            if len(extra) == 1 and isinstance(extra[0], TupleV):
                extra = list(extra[0].items)
        else:
            return None
        m = re.match(r"^[@=<>!]?((?:c|%ds|[0-9]+s)+)$", text)
        if not m:
            return None
        out = []
        for tok in re.findall(r"c|%ds|[0-9]+s", m.group(1)):
            if tok == "c":
                out.append(("c", Const(1)))
            elif tok == "%ds":
                if not extra:
                    return None
                out.append(("s", extra.pop(0)))
            else:
                out.append(("s", Const(int(tok[:-1]))))
        return None if extra else out

    def _call_opaque_method(self, recv, name, args, kw, st, site):
        args = tuple(self.take(a, st) for a in args)
        if is_app(recv, "struct.Struct") and len(recv.args) == 1 and not kw and name in ("pack", "unpack", "unpack_from"):
            # struct.Struct over byte fields only: pack concatenates (an 's' field pads / truncates to its width), unpack needs
            # exactly the total size, unpack_from at least the total size - and ignores what follows
            fields = self._struct_fields(recv.args[0])
            if fields is not None:
                if name == "pack" and len(args) == len(fields):
                    parts = []
                    for (kind, w), a in zip(fields, args):
                        exact = kind == "c" or mk_app("len", (a,)) == w
                        if not exact and is_app(a, ".to_bytes") and len(a.args) == 1 and is_app(w, "getattr") and len(w.args) == 2 \
                                and w.args[1] == Const("element_size_bytes"):
                            exact = True    # group interface: to_bytes() of an element is exactly element_size_bytes long (C15 K3/K5 widths)
                        parts.append(a if exact else mk_app("structfit", (a, w)))
                    return [Outcome("return", mk_app("cat", tuple(parts)), st)]
                if name in ("unpack", "unpack_from") and len(args) == 1:
                    buf = args[0]
                    total = Const(0)
                    for _, w in fields:
                        total = mk_app("Add", (total, w))
                    ln = mk_app("len", (buf,))
                    test = mk_app("Eq", (ln, total)) if name == "unpack" else mk_app("LtE", (total, ln))
                    out = []
                    for s1, b in self.branch(test, st, site):
                        if not b:
                            self.do_raise(s1, "error", site)          # struct.error
                            continue
                        items, pos = [], Const(0)
                        for i, (_, w) in enumerate(fields):
                            end = mk_app("Add", (pos, w))
                            last = i == len(fields) - 1 and name == "unpack"
                            items.append(mk_app("slice", (buf, pos if pos != Const(0) else NONE, NONE if last else end, NONE)))
                            pos = end
                        out.append(Outcome("return", TupleV(items), s1))
                    return out
        if name in ("startswith", "endswith", "removeprefix", "removesuffix") and len(args) == 1 and not kw \
                and isinstance(args[0], Const) and isinstance(args[0].v, (bytes, str)) and ty_of(recv) in ("bytes", "str") \
                and not isinstance(recv, Const):
            k = len(args[0].v)
            head = name in ("startswith", "removeprefix")
            part = mk_app("slice", (recv, NONE, Const(k), NONE)) if head else mk_app("slice", (recv, Const(-k), NONE, NONE))
            test = mk_app("Eq", (part, args[0])) if k else Const(True)
            if name in ("startswith", "endswith"):
                return [Outcome("return", test, st)]
            out = []
            for s1, b in self.branch(test, st, site):
                rest = mk_app("slice", (recv, Const(k), NONE, NONE)) if head else mk_app("slice", (recv, NONE, Const(-k), NONE))
                out.append(Outcome("return", (rest if k else recv) if b else recv, s1))
            return out
        if is_app(recv, "msc"):
            if name in _MUTATORS:
                st.log.append(("mutator-call", recv, name, args, site))
                st.log.append(("shared-container-write", recv, name, site))
                self.msc_write(recv, name, args)
                return [Outcome("return", App("." + name, (recv,) + tuple(args)) if not self.importing else NONE, st)]
            init = self.msc_view(recv)
            if init is not None:
                return self._call_opaque_method(init, name, args, kw, st, site)
            st.log.append(("shared-container-read", recv, name, site))
            return [Outcome("return", App("." + name, (recv,) + tuple(args), kw), st)]
        if isinstance(recv, Const) and name in _PURE_CONST_METHODS and all(_is_closed(a) for a in args) and not kw:
            try:
                v = getattr(recv.v, name)(*[_py(a) for a in args])
                return [Outcome("return", _term(v), st)]
            except Exception as e:
                self.do_raise(st, type(e).__name__, site, str(e)[:60])
                return []
        if isinstance(recv, DictV) and not recv.items and name == "get" and args:
            return [Outcome("return", args[1] if len(args) > 1 else NONE, st)]
        if isinstance(recv, DictV):
            if name == "get" and args and isinstance(args[0], Const):
                dflt = args[1] if len(args) > 1 else NONE
                return [Outcome("return", recv.items.get(args[0].v, dflt), st)]
            if name == "keys" and not args:
                return [Outcome("return", TupleV([Const(k) for k in recv.items], "list"), st)]
            if name == "values" and not args:
                return [Outcome("return", TupleV(list(recv.items.values()), "list"), st)]
            if name == "items" and not args:
                return [Outcome("return", TupleV([TupleV([_const_term(k), v], "tuple") for k, v in recv.items.items()], "list"), st)]
            if name == "copy" and not args:
                return [Outcome("return", recv, st)]
        if isinstance(recv, TupleV) and name == "copy" and not args:
            return [Outcome("return", recv, st)]
        if name in _MUTATORS and not (isinstance(recv, App) and recv.f in ("sha256obj",)):
            st.log.append(("mutator-call", recv, name, args, site))
        st.log.append(("method-call", recv, name, args, site))
        return [Outcome("return", mk_app("." + name, (recv,) + tuple(args), kw), st)]

    def _call_ext(self, f, args, kw, st, site):
        name = f.name[9:] if f.name.startswith("builtins.") else f.name
        if name == "next" and args and isinstance(args[0], IterV) and "items" in st.heap.get(args[0].oid, {}):
            cur = st.heap[args[0].oid]["items"]
            if cur.items:
                st.heap[args[0].oid] = {"items": TupleV(list(cur.items[1:]), "list")}
                return [Outcome("return", cur.items[0], st)]
            if len(args) > 1:
                return [Outcome("return", args[1], st)]
            self.do_raise(st, "StopIteration", site)
            return []
        if name == "next" and len(args) == 1 and self.loop_mode == "once" and isinstance(args[0], App) \
                and (args[0].f in ("maplam", "filterlam", "filter", "map") or args[0].f.startswith("fn:")):
            st.log.append(("loop-enter", site))
            return [Outcome("return", v, s1) for s1, v in self.elem_of(args[0], st, site)]
        if name not in ("isinstance", "id", "type", "callable"):
            args = tuple(self.take(a, st) for a in args)         # whoever receives an iterator consumes it
        if name in ("itertools.chain", "itertools.chain.from_iterable") and not kw:
            parts = list(args) if name == "itertools.chain" else (list(args[0].items) if len(args) == 1 and isinstance(args[0], TupleV) else None)
            parts = None if parts is None else [self.take(p_, st) for p_ in parts]
            if parts is not None and all(isinstance(p_, TupleV) for p_ in parts):
                return [Outcome("return", self.new_iter(TupleV([i for p_ in parts for i in p_.items], "list"), st), st)]
        if name in ("zip", "enumerate", "reversed", "iter", "filter") and not (name == "iter" and len(args) != 1):
            v = mk_app(name, args, kw) if name != "iter" else args[0]
            if isinstance(v, TupleV):
                return [Outcome("return", self.new_iter(v, st), st)]
        if name == "functools.reduce" and len(args) in (2, 3) and not kw and isinstance(args[1], TupleV) \
                and (isinstance(args[0], (FuncV, Bound)) or (isinstance(args[0], ExtV) and args[0].name in _OPERATOR_BINOPS)):
            items = list(args[1].items)
            if len(args) == 3:
                items = [args[2]] + items
            if items:
                outs = [(st, items[0])]
                for item in items[1:]:
                    nxt = []
                    for s1, acc in outs:
                        if isinstance(args[0], ExtV):
                            nxt += self.binop(_OPERATOR_BINOPS[args[0].name], acc, item, s1, site)
                        else:
                            nxt += [(o.state, o.value) for o in self.call(args[0], (acc, item), (), s1, site)]
                    outs = nxt
                return [Outcome("return", v, s1) for s1, v in outs]
        if name == "map" and len(args) == 2 and not kw and isinstance(args[1], TupleV) and isinstance(args[0], (FuncV, Bound, ClassV)):
            # map(f, known sequence): element-wise (evaluated eagerly, like a generator)
            outs = [(st, ())]
            for item in args[1].items:
                nxt = []
                for s1, acc in outs:
                    for o in self.call(args[0], (item,), (), s1, site):
                        nxt.append((o.state, acc + (o.value,)))
                outs = nxt
            return [Outcome("return", self.new_iter(TupleV(acc, "list"), s1), s1) for s1, acc in outs]
        if name == "isinstance" and len(args) == 2:
            if isinstance(args[1], Obj) or (not isinstance(args[1], (TupleV, ClassV, ExtV)) and ty_of(args[1]) in ("int", "bytes", "str", "bool", "list", "bytearray")):
                # isinstance(T, x) with the operands exchanged: arg 2 is a value, not a class
                self.do_raise(st, "TypeError", site, "isinstance() arg 2 must be a type, a tuple of types, or a union")
                return []
            r = self._isinstance(args[0], args[1])
            if r is not None:
                return [Outcome("return", Const(r), st)]
            return [Outcome("return", App("isinstance", args), st)]
        if name == "issubclass" and len(args) == 2 and isinstance(args[0], ClassV) and isinstance(args[1], ClassV):
            return [Outcome("return", Const(args[1] in args[0].mro()), st)]
        if name in ("getattr", "hasattr") and len(args) >= 2 and isinstance(args[1], Const) \
                and isinstance(args[0], (Obj, ClassV, ModV)):
            mark = len(self.raised)
            r = self.getattr(args[0], args[1].v, st, site)
            got_exc = len(self.raised) > mark
            del self.raised[mark:]
            if name == "hasattr":
                return [Outcome("return", Const(bool(r) and not got_exc), st)]
            if r:
                return [Outcome("return", v, s) for s, v in r]
            if len(args) == 3:
                return [Outcome("return", args[2], st)]
            self.do_raise(st, "AttributeError", site, args[1].v)
            return []
        if name in ("setattr", "getattr", "delattr", "hasattr") and len(args) >= 2 and not isinstance(args[1], Const):
            raise AnalysisError("%s: %s() with an attribute name that does not fold to a constant" % (site, name))
        if name == "object.__setattr__" and len(args) == 3 and isinstance(args[1], Const) and isinstance(args[0], Obj):
            name = "setattr"            # the frozen-dataclass idiom: a plain store on the instance
        if name == "setattr" and len(args) == 3 and isinstance(args[1], Const):
            self.store_attr(args[0], args[1].v, args[2], st, site)
            return [Outcome("return", NONE, st)]
        if name == "callable" and len(args) == 1 and isinstance(args[0], (FuncV, Bound, ClassV, ExtV)):
            return [Outcome("return", TRUE, st)]
        if name == "tuple" and len(args) == 1 and isinstance(args[0], TupleV):
            return [Outcome("return", TupleV(args[0].items, "tuple"), st)]
        if name == "list" and len(args) == 1 and isinstance(args[0], TupleV):
            return [Outcome("return", TupleV(args[0].items, "list"), st)]
        if name == "list" and not args:
            return [Outcome("return", TupleV((), "list"), st)]
        if name == "dict" and not args:
            return [Outcome("return", DictV([(k, v) for k, v in kw]), st)]
        if name == "dict" and len(args) == 1 and isinstance(args[0], DictV) and not kw:
            return [Outcome("return", args[0], st)]
        if name == "len" and len(args) == 1 and is_app(args[0], "msc"):
            init = self.msc_view(args[0])
            if init is not None:
                return [Outcome("return", mk_app("len", (init,)), st)]
            return [Outcome("return", App("len", args), st)]
        if name == "len" and len(args) == 1 and isinstance(args[0], Obj) and args[0].cls.lookup("__len__"):
            return self.call_method(args[0], "__len__", (), st, site)
        st.log.append(("ext-call", name, args, site))
        return [Outcome("return", mk_app(name, args, kw), st)]

    def _isinstance(self, o, c):
        if isinstance(c, TupleV):
            rs = [self._isinstance(o, k) for k in c.items]
            if any(r is True for r in rs):
                return True
            if all(r is False for r in rs):
                return False
            return None
        if isinstance(o, Obj):
            if isinstance(c, ClassV):
                return c in o.cls.mro()
            if isinstance(c, ExtV):
                return c.name == "builtins.object"
        if isinstance(c, ExtV) and c.name.startswith("builtins."):
            t = ty_of(o)
            want = c.name[9:]
            if t is not None:
                if t == want or (t == "bool" and want == "int"):
                    return True
                if want in ("int", "bytes", "str", "bool", "tuple", "list", "dict", "float", "bytearray"):
                    return False
            if isinstance(o, (FuncV, ClassV, Bound, ModV)) and want in ("int", "bytes", "str", "tuple", "list", "dict"):
                return False
        if isinstance(c, ClassV) and (isinstance(o, (Const, TupleV, DictV)) or ty_of(o) in ("int", "bytes", "str", "bool")):
            return False
        return None

    @staticmethod
    def _is_dataclass_deco(d):
        d = d.func if isinstance(d, ast.Call) else d
        return (isinstance(d, ast.Name) and d.id == "dataclass") or (isinstance(d, ast.Attribute) and d.attr == "dataclass")

    def _dataclass_init(self, cls, site):
        """The __init__ that @dataclass synthesises for cls (fields = annotated class-level names of the dataclasses in
        the MRO, bases first; field(init=False) / default / default_factory honoured; __post_init__ called last), as a
        FunctionDef - or None when cls is not a dataclass.  Any other class decorator that is not a package function is
        outside the analysable subset (a class decorator may replace the class altogether)."""
        memo = self.world.__dict__.setdefault("_dc_init", {})
        if cls.qual in memo:
            return memo[cls.qual]
        res = None
        decos = list(cls.node.decorator_list)
        if decos:
            if not all(self._is_dataclass_deco(d) for d in decos):
                other = [ast.unparse(d) for d in decos if not self._is_dataclass_deco(d)]
                raise AnalysisError("%s:%d: class decorator %s is outside the analysable subset - no verdict"
                                    % (cls.mod.relpath, cls.node.lineno, ", ".join(other)))
            params, body = [], []
            seen = {}
            for c in reversed(cls.mro()):
                if not any(self._is_dataclass_deco(d) for d in c.node.decorator_list):
                    continue
                for stmt in c.node.body:
                    if isinstance(stmt, ast.AnnAssign) and isinstance(stmt.target, ast.Name) and "ClassVar" not in ast.unparse(stmt.annotation):
                        seen[stmt.target.id] = stmt
            for nm, stmt in seen.items():
                v = stmt.value
                is_field = isinstance(v, ast.Call) and ((isinstance(v.func, ast.Name) and v.func.id == "field") or
                                                         (isinstance(v.func, ast.Attribute) and v.func.attr == "field"))
                kws = {k.arg: k.value for k in v.keywords} if is_field else {}
                in_init = not (is_field and isinstance(kws.get("init"), ast.Constant) and kws["init"].value is False)
                default = None
                if is_field:
                    if "default" in kws:
                        default = ast.unparse(kws["default"])
                    elif "default_factory" in kws:
                        default = "(%s)()" % ast.unparse(kws["default_factory"])
                elif v is not None:
                    default = ast.unparse(v)
                if in_init:
                    params.append(nm if default is None else "%s=%s" % (nm, default))
                    body.append("    self.%s = %s" % (nm, nm))
                elif default is not None:
                    body.append("    self.%s = %s" % (nm, default))
            pi = cls.lookup("__post_init__")
            if pi is not None and pi[0] == "func":
                body.append("    self.__post_init__()")
            src = "def __init__(self%s):\n%s\n" % ("".join(", " + p_ for p_ in params), "\n".join(body) or "    pass")
            res = ast.parse(src).body[0]
            for x in ast.walk(res):
                if hasattr(x, "lineno"):
                    x.lineno = cls.node.lineno
                    x.end_lineno = cls.node.lineno
            res._parent = cls.node
        memo[cls.qual] = res
        return res

    def _instantiate(self, cls, args, kw, st, site):
        if cls.is_exception():
            return [Outcome("return", App("exc:" + cls.qual, args, kw), st)]
        if cls.extbases and cls.extbases != ["object"]:
            st.approx.append((site, "external base class"))
        o = self.new_obj(cls, st)
        st.log.append(("alloc", o, site))
        init = cls.lookup("__init__")
        dc = self._dataclass_init(cls, site)
        if dc is not None and (init is None or init[0] != "func"):
            init = ("func", dc, cls)
        if init is None or init[0] != "func":
            if args or kw:
                ext = [b for k_ in cls.mro() for b in k_.extbases if b.rsplit(".", 1)[-1] != "object"]
                if ext:
                    # the constructor comes from a base class outside the package (NamedTuple, Enum, ...): not modelled -
                    # and therefore not a decided failure
                    raise AnalysisError("%s:%d: %s(...) is constructed by its external base class %s: outside the analysable subset - no verdict"
                                        % (cls.mod.relpath, cls.node.lineno, cls.name, ext[0]))
                self.do_raise(st, "TypeError", site, "%s() takes no arguments" % cls.name)
                return []
            return [Outcome("return", o, st)]
        fv = FuncV(init[1], init[2].mod, owner=init[2])
        outs = self._invoke(fv, (o,) + tuple(args), kw, st, site, force_inline=True)
        return [Outcome("return", o, x.state) for x in outs]

    def bind_args(self, f, args, kw, st, site):
        """-> dict name->term, or None (after recording a TypeError)."""
        a = f.node.args
        posonly = [x.arg for x in a.posonlyargs]
        names = posonly + [x.arg for x in a.args]
        konly = [x.arg for x in a.kwonlyargs]
        loc = {}
        extra_pos = ()
        if len(args) > len(names):
            if a.vararg is None:
                self.do_raise(st, "TypeError", site, "too many positional arguments for %s" % f.qual)
                return None
            extra_pos = tuple(args[len(names):])
        for nme, v in zip(names, args):
            loc[nme] = v
        extra_kw = []
        for k, v in kw:
            if k in loc or k in posonly or (k not in names and k not in konly):
                if a.kwarg is not None and k not in loc:
                    extra_kw.append((k, v))
                    continue
                self.do_raise(st, "TypeError", site, "bad keyword %s for %s" % (k, f.qual))
                return None
            loc[k] = v
        if a.vararg is not None:
            loc[a.vararg.arg] = TupleV(extra_pos, "tuple")
        if a.kwarg is not None:
            loc[a.kwarg.arg] = DictV(extra_kw)
        denv = {"locals": {}, "mod": f.mod, "closure": f.closure, "fname": f.qual}
        nd = len(a.defaults)
        for nme, d in zip(names[len(names) - nd:], a.defaults):
            if nme not in loc:
                loc[nme] = self.msc_wrap(("default", id(f.node), nme), self.expr(d, denv, st)[0][1])
        for nme, d in zip(konly, a.kw_defaults):
            if nme not in loc and d is not None:
                loc[nme] = self.msc_wrap(("default", id(f.node), nme), self.expr(d, denv, st)[0][1])
        for nme in names + konly:
            if nme not in loc:
                self.do_raise(st, "TypeError", site, "missing argument %s for %s" % (nme, f.qual))
                return None
        return loc

    def _invoke(self, f, args, kw, st, site, force_inline=False):
        self.burn(5)
        if self.trace_calls is not None:
            self.trace_calls.append((f, args, kw, site))
        loc = self.bind_args(f, args, kw, st, site)
        if loc is None:
            return []
        a = f.node.args
        order = [x.arg for x in a.posonlyargs] + [x.arg for x in a.args] + [x.arg for x in a.kwonlyargs] \
            + ([a.vararg.arg] if a.vararg else []) + ([a.kwarg.arg] if a.kwarg else [])
        ordered = tuple(loc[n] for n in order)
        mode = "inline" if force_inline else self.policy.decide(f, ordered)
        if f.qual in self.unfold_once:
            mode = "opaque" if f.qual in self.active else "inline"
        if mode == "inline" and self.depth >= self.maxdepth:
            raise AnalysisError("call depth budget exceeded at %s" % f.qual)
        if mode == "try":
            if self.loop_mode == "once" or self.depth >= self.maxdepth - 2:
                mode = "opaque"
            else:
                mark_r, mark_c, depth0, active0 = len(self.raised), len(self.continues), self.depth, len(self.active)
                try:
                    return self._invoke(f, args, kw, st.fork(), site, force_inline=True)
                except LoopNotUnrollable:
                    del self.raised[mark_r:]
                    del self.continues[mark_c:]
                    self.depth = depth0
                    del self.active[active0:]
                    mode = "opaque"
        if mode != "inline":
            st.log.append(("opaque-call", f, ordered, site))
            call = App("fn:" + f.qual, ordered)
            n = self.policy.ret_shape(f)
            if n:
                call = TupleV([App("proj", (call, Const(i))) for i in range(n)], "tuple")
            return [Outcome("return", call, st)]
        env = {"locals": loc, "mod": f.mod, "closure": f.closure, "func": f, "fname": f.qual,
               "params": tuple(order)}
        if order and f.owner is not None:
            env["self_value"] = loc[order[0]]
        is_gen = self.policy.is_generator(f)
        if is_gen:
            loc["<yields>"] = ()
            st.approx.append((site, "generator %s evaluated eagerly" % f.qual))
        self.depth += 1
        self.active.append(f.qual)
        try:
            if isinstance(f.node, ast.Lambda):
                out = [Outcome("return", v, s) for s, v in self.expr(f.node.body, env, st)]
            else:
                paths = self.block(f.node.body, env, st)
                out = []
                for p in paths:
                    if is_gen and p.kind == "normal" and "<yields-unknown>" in p.val["locals"]:
                        out.append(Outcome("return", App("generator:" + f.qual, ordered + (p.val["locals"]["<yields-unknown>"],)), p.st))
                    elif is_gen and p.kind == "normal":
                        out.append(Outcome("return", self.new_iter(TupleV(list(p.val["locals"].get("<yields>", ())), "list"), p.st), p.st))
                    elif is_gen and p.kind == "return":      # (s_Return of a generator returns what was yielded so far)
                        out.append(Outcome("return", self.new_iter(p.val, p.st), p.st))
                    elif p.kind == "return":
                        out.append(Outcome("return", p.val, p.st))
                    elif p.kind == "normal":
                        out.append(Outcome("return", NONE, p.st))
                    elif p.kind == "continue":
                        self.continues.append(p)
                    else:
                        raise AnalysisError("'%s' escaped from %s" % (p.kind, f.qual))
        finally:
            self.depth -= 1
            self.active.pop()
        if len(out) + len(self.raised) > self.maxpaths:
            raise AnalysisError("path budget exceeded in %s (%d paths)" % (f.qual, len(out) + len(self.raised)))
        return out

    # ------------------------------------------------------------------ statements
    def block(self, stmts, env, st):
        paths = [Path(st, "normal", env)]
        for stn in stmts:
            nxt = []
            for p in paths:
                if p.kind != "normal":
                    nxt.append(p)
                    continue
                nxt += self.stmt(stn, p.val, p.st)
            paths = nxt
            if len(paths) > self.maxpaths:
                raise AnalysisError("path budget exceeded at %s:%d" % (env["mod"].relpath, stn.lineno))
        return paths

    def stmt(self, n, env, st):
        self.burn()
        meth = getattr(self, "s_" + type(n).__name__, None)
        if meth is None:
            raise AnalysisError("%s:%d: unsupported statement %s" % (env["mod"].relpath, n.lineno, type(n).__name__))
        return meth(n, env, st)

    @staticmethod
    def _cp(env):
        e2 = dict(env)
        if not env.get("toplevel") or env.get("toplevel_copy"):
            e2["locals"] = dict(env["locals"])
        return e2

    def s_Expr(self, n, env, st):
        if isinstance(n.value, ast.Constant):
            return [Path(st, "normal", env)]
        if isinstance(n.value, ast.Yield) and env.get("yield_handler") is not None:
            return self._yield_to_consumer(n, env, st)
        e2 = self._cp(env)
        outs = self.expr(n.value, e2, st)
        if len(outs) <= 1:
            return [Path(s, "normal", e2) for s, _ in outs]
        return [Path(s, "normal", self._cp(e2)) for s, _ in outs]

    # generator fusion (one-iteration mode): `for x in gen(...)` with a generator that cannot be run to
    # completion (an unbounded candidate search) is evaluated as the generator's body with each
    # `yield v` standing for one execution of the consumer's loop body with x = v
    def _yield_to_consumer(self, n, env, st):
        site = self.site(n, env)
        e2 = self._cp(env)
        outs = self.expr(n.value.value, e2, st) if n.value.value is not None else [(st, NONE)]
        if env["yield_handler"] == "first":
            return [Path(s1, "gen-return", v) for s1, v in outs]      # the element asked for by next()/a pipeline
        (cn, cenv) = env["yield_handler"]
        res = []
        for s1, v in outs:
            ce = self._cp(cenv)
            self.assign(cn.target, v, ce, s1, site)
            for q in self.block(cn.body, ce, s1):
                if q.kind in ("normal", "continue"):
                    res.append(Path(q.st, "normal", self._cp(e2)))       # the generator resumes after the yield
                elif q.kind == "break":
                    res.append(Path(q.st, "gen-break", q.val))
                elif q.kind == "return":
                    res.append(Path(q.st, "gen-return", q.val))
                else:
                    res.append(q)
        return res

    @staticmethod
    def _subst_lambda(body, x):
        """body[placeholder := x]; placeholders of nested mappings stay bound to those mappings"""
        def go(t):
            if isinstance(t, Sym) and t.n.startswith("\u03bb"):
                return x
            if isinstance(t, App):
                if t.f in ("maplam", "filterlam") and len(t.args) == 2:
                    return mk_app(t.f, (t.args[0], go(t.args[1])))
                return mk_app(t.f, [go(a) for a in t.args], [(k, go(v)) for k, v in t.kw])
            if isinstance(t, TupleV):
                return TupleV([go(a) for a in t.items], t.kind)
            if isinstance(t, DictV):
                return DictV([(k, go(v)) for k, v in t.items.items()])
            return t
        return go(body)

    def elem_of(self, it, st, site):
        """One symbolic element delivered by a lazy iterable (one-iteration mode): -> [(state, element)].
        Mappings are applied, filters become path conditions (a rejected item is a way round the loop:
        recorded in self.continues), an unbounded generator is run up to its first yield."""
        if is_app(it, "maplam") and len(it.args) == 2:
            return [(s1, self._subst_lambda(it.args[0], x)) for s1, x in self.elem_of(it.args[1], st, site)]
        if is_app(it, "filterlam") and len(it.args) == 2:
            out = []
            for s1, x in self.elem_of(it.args[1], st, site):
                for s2, b in self.branch(self._subst_lambda(it.args[0], x), s1, site):
                    if b:
                        out.append((s2, x))
                    else:
                        self.continues.append(Path(s2, "continue", {"locals": {}}))
            return out
        if is_app(it, "filter", "map") and len(it.args) == 2 and isinstance(it.args[0], (FuncV, Bound, ClassV)):
            out = []
            for s1, x in self.elem_of(it.args[1], st, site):
                for o in self.call(it.args[0], (x,), (), s1, site):
                    if it.f == "map":
                        out.append((o.state, o.value))
                        continue
                    for s2, b in self.branch(o.value, o.state, site):
                        if b:
                            out.append((s2, x))
                        else:
                            self.continues.append(Path(s2, "continue", {"locals": {}}))
            return out
        if isinstance(it, App) and it.f.startswith("fn:") and self.loop_mode == "once":
            g = None
            for (m_, q_, node_) in self.world.functions():
                if m_.name + "." + q_ == it.f[3:]:
                    parent = getattr(node_, "_parent", None)
                    g = FuncV(node_, m_, owner=m_.env.get(parent.name) if isinstance(parent, ast.ClassDef) else None)
            if g is not None and self.policy.is_generator(g) and g.owner is None:
                loc = self.bind_args(g, it.args, (), st, site)
                if loc is not None:
                    a = g.node.args
                    order = [x.arg for x in a.posonlyargs] + [x.arg for x in a.args] + [x.arg for x in a.kwonlyargs]
                    loc["<yields>"] = ()
                    genv = {"locals": loc, "mod": g.mod, "closure": g.closure, "func": g, "fname": g.qual,
                            "params": tuple(order), "yield_handler": "first"}
                    st.approx.append((site, "generator %s run up to its first yield" % g.qual))
                    self.depth += 1
                    self.active.append(g.qual)
                    try:
                        paths = self.block(g.node.body, genv, st)
                    finally:
                        self.depth -= 1
                        self.active.pop()
                    out = []
                    for p in paths:
                        if p.kind == "gen-return":
                            out.append((p.st, p.val))
                        elif p.kind == "continue":
                            self.continues.append(p)
                    return out
        return [(st, App("iter-elem", [it]))]

    def _fuse_generator(self, n, env, st):
        """-> paths of `for <target> in <generator call>` by fusion, or None when it does not apply."""
        if self.loop_mode != "once" or not isinstance(n.iter, ast.Call) or n.orelse:
            return None
        fouts = self.expr(n.iter.func, env, st.fork())
        if len(fouts) != 1:
            return None
        f = fouts[0][1]
        recv = ()
        if isinstance(f, Bound):
            recv, f = (f.recv,), f.func
        if not isinstance(f, FuncV) or not self.policy.is_generator(f) or self.policy.classify(f) != "loop" \
                or any(isinstance(a, ast.Starred) for a in n.iter.args) or any(k.arg is None for k in n.iter.keywords):
            return None
        site = self.site(n, env)
        aouts = self._seq(n.iter.args, env, st)
        if len(aouts) != 1:
            return None
        s1, args = aouts[0]
        kouts = self._seq([k.value for k in n.iter.keywords], env, s1)
        if len(kouts) != 1:
            return None
        s2, kwv = kouts[0]
        loc = self.bind_args(f, recv + tuple(args), tuple(zip([k.arg for k in n.iter.keywords], kwv)), s2, site)
        if loc is None:
            return []
        a = f.node.args
        order = [x.arg for x in a.posonlyargs] + [x.arg for x in a.args] + [x.arg for x in a.kwonlyargs]
        cenv = self._havoc_carried(n, env)
        loc["<yields>"] = ()
        genv = {"locals": loc, "mod": f.mod, "closure": f.closure, "func": f, "fname": f.qual, "params": tuple(order),
                "yield_handler": (n, cenv)}
        s2.approx.append((site, "generator %s fused with the loop that consumes it" % f.qual))
        s2.log.append(("loop-enter", site))
        self.depth += 1
        self.active.append(f.qual)
        try:
            paths = self.block(f.node.body, genv, s2)
        finally:
            self.depth -= 1
            self.active.pop()
        out = []
        for p in paths:
            if p.kind in ("normal", "return"):
                out.append(Path(p.st, "normal", self._cp(cenv)))          # generator exhausted: the loop ends
            elif p.kind == "gen-break":
                out.append(Path(p.st, "normal", p.val))
            elif p.kind == "gen-return":
                out.append(Path(p.st, "return", p.val))
            elif p.kind == "continue":
                self.continues.append(p)
            else:
                out.append(p)
        return out

    def s_Pass(self, n, env, st):
        return [Path(st, "normal", env)]

    def s_Return(self, n, env, st):
        site = self.site(n, env)
        if "<yields>" in env["locals"]:       # generator: `return` ends the iteration; its value is not observable by iteration
            st.log.append(("return", site))
            return [Path(st, "return", TupleV(list(env["locals"]["<yields>"]), "tuple"))]
        if n.value is None:
            st.log.append(("return", site))
            return [Path(st, "return", NONE)]
        out = []
        for s, v in self.expr(n.value, self._cp(env), st):
            s.log.append(("return", site))
            out.append(Path(s, "return", v))
        return out

    def s_Raise(self, n, env, st):
        site = self.site(n, env)
        if n.exc is None:
            cur = env.get("handling")
            if cur is None:
                self.do_raise(st, "RuntimeError", site, "bare raise outside handler")
            else:
                self.raised.append((st, cur, site))
            return []
        for s1, v in self.expr(n.exc, env, st):
            if isinstance(v, ClassV):
                v = App("exc:" + v.qual, ())
            elif isinstance(v, ExtV):
                v = App("exc:" + v.name, ())
            elif isinstance(v, App) and not v.f.startswith("exc:") and v.f not in ("call", "getattr", "index"):
                v = App("exc:" + v.f, v.args, v.kw)
            self.raised.append((s1, v, site))
        return []

    def s_Assert(self, n, env, st):
        out = []
        site = self.site(n, env)
        for s1, v in self.expr(n.test, env, st):
            for s2, b in self.branch(v, s1, site):
                if b:
                    out.append(Path(s2, "normal", env))
                else:
                    self.do_raise(s2, "AssertionError", site, ast.unparse(n.test)[:80])
        if len(out) > 1:
            out = [Path(p.st, "normal", self._cp(env)) for p in out]
        return out

    def s_If(self, n, env, st):
        out = []
        site = self.site(n, env)
        for s1, v in self.expr(n.test, env, st):
            for s2, b in self.branch(v, s1, site):
                out += self.block(n.body if b else n.orelse, self._cp(env), s2)
        return out

    def s_Match(self, n, env, st):
        """match/case over the patterns an if-chain can express: literals and dotted constants, singletons, wildcards,
        captures, or-patterns without captures, and fixed-length sequence patterns on a subject written as a tuple or
        list display.  Desugared into `if` statements on a temporary holding the subject; anything else is outside
        the analysable subset."""
        where = "%s:%d" % (env["mod"].relpath, n.lineno)
        tmp = "<match@%d>" % n.lineno
        lit_seq = isinstance(n.subject, (ast.Tuple, ast.List)) and not any(isinstance(e, ast.Starred) for e in n.subject.elts)

        def L(node):
            return ast.copy_location(node, n)

        def pat(p, subj, seq_ok):
            """-> (test expr or None for 'always', [(name, expr)])"""
            if isinstance(p, ast.MatchValue):
                return L(ast.Compare(left=subj, ops=[ast.Eq()], comparators=[p.value])), []
            if isinstance(p, ast.MatchSingleton):
                return L(ast.Compare(left=subj, ops=[ast.Is()], comparators=[L(ast.Constant(value=p.value))])), []
            if isinstance(p, ast.MatchAs):
                if p.pattern is None:
                    return None, ([(p.name, subj)] if p.name else [])
                t, b = pat(p.pattern, subj, seq_ok)
                return t, b + ([(p.name, subj)] if p.name else [])
            if isinstance(p, ast.MatchOr):
                tests = []
                for q in p.patterns:
                    t, b = pat(q, subj, seq_ok)
                    if b:
                        raise AnalysisError("%s: captures inside an or-pattern are not supported" % where)
                    if t is None:
                        return None, []
                    tests.append(t)
                return L(ast.BoolOp(op=ast.Or(), values=tests)), []
            if isinstance(p, ast.MatchSequence) and seq_ok is not None and not any(isinstance(q, ast.MatchStar) for q in p.patterns):
                if len(p.patterns) != seq_ok:
                    return L(ast.Constant(value=False)), []
                tests, binds = [], []
                for i, q in enumerate(p.patterns):
                    t, b = pat(q, L(ast.Subscript(value=subj, slice=L(ast.Constant(value=i)), ctx=ast.Load())), None)
                    if t is not None:
                        tests.append(t)
                    binds += b
                return (None if not tests else tests[0] if len(tests) == 1 else L(ast.BoolOp(op=ast.And(), values=tests))), binds
            raise AnalysisError("%s: match pattern %s is outside the analysable subset" % (where, type(p).__name__))
        subj = L(ast.Name(id=tmp, ctx=ast.Load()))
        chain = None
        for case in reversed(n.cases):
            t, binds = pat(case.pattern, subj, len(n.subject.elts) if lit_seq else None)
            if case.guard is not None:
                if binds:
                    raise AnalysisError("%s: a case guard together with captures is not supported" % where)
                t = case.guard if t is None else L(ast.BoolOp(op=ast.And(), values=[t, case.guard]))
            body = [L(ast.Assign(targets=[L(ast.Name(id=nm, ctx=ast.Store()))], value=ex)) for nm, ex in binds] + list(case.body)
            if t is None:
                chain = body
            else:
                chain = [L(ast.If(test=t, body=body, orelse=chain or []))]
        prog = [L(ast.Assign(targets=[L(ast.Name(id=tmp, ctx=ast.Store()))], value=n.subject))] + (chain or [])
        for x in prog:
            ast.fix_missing_locations(x)
        return self.block(prog, env, st)

    def s_FunctionDef(self, n, env, st):
        e2 = self._cp(env)
        fv = FuncV(n, env["mod"], closure=None if env.get("toplevel") else e2)
        if n.decorator_list:
            fv = self.apply_decorators(fv, n.decorator_list, e2, st)
        e2["locals"][n.name] = fv
        return [Path(st, "normal", e2)]

    def s_ClassDef(self, n, env, st):
        if env.get("toplevel"):
            env["locals"][n.name] = env["mod"].env[n.name]
            return [Path(st, "normal", env)]
        raise AnalysisError("%s:%d: nested class definition is not supported" % (env["mod"].relpath, n.lineno))

    def s_Import(self, n, env, st):
        e2 = self._cp(env)
        for a in n.names:
            if a.asname:
                e2["locals"][a.asname] = self.world._modref(a.name)
            else:
                top = a.name.split(".")[0]
                e2["locals"][top] = self.world._modref(top)
            if a.name in self.world.mods:
                self.import_module(self.world.mods[a.name])
        return [Path(self.world.static if env.get("toplevel") else st, "normal", e2)]

    def s_ImportFrom(self, n, env, st):
        e2 = self._cp(env)
        w = self.world
        target = w.resolve_from(env["mod"], n)
        for a in n.names:
            sub = (target + "." + a.name) if target else a.name
            v = None
            if target in w.mods:
                tm = w.mods[target]
                if sub in w.mods and a.name not in tm.env:
                    self.import_module(w.mods[sub])
                    v = ModV(sub)
                else:
                    self.import_module(tm)
                    v = tm.globals.get(a.name)
                    if v is None and sub in w.mods:
                        self.import_module(w.mods[sub])
                        v = ModV(sub)
                    if v is None:
                        b = w.static_lookup(tm, a.name)
                        if isinstance(b, (FuncV, ClassV, ModV, ExtV)):
                            v = b
                    if v is None and sub in w.excluded_mods:
                        v = ExtV(sub)
                    if v is None:
                        raise AnalysisError("%s:%d: cannot resolve 'from %s import %s'"
                                            % (env["mod"].relpath, n.lineno, target, a.name))
            elif sub in w.mods:
                self.import_module(w.mods[sub])
                v = ModV(sub)
            else:
                v = ExtV(sub)
            e2["locals"][a.asname or a.name] = v
        # a nested abstract import advances the static state; continue from it
        return [Path(self.world.static if env.get("toplevel") else st, "normal", e2)]

    def s_Global(self, n, env, st):
        e2 = dict(env)
        e2["globals_decl"] = tuple(env.get("globals_decl", ())) + tuple(n.names)
        st.log.append(("global-decl", tuple(n.names), self.site(n, env)))
        return [Path(st, "normal", e2)]

    def s_Nonlocal(self, n, env, st):
        st.log.append(("nonlocal-decl", tuple(n.names), self.site(n, env)))
        raise AnalysisError("%s:%d: nonlocal is not supported" % (env["mod"].relpath, n.lineno))

    def msc_wrap(self, key, v):
        """A container that outlives the call and is mutated somewhere: its contents depend on the
        history of the process.  msc(key, initial): during import it behaves like its initial
        value, afterwards its contents are unknown (any earlier session may have written it)."""
        if key in self.world.shared_containers() and isinstance(v, (TupleV, DictV)) or \
                (key in self.world.shared_containers() and isinstance(v, App) and v.f in ("set", "dict", "list", "defaultdict", "OrderedDict", "deque", "bytearray")):
            return App("msc", (Const(repr(key[:1] + key[2:]) if key[0] == "default" else repr(key)), v))
        return v

    def s_Assign(self, n, env, st):
        out = []
        outs = self.expr(n.value, self._cp(env) if len(n.targets) else env, st)
        if env.get("toplevel") and len(n.targets) == 1 and isinstance(n.targets[0], ast.Name):
            outs = [(s1, self.msc_wrap(("module", env["mod"].name, n.targets[0].id), v)) for s1, v in outs]
        for s1, v in outs:
            e2 = self._cp(env)
            ok = True
            for t in n.targets:
                if not self.assign(t, v, e2, s1, self.site(n, env)):
                    ok = False
            if ok:
                out.append(Path(s1, "normal", e2))
        return out

    def s_AnnAssign(self, n, env, st):
        if n.value is None:
            return [Path(st, "normal", env)]
        fake = ast.Assign(targets=[n.target], value=n.value)
        ast.copy_location(fake, n)
        return self.s_Assign(fake, env, st)

    def s_AugAssign(self, n, env, st):
        out = []
        op = type(n.op).__name__
        site = self.site(n, env)
        load = _as_load(n.target)
        for s1, cur in self.expr(load, env, st):
            for s2, r in self.expr(n.value, env, s1):
                if op == "Add" and isinstance(cur, TupleV) and cur.kind == "list":
                    r = self.take(r, s2)                   # lst += iterator extends the list
                for s3, v in self.binop(op, cur, r, s2, site):
                    e2 = self._cp(env)
                    if self.assign(n.target, v, e2, s3, site, aug=True):
                        out.append(Path(s3, "normal", e2))
        return out

    def store_attr(self, o, name, v, st, site):
        if isinstance(o, Obj):
            st.heap[o.oid][name] = v
            st.log.append(("store", o, name, v, site))
        else:
            st.log.append(("foreign-store", o, name, v, site))

    def assign(self, t, v, env, st, site, aug=False):
        if isinstance(t, ast.Name):
            if t.id in env.get("globals_decl", ()):
                st.log.append(("global-store", env["mod"].name, t.id, v, site))
                env["mod"].globals[t.id] = v if env.get("toplevel") else env["mod"].globals.get(t.id, v)
                return True
            env["locals"][t.id] = v
            return True
        if isinstance(t, (ast.Tuple, ast.List)):
            v = self.take(v, st)
            stars = [i for i, e in enumerate(t.elts) if isinstance(e, ast.Starred)]
            if len(stars) == 1 and isinstance(v, TupleV) and len(v.items) >= len(t.elts) - 1:
                i = stars[0]
                tail = len(t.elts) - 1 - i
                for e, x in zip(t.elts[:i], v.items[:i]):
                    self.assign(e, x, env, st, site)
                self.assign(t.elts[i].value, TupleV(list(v.items[i:len(v.items) - tail]), "list"), env, st, site)
                for e, x in zip(t.elts[i + 1:], v.items[len(v.items) - tail:]):
                    self.assign(e, x, env, st, site)
                return True
            if len(stars) == 1 and stars[0] == len(t.elts) - 1 and not isinstance(v, TupleV):
                for j, e in enumerate(t.elts[:-1]):
                    self.assign(e, mk_app("index", (v, Const(j))), env, st, site)
                self.assign(t.elts[-1].value, mk_app("slice", (v, Const(len(t.elts) - 1), NONE, NONE)), env, st, site)
                return True
            if isinstance(v, TupleV):
                if len(v.items) != len(t.elts):
                    self.do_raise(st, "ValueError", site, "unpack length mismatch")
                    return False
                for e, x in zip(t.elts, v.items):
                    self.assign(e, x, env, st, site)
                return True
            for i, e in enumerate(t.elts):
                self.assign(e, mk_app("index", (v, Const(i))), env, st, site)
            return True
        if isinstance(t, ast.Attribute):
            outs = self.expr(t.value, env, st)
            if len(outs) != 1:
                raise AnalysisError("%s:%d: forking store target" % (env["mod"].relpath, t.lineno))
            self.store_attr(outs[0][1], t.attr, v, st, site)
            return True
        if isinstance(t, ast.Subscript):
            outs = self.expr(t.value, env, st)
            if len(outs) != 1:
                raise AnalysisError("%s:%d: forking store target" % (env["mod"].relpath, t.lineno))
            base = outs[0][1]
            if isinstance(t.slice, ast.Slice):
                st.log.append(("sub-store", base, App("slice", ()), v, site, _base_name(t.value)))
                return True
            kouts = self.expr(t.slice, env, st)
            k = kouts[0][1]
            local = isinstance(t.value, ast.Name) and t.value.id in env["locals"] \
                and t.value.id not in env.get("params", ()) and not env.get("toplevel")
            if local and isinstance(base, DictV) and isinstance(k, Const):
                d = dict(base.items)
                d[k.v] = v
                env["locals"][t.value.id] = DictV(d.items())
                return True
            if local and isinstance(base, TupleV) and base.kind == "list" and isinstance(k, Const) \
                    and isinstance(k.v, int) and -len(base.items) <= k.v < len(base.items):
                items = list(base.items)
                items[k.v] = v
                env["locals"][t.value.id] = TupleV(items, "list")
                return True
            if is_app(base, "msc"):
                st.log.append(("sub-store", base, k, v, site, _base_name(t.value)))
                st.log.append(("shared-container-write", base, "[]=", site))
                self.msc_write(base, "[]=", (k, v))
                return True
            if local and isinstance(base, (App, TupleV)) and not isinstance(t.slice, ast.Slice):
                # functional update of a local (non-parameter) sequence/mapping value
                env["locals"][t.value.id] = mk_app("setitem", (base, k, v))
                return True
            st.log.append(("sub-store", base, k, v, site, _base_name(t.value)))
            if isinstance(t.value, ast.Name) and t.value.id in env["locals"] and t.value.id in env.get("params", ()) \
                    and not env.get("toplevel") and isinstance(base, (App, TupleV)):
                # in-place update of a sequence the caller passed in: the callee sees the new value from here
                # on, and so does the caller (written back to the argument's name when the call returns)
                if isinstance(base, TupleV) and base.kind == "list" and isinstance(k, Const) and isinstance(k.v, int) \
                        and -len(base.items) <= k.v < len(base.items):
                    items = list(base.items)
                    items[k.v] = v
                    new = TupleV(items, "list")
                else:
                    new = mk_app("setitem", (base, k, v))
                env["locals"][t.value.id] = new
                st.pmut.append((base, new))
            return True
        if isinstance(t, ast.Starred):
            raise AnalysisError("%s:%d: starred assignment target" % (env["mod"].relpath, t.lineno))
        raise AnalysisError("unsupported assignment target %s" % type(t).__name__)

    def s_Delete(self, n, env, st):
        e2 = self._cp(env)
        for t in n.targets:
            if isinstance(t, ast.Name):
                e2["locals"].pop(t.id, None)
            elif isinstance(t, ast.Attribute):
                for s1, o in self.expr(t.value, env, st):
                    if isinstance(o, Obj):
                        st.heap[o.oid].pop(t.attr, None)
                        st.log.append(("store", o, t.attr, App("<deleted>"), self.site(n, env)))
                    else:
                        st.log.append(("foreign-store", o, t.attr, App("<deleted>"), self.site(n, env)))
            else:
                for s1, o in self.expr(t.value, env, st):
                    st.log.append(("sub-store", o, App("<del>"), App("<deleted>"), self.site(n, env), _base_name(t.value)))
        return [Path(st, "normal", e2)]

    # -- loops: only in 'once' mode, one symbolic iteration (DESIGN 3.4)
    def _loop_once(self, n, env, st, bind):
        if self.loop_mode != "once":
            raise LoopNotUnrollable("%s:%d" % (env["mod"].relpath, n.lineno))
        e2 = self._cp(env)
        bind(e2)
        st.approx.append((self.site(n, env), "loop body evaluated for one symbolic iteration"))
        st.log.append(("loop-enter", self.site(n, env)))
        paths = self.block(n.body, e2, st)
        out = []
        for p in paths:
            if p.kind in ("normal", "continue"):
                self.continues.append(Path(p.st, "continue", p.val))
            elif p.kind == "break":
                out.append(Path(p.st, "normal", p.val))
            else:
                out.append(p)
        return out

    def _havoc_carried(self, n, env):
        """One *symbolic* iteration: a local that exists before the loop and is assigned in its body
        holds, at the head of the k-th iteration, some value of the same type (Sym 'loop:<name>').
        The pre-loop values are kept in self.loop_entries so that a rule can argue by induction."""
        if self.loop_mode != "once":
            return env
        e2 = self._cp(env)
        carried = {}
        for x in n.body:
            for y in ast.walk(x):
                if isinstance(y, ast.Name) and isinstance(y.ctx, ast.Store) and y.id in e2["locals"]:
                    carried[y.id] = e2["locals"][y.id]
                # a local container mutated in place in the body is carried as well
                if isinstance(y, ast.Call) and isinstance(y.func, ast.Attribute) and y.func.attr in _MUTATORS \
                        and isinstance(y.func.value, ast.Name) and y.func.value.id in e2["locals"] \
                        and isinstance(e2["locals"][y.func.value.id], (TupleV, DictV)):
                    carried[y.func.value.id] = e2["locals"][y.func.value.id]
                if isinstance(y, ast.Subscript) and isinstance(y.ctx, ast.Store) and isinstance(y.value, ast.Name) \
                        and y.value.id in e2["locals"] and isinstance(e2["locals"][y.value.id], (TupleV, DictV)):
                    carried[y.value.id] = e2["locals"][y.value.id]
        for name, pre in carried.items():
            if isinstance(pre, TupleV) and pre.kind == "list":
                # an arbitrary list: the unknown items so far, as one splat element (appends stay visible)
                e2["locals"][name] = TupleV([App("star", (Sym("loop:" + name, "list"),))], "list")
            else:
                e2["locals"][name] = Sym("loop:" + name, ty_of(pre))
        self.loop_entries.append((self.site(n, env), carried))
        return e2

    def s_While(self, n, env, st):
        out = []
        site = self.site(n, env)
        env = self._havoc_carried(n, env)
        for s1, v in self.expr(n.test, env, st):
            for s2, b in self.branch(v, s1, site):
                if b:
                    out += self._loop_once(n, env, s2, lambda e: None)
                else:
                    out += self.block(n.orelse, self._cp(env), s2)
        return out

    def s_For(self, n, env, st):
        fused = self._fuse_generator(n, env, st)
        if fused is not None:
            return fused
        out = []
        site = self.site(n, env)
        iters = [(s0, self.take(it, s0)) for s0, it in self.expr(n.iter, env, st)]
        iters = [(s0, TupleV([_const_term(k) for k in it.items], "list") if isinstance(it, DictV) else it) for s0, it in iters]
        iters = [(s0, TupleV([_const_term(x) for x in it.v], "list") if isinstance(it, Const) and isinstance(it.v, (bytes, str, tuple, list))
                  and len(it.v) <= 256 else it) for s0, it in iters]
        if any(isinstance(it, TupleV) and len(it.items) > UNROLL_MAX for _, it in iters):
            raise LoopNotUnrollable("%s:%d (more than %d iterations)" % (env["mod"].relpath, n.lineno, UNROLL_MAX))
        if all(isinstance(it, TupleV) for _, it in iters) and iters:
            # a loop over a sequence of known length is unrolled
            for s1, it in iters:
                paths = [Path(s1, "normal", self._cp(env))]
                for item in it.items:
                    nxt = []
                    for p in paths:
                        if p.kind != "normal":
                            nxt.append(p)
                            continue
                        e2 = self._cp(p.val)
                        self.assign(n.target, item, e2, p.st, site)
                        for q in self.block(n.body, e2, p.st):
                            if q.kind == "continue":
                                nxt.append(Path(q.st, "normal", q.val))
                            else:
                                nxt.append(q)
                    paths = nxt
                    if len(paths) > self.maxpaths:
                        raise AnalysisError("path budget exceeded while unrolling the loop at %s:%d" % (site[0], site[1]))
                for p in paths:
                    if p.kind == "break":
                        out.append(Path(p.st, "normal", p.val))
                    elif p.kind == "normal" and n.orelse:
                        out += self.block(n.orelse, p.val, p.st)
                    else:
                        out.append(p)
            return out
        env0 = env
        env = self._havoc_carried(n, env)
        for s1, it in iters:
            if self.loop_mode == "once":
                for s1b, el in self.elem_of(it, s1, site):
                    def bind(e, el=el, s1b=s1b):
                        self.assign(n.target, el, e, s1b, site)
                    out += self._loop_once(n, env, s1b, bind)
            else:
                def bind(e, it=it, s1=s1):
                    self.assign(n.target, App("iter-elem", [it]), e, s1, site)
                out += self._loop_once(n, env, s1, bind)
            # the zero-iteration exit (not for unbounded iterators)
            if not _unbounded(it):
                s0 = s1.fork()
                s0.pc.append((App("exhausted", [it]), True, site))
                out += self.block(n.orelse, self._cp(env0), s0)
                if env is not env0 and any(env["locals"].get(k) is not env0["locals"].get(k) for k in env["locals"]):
                    # the exit after one or more iterations: carried locals hold their (arbitrary) loop values
                    s2 = s1.fork()
                    s2.pc.append((App("exhausted-after", [it]), True, site))
                    out += self.block(n.orelse, self._cp(env), s2)
        return out

    def s_Break(self, n, env, st):
        return [Path(st, "break", env)]

    def s_Continue(self, n, env, st):
        return [Path(st, "continue", env)]

    def s_With(self, n, env, st):
        e2 = self._cp(env)
        s1 = st
        for item in n.items:
            outs = self.expr(item.context_expr, e2, s1)
            if len(outs) != 1:
                raise AnalysisError("%s:%d: forking with-item" % (env["mod"].relpath, n.lineno))
            s1, v = outs[0]
            s1.approx.append((self.site(n, env), "with-statement"))
            s1.log.append(("with", v, self.site(n, env)))
            if item.optional_vars is not None:
                self.assign(item.optional_vars, mk_app(".__enter__", (v,)), e2, s1, self.site(n, env))
        return self.block(n.body, e2, s1)

    def s_Try(self, n, env, st):
        site = self.site(n, env)
        mark = len(self.raised)
        # a lookup in a shared container of unknown contents may miss: explored only where the program itself expects it
        def _names(h):
            t = h.type
            if t is None:
                return {"KeyError"}
            els = t.elts if isinstance(t, ast.Tuple) else [t]
            return {e.id if isinstance(e, ast.Name) else getattr(e, "attr", "") for e in els}
        expects_miss = any(_names(h) & {"KeyError", "LookupError", "Exception", "BaseException"} for h in n.handlers)
        self.try_keyerr = getattr(self, "try_keyerr", 0) + (1 if expects_miss else 0)
        try:
            body_paths = self.block(n.body, self._cp(env), st)
        finally:
            self.try_keyerr -= 1 if expects_miss else 0
        caught = self.raised[mark:]
        del self.raised[mark:]
        assigned = set()
        for b in n.body:
            for x in ast.walk(b):
                if isinstance(x, ast.Name) and isinstance(x.ctx, ast.Store):
                    assigned.add(x.id)
        out = []
        # normal completion -> else
        for p in body_paths:
            if p.kind == "normal" and n.orelse:
                out += self.block(n.orelse, p.val, p.st)
            else:
                out.append(p)
        for (s1, e, rsite) in caught:
            handled = False
            for h in n.handlers:
                m = self._handler_matches(h, e, env, s1)
                if m is None:
                    s1.approx.append((site, "undecidable except clause"))
                    m = True
                if m:
                    e2 = self._cp(env)
                    for nm in assigned:
                        if nm in e2["locals"] or True:
                            e2["locals"][nm] = App("maybe-assigned-in-try", [Const(nm), Const(site[1])])
                    if assigned:
                        s1.approx.append((site, "locals assigned in try body are unknown in the handler"))
                    if h.name:
                        e2["locals"][h.name] = e
                    e2["handling"] = e
                    out += self.block(h.body, e2, s1)
                    handled = True
                    break
            if not handled:
                self.raised.append((s1, e, rsite))
        if n.finalbody:
            fin = []
            for p in out:
                if p.kind == "normal":
                    fin += self.block(n.finalbody, p.val, p.st)
                else:
                    sub = self.block(n.finalbody, self._cp(env), p.st)
                    for q in sub:
                        fin.append(Path(q.st, p.kind, p.val) if q.kind == "normal" else q)
            out = fin
            new_raised = self.raised[mark:]
            del self.raised[mark:]
            for (s1, e, rsite) in new_raised:
                sub = self.block(n.finalbody, self._cp(env), s1)
                for q in sub:
                    if q.kind == "normal":
                        self.raised.append((q.st, e, rsite))
                    else:
                        out.append(q)
        return out

    def _handler_matches(self, h, e, env, st):
        if h.type is None:
            return True
        outs = self.expr(h.type, env, st)
        if len(outs) != 1:
            return None
        t = outs[0][1]
        cands = t.items if isinstance(t, TupleV) else (t,)
        ec = exc_class(e)
        res = False
        for c in cands:
            if isinstance(c, ClassV):
                if ec is None:
                    return None
                ecv = self._class_by_qual(ec)
                if ecv is not None and c in ecv.mro():
                    return True
            elif isinstance(c, ExtV):
                want = c.name.rsplit(".", 1)[-1]
                if want in ("Exception", "BaseException"):
                    return True
                if ec is None:
                    return None
                ecv = self._class_by_qual(ec)
                if ecv is not None:
                    names = [b.rsplit(".", 1)[-1] for k in ecv.mro() for b in k.extbases]
                else:
                    names = [ec.rsplit(".", 1)[-1]]
                seen = set()
                while names:
                    x = names.pop()
                    if x == want:
                        return True
                    if x in seen:
                        continue
                    seen.add(x)
                    if x in _BUILTIN_EXC_PARENTS:
                        names.append(_BUILTIN_EXC_PARENTS[x])
            else:
                return None
        return res

    def _class_by_qual(self, qual):
        for c in self.world.classes():
            if c.qual == qual:
                return c
        return None

    # ------------------------------------------------------------------ driver
    def run(self, f, args=(), kw=(), st=None, site=("<rule>", 0, "<rule>")):
        """Evaluate callable f on args from state st -> [Outcome] incl. raise outcomes."""
        if st is None:
            st = self.import_all().fork()
        self.fuel = self.fuel0          # budget per entry point
        mark = len(self.raised)
        try:
            outs = self.call(f, tuple(args), tuple(kw), st, site)
        except LoopNotUnrollable as e:
            raise AnalysisError("%s: loop over an unknown sequence reached by inlined evaluation" % e)
        res = list(outs)
        for (s, e, rsite) in self.raised[mark:]:
            res.append(Outcome("raise", e, s, rsite))
        del self.raised[mark:]
        return res

    def run_method(self, obj, name, args=(), kw=(), st=None):
        if st is None:
            raise AnalysisError("run_method needs the state holding the object")
        self.fuel = self.fuel0          # budget per entry point
        mark = len(self.raised)
        got = self.getattr(obj, name, st, ("<rule>", 0, name))
        res = []
        for s1, m in got:
            res += self.call(m, tuple(args), tuple(kw), s1, ("<rule>", 0, name))
        for (s, e, rsite) in self.raised[mark:]:
            res.append(Outcome("raise", e, s, rsite))
        del self.raised[mark:]
        return res


def _as_load(t):
    t2 = ast.parse(ast.unparse(t), mode="eval").body
    for x in ast.walk(t2):
        if hasattr(x, "lineno"):
            x.lineno = getattr(t, "lineno", 0)
    ast.copy_location(t2, t)
    return t2


def _base_name(n):
    while isinstance(n, (ast.Attribute, ast.Subscript)):
        n = n.value
    return n.id if isinstance(n, ast.Name) else None


def _py(t):
    if isinstance(t, Const):
        return t.v
    if isinstance(t, TupleV):
        seq = [_py(i) for i in t.items]
        return tuple(seq) if t.kind == "tuple" else seq
    raise ValueError


def _term(v):
    if isinstance(v, (tuple, list)):
        return TupleV([_term(x) for x in v], "tuple" if isinstance(v, tuple) else "list")
    if isinstance(v, dict):
        return DictV([(k, _term(x)) for k, x in v.items()])
    return Const(v)
