"""Group-level anchors and helpers shared by the per-group rules (C05, C11-C15, C18).

The two group implementations are found through the published parameter modules
(`spake2.parameters.{ed25519,i1024,i2048,i3072}` -> Params*.group), never by
internal helper names.  Formula functions of the Ed25519 arithmetic are classified
*semantically* in the polynomial domain (which one is the complete addition, which
the doubling, which the dedicated addition)."""
import ast

from .loader import AnalysisError
from .terms import (Const, Sym, App, TupleV, Obj, ClassV, FuncV, ModV, is_app, show, subterms, mk_app)
from .poly import Poly, Straight, RawInt
from . import session

PARAM_MODULES = (("Ed25519", "spake2.parameters.ed25519", "ParamsEd25519"),
                 ("1024", "spake2.parameters.i1024", "Params1024"),
                 ("2048", "spake2.parameters.i2048", "Params2048"),
                 ("3072", "spake2.parameters.i3072", "Params3072"))


def shipped_params(world, ev):
    """-> {label: (params Obj, group Obj)} from the static heap."""
    out = {}
    st = world.static
    for label, modname, name in PARAM_MODULES:
        m = world.module(modname)
        v = ev.module_global(m, name, None)
        if not isinstance(v, Obj):
            raise AnalysisError("anchor vanished: %s.%s is not a parameter object" % (modname, name))
        g = st.heap[v.oid].get("group")
        if not isinstance(g, Obj):
            raise AnalysisError("anchor vanished: %s.%s.group" % (modname, name))
        out[label] = (v, g)
    return out


def group_classes(world, ev):
    """-> (integer group class, ed25519 group object)."""
    sp = shipped_params(world, ev)
    ed = sp["Ed25519"][1]
    icls = {sp[k][1].cls for k in ("1024", "2048", "3072")}
    if len(icls) != 1:
        raise AnalysisError("the three integer parameter sets use %d different group classes" % len(icls))
    return icls.pop(), ed


def symbolic_int_group(world, ev):
    """An instance of the integer-group class over symbolic p, q, g ('any valid group')."""
    icls, _ = group_classes(world, ev)
    st = world.static.fork()
    p, q, g = Sym("p", "int"), Sym("q", "int"), Sym("g", "int")
    outs = ev.run(icls, [], [("p", p), ("q", q), ("g", g)], st)
    r = session.rets(outs)
    if not r or len(r) > 16:
        raise AnalysisError("%s(p, q, g) has %d normal construction paths on symbolic constants" % (icls.name, len(r)))
    # several paths arise only from history-dependent shared state (caches); the fullest one is used
    # for the per-method rules, all of them are kept for the constructor obligations (C18)
    r.sort(key=lambda o: -len(o.state.pc))
    r[0].state.ctor_pc = list(r[0].state.pc)
    r[0].state.all_ctor_pcs = [list(o.state.pc) for o in r]
    # constructor assertions are facts about the group, not about later calls - except case splits on
    # the bit lengths of p and q, which decide the *form* of the stored sizes: later calls that
    # recompute a size must land on the same case
    r[0].state.pc = [c for c in r[0].state.pc[len(world.static.pc):]
                     if any(is_app(x, "bit_length") for x in subterms(c[0]))]
    r[0].state.pc = list(world.static.pc) + r[0].state.pc
    return r[0].state, r[0].value, {"p": p, "q": q, "g": g}


def int_element_value(st0, g, s, o):
    """The residue held by integer-group element o (in state s) when o has exactly the field layout of the
    group's Base element (the group where Base holds the group, one value where Base holds g); else None -
    e.g. when the constructor was called with its arguments exchanged."""
    base = st0.heap[g.oid].get("Base")
    if not isinstance(o, Obj) or not isinstance(base, Obj) or o.cls is not base.cls:
        return None
    tmpl, mine = st0.heap[base.oid], s.heap[o.oid]
    if set(tmpl) != set(mine):
        return None
    vals = []
    for k, tv in tmpl.items():
        if tv == g:
            if mine[k] != g:
                return None
        else:
            vals.append(mine[k])
    return vals[0] if len(vals) == 1 else None


def unproj(t):
    """TupleV(proj(c,0..n-1)) -> c ; else None."""
    if isinstance(t, TupleV) and t.items and all(is_app(i, "proj") for i in t.items):
        c = t.items[0].args[0]
        if all(i.args[0] == c and i.args[1] == Const(k) for k, i in enumerate(t.items)):
            return c
    return None


def attr_of(ev, obj, name, st):
    """Value of obj.<name> as the program sees it (instance field, class attribute or property),
    when it is the same on every path; else None."""
    mark = len(ev.raised)
    try:
        outs = ev.getattr(obj, name, st.fork())
    except AnalysisError:
        outs = []
    del ev.raised[mark:]
    vals = {}
    for _, v in outs:
        vals[v._key] = v
    return list(vals.values())[0] if len(vals) == 1 else None


def func_by_qual(world, qual):
    for (m, q, node) in world.functions():
        if m.name + "." + q == qual:
            parent = getattr(node, "_parent", None)
            owner = m.env.get(parent.name) if isinstance(parent, ast.ClassDef) else None
            return FuncV(node, m, owner=owner if isinstance(owner, ClassV) else None)
    return None


# ----------------------------------------------------------------------------
# Ed25519 constants and formula classification

class EdFacts(object):
    pass


def ed_module_of(world, ev):
    """The module that defines the Ed25519 arithmetic = module of the class of ParamsEd25519.group.Base."""
    _, ed = group_classes(world, ev)
    base = world.static.heap[ed.oid].get("Base")
    if not isinstance(base, Obj):
        raise AnalysisError("anchor vanished: Ed25519 group has no Base element object")
    return base.cls.mod, base


def ed_consts(world, ev):
    """Module-level integer constants of the Ed25519 module (folded at abstract import)."""
    m, _ = ed_module_of(world, ev)
    out = {}
    for k, v in m.globals.items():
        if isinstance(v, Const) and isinstance(v.v, int) and not isinstance(v.v, bool):
            out[k] = v.v
    return m, out


def field_prime(world, ev):
    """Q = the modulus used by the on-curve/affine conversions; identified as the module
    constant equal to 2^255-19 (C18 checks that value); falls back to the name Q."""
    m, c = ed_consts(world, ev)
    for k, v in c.items():
        if v == 2 ** 255 - 19:
            return k, v
    if "Q" in c:
        return "Q", c["Q"]
    raise AnalysisError("anchor vanished: no module-level field prime in %s" % m.name)


def curve_d(world, ev):
    """The curve constant used by the formula functions: the module-level integer constant
    (other than the field prime) referenced inside the straight-line 4-tuple formulas.
    Its *value* is an obligation of C12 P4 / C18, not an anchor."""
    m, c = ed_consts(world, ev)
    qn, Q = field_prime(world, ev)
    want = (-121665 * pow(121666, Q - 2, Q)) % Q
    used = []
    for name, v in m.env.items():
        if isinstance(v, FuncV) and ev.policy.ret_shape(v) == 4 and ev.policy.classify(v) == "leaf":
            for n in ast.walk(v.node):
                if isinstance(n, ast.Name) and n.id in c and n.id != qn and n.id not in used:
                    used.append(n.id)
    for k in used:
        if c[k] % Q == want:
            return k, c[k] % Q
    half = pow(2, Q - 2, Q)
    for k in used:
        if c[k] * half % Q == want:        # the formulas use a precomputed 2*d
            return k + "/2", want
    if used:
        return used[0], c[used[0]] % Q
    for k, v in c.items():
        if v % Q == want and k != qn:
            return k, v % Q
    return None, None


def formula_functions(world, ev):
    """Classify the straight-line 4-tuple formula functions of the Ed25519 module in the
    polynomial domain.  -> {FuncV.qual: kind} with kind in
    'add-complete' | 'add-dedicated' | 'double' and the evidence polynomials."""
    m, consts = ed_consts(world, ev)
    qn, Q = field_prime(world, ev)
    dn, d = curve_d(world, ev)
    if d is None:
        raise AnalysisError("anchor vanished: curve constant d = -121665/121666 not found among the module constants")
    res = {}
    helpers = {nm: h.node for nm, h in m.env.items() if isinstance(h, FuncV) and not isinstance(h.node, ast.Lambda)
               and ev.policy.is_leaf_arith(h.node, h.mod)}
    for name, v in m.env.items():
        if not isinstance(v, FuncV):
            continue
        n = v.node
        if ev.policy.ret_shape(v) != 4 or ev.policy.classify(v) != "leaf":
            continue
        nargs = len(n.args.args)
        hs = {k: h for k, h in helpers.items() if h is not n}
        try:
            if nargs == 2:
                res[v.qual] = classify_add(n, Q, d, consts, hs)
            elif nargs == 1:
                res[v.qual] = classify_double(n, Q, d, consts, hs)
        except AnalysisError as e:
            # not in the straight-line subset of the polynomial interpreter: let the evaluator produce the terms
            try:
                out = polys_by_evaluation(world, v, nargs, Q)
                res[v.qual] = classify_add_out(out, Q, d, n.name) if nargs == 2 else classify_double_out(out, Q, d, n.name)
                res[v.qual]["via"] = "evaluator"
            except AnalysisError as e2:
                res[v.qual] = {"kind": None, "error": "%s; %s" % (e, e2)}
    return res


def _pt(Q, x, y, z):
    X, Y, Z = Poly.var(Q, x), Poly.var(Q, y), Poly.var(Q, z)
    return (X * Z, Y * Z, Z, X * Y * Z)


def classify_add(node, Q, d, consts, helpers=None):
    s = Straight(Q, consts, helpers=helpers)
    P1 = _pt(Q, "x1", "y1", "z1")
    P2 = _pt(Q, "x2", "y2", "z2")
    out = s.run(node, [P1, P2])
    return classify_add_out(out, Q, d, node.name)


def classify_add_out(out, Q, d, name="?"):
    if not (isinstance(out, tuple) and len(out) == 4):
        raise AnalysisError("%s does not return a 4-tuple" % name)
    X3, Y3, Z3, T3 = out
    x1, y1, x2, y2 = (Poly.var(Q, v) for v in ("x1", "y1", "x2", "y2"))
    dd = Poly.const(Q, d)
    k = dd * x1 * x2 * y1 * y2
    ex = X3 * (1 + k) - (x1 * y2 + y1 * x2) * Z3
    ey = Y3 * (1 - k) - (y1 * y2 + x1 * x2) * Z3       # a = -1: y3 = (y1y2 + x1x2)/(1 - k)
    et = X3 * Y3 - Z3 * T3
    dinv = pow(d, Q - 2, Q)

    def nf(p):
        return p.reduce_curve("x1", "y1", dinv).reduce_curve("x2", "y2", dinv)
    info = {"raw_zero": [ex.is_zero(), ey.is_zero(), et.is_zero()]}
    z1, z2 = Poly.var(Q, "z1"), Poly.var(Q, "z2")
    if ex.is_zero() and ey.is_zero() and et.is_zero():
        zc = Z3 - 4 * z1 * z1 * z2 * z2 * (1 - k * k)
        info.update(kind="add-complete", z3_form=zc.is_zero(), modulo_curve=False)
        return info
    if nf(ex).is_zero() and nf(ey).is_zero() and nf(et).is_zero():
        zc = nf(Z3 - 4 * z1 * z1 * z2 * z2 * (1 - k * k))
        if zc.is_zero():
            info.update(kind="add-complete", z3_form=True, modulo_curve=True)
            return info
        zd = nf(Z3 - 4 * z1 * z1 * z2 * z2 * (x1 * y2 - y1 * x2) * (y1 * y2 - x1 * x2))
        zd2 = nf(Z3 + 4 * z1 * z1 * z2 * z2 * (x1 * y2 - y1 * x2) * (y1 * y2 - x1 * x2))
        if zd.is_zero() or zd2.is_zero():
            info.update(kind="add-dedicated", z3_form=True, modulo_curve=True)
            return info
        info.update(kind="add-unknown-denominator", z3_form=False, modulo_curve=True)
        return info
    info.update(kind=None, residual=[nf(ex).show(3), nf(ey).show(3), nf(et).show(3)])
    return info


def classify_double(node, Q, d, consts, helpers=None):
    s = Straight(Q, consts, helpers=helpers)
    P1 = _pt(Q, "x1", "y1", "z1")
    out = s.run(node, [P1])
    return classify_double_out(out, Q, d, node.name)


def polys_by_evaluation(world, f, nargs, Q, terms_only=False, plain=False):
    """The coordinates returned by the formula function f on symbolic projective inputs, as
    polynomials - obtained with the forking evaluator (f and the arithmetic helpers it calls
    inlined), so any spelling the evaluator understands (comprehensions over literal tuples,
    helper functions, keyword arguments) is accepted.  One path, no raise, else AnalysisError."""
    from .evalr import Ev, Policy
    from .poly import term_poly
    pol = Policy(world)
    work = [f]
    while work:
        g = work.pop()
        pol.force_inline.add(g.qual)
        for n in ast.walk(g.node):
            if isinstance(n, ast.Call) and isinstance(n.func, ast.Name):
                v = world.static_lookup(g.mod, n.func.id)
                if isinstance(v, FuncV) and v.qual not in pol.force_inline and pol.is_leaf_arith(v.node, v.mod):
                    work.append(v)
    e2 = Ev(world, policy=pol)
    pts, atoms = [], {}
    for i in range(1, nargs + 1):
        x, y, z = (Sym("%s%d" % (c, i), "int") for c in "xyz")
        atoms.update({"x%d" % i: x, "y%d" % i: y, "z%d" % i: z})
        if plain:
            pts.append(TupleV([Sym("%s%d" % (c, i), "int") for c in "XYZT"]))
            continue
        pts.append(TupleV([mk_app("Mult", (x, z)), mk_app("Mult", (y, z)), z, mk_app("Mult", (mk_app("Mult", (x, y)), z))]))
    outs = e2.run(f, pts, [], world.static.fork())
    if len(outs) != 1 or outs[0].kind != "return" or not isinstance(outs[0].value, TupleV) or len(outs[0].value.items) != 4:
        raise AnalysisError("%s: not one returning path with a 4-tuple on symbolic points (%d outcomes)" % (f.node.name, len(outs)))
    if terms_only:
        return tuple(outs[0].value.items)
    n0 = len(atoms)
    ps = tuple(term_poly(t, Q, atoms) for t in outs[0].value.items)
    if len(atoms) != n0:
        raise AnalysisError("%s: coordinates are not polynomials of the inputs (%s)" % (f.node.name, show(list(atoms.values())[-1], maxdepth=3)))
    return ps


def classify_double_out(out, Q, d, name="?"):
    if not (isinstance(out, tuple) and len(out) == 4):
        raise AnalysisError("%s does not return a 4-tuple" % name)
    X3, Y3, Z3, T3 = out
    x1, y1, z1 = (Poly.var(Q, v) for v in ("x1", "y1", "z1"))
    dd = Poly.const(Q, d)
    k = dd * x1 * x1 * y1 * y1
    ex = X3 * (1 + k) - (2 * x1 * y1) * Z3
    ey = Y3 * (1 - k) - (y1 * y1 + x1 * x1) * Z3
    et = X3 * Y3 - Z3 * T3
    dinv = pow(d, Q - 2, Q)

    def nf(p):
        return p.reduce_curve("x1", "y1", dinv)
    info = {"raw_zero": [ex.is_zero(), ey.is_zero(), et.is_zero()]}
    if nf(ex).is_zero() and nf(ey).is_zero() and nf(et).is_zero():
        zc1 = nf(Z3 + z1 ** 4 * (1 - k * k))
        zc2 = nf(Z3 - z1 ** 4 * (1 - k * k))
        info.update(kind="double", z3_form=zc1.is_zero() or zc2.is_zero(), modulo_curve=not (ex.is_zero() and ey.is_zero()))
        return info
    info.update(kind=None, residual=[nf(ex).show(3), nf(ey).show(3), nf(et).show(3)])
    return info


def ladder_info(world, ev, f, extra=()):
    """For a self-recursive double-and-add function: which formula functions it uses - the
    package functions it calls by name plus the functions passed for its function-valued
    parameters (`extra`: the call's arguments after (point, scalar))."""
    called = []
    for n in ast.walk(f.node):
        if isinstance(n, ast.Call) and isinstance(n.func, ast.Name):
            v = world.static_lookup(f.mod, n.func.id)
            if isinstance(v, FuncV) and v.qual != f.qual:
                called.append(v.qual)
    called += [a.qual for a in extra if isinstance(a, FuncV)]
    return sorted(set(called))


def is_ladder_function(world, ev, f):
    """A scalar-multiplication ladder: a self-recursive function, or a function with one loop that
    calls a doubling formula (iterative double-and-add).  That it computes n*P is C13's G6."""
    k = ev.policy.classify(f)
    if k == "recursive":
        return True
    if k != "loop" or isinstance(f.node, ast.Lambda) or len(f.node.args.args) + len(f.node.args.kwonlyargs) < 2:
        return False
    forms = formula_functions(world, ev)
    doubles = {q for q, v in forms.items() if v.get("kind") == "double"}
    if not set(ladder_info(world, ev, f)) & doubles:
        return False
    # one loop applies the doubling formula; at most one further loop (an inline digit peel) beside it
    loops = [n for n in ast.walk(f.node) if isinstance(n, (ast.For, ast.While))]
    doubling = [l for l in loops if any(isinstance(c, ast.Call) and isinstance(c.func, ast.Name) and
                                        getattr(world.static_lookup(f.mod, c.func.id), "qual", None) in doubles for c in ast.walk(l))]
    return len(doubling) == 1 and len(loops) <= 2


_DIG_CACHE = {}


def msb_digits_function_ok(world, ev, g):
    """Does g(n) return the binary digits of n >= 0, most significant first, as a list of ints
    (n = 0 gives the empty list)?  Recognised form: peel the low bit off a remainder into a list
    until the remainder is zero, then reverse - proved by induction over one symbolic iteration:
    with L the digits so far (least significant first) and r the remainder, n = r * 2^len(L) + value(L)
    is kept by  L' = L + [r & 1], r' = r >> 1;  the loop ends exactly when r = 0."""
    from .evalr import Ev
    key = (id(world), g.qual)
    if key in _DIG_CACHE:
        return _DIG_CACHE[key]
    _DIG_CACHE[key] = (False, "not a digit function")
    if isinstance(g.node, ast.Lambda) or len(g.node.args.args) != 1:
        return _DIG_CACHE[key]
    e2 = Ev(world, loop_mode="once")
    e2.import_all()
    e2.policy.force_inline.add(g.qual)
    n = Sym("n", "int")
    try:
        outs = e2.run(g, [n], [], world.static.fork())
    except AnalysisError as e:
        _DIG_CACHE[key] = (False, str(e))
        return _DIG_CACHE[key]
    if len(e2.loop_entries) != 1 or any(o.kind != "return" for o in outs):
        _DIG_CACHE[key] = (False, "not one loop / can raise")
        return _DIG_CACHE[key]
    carried = e2.loop_entries[0][1]
    lists = [k for k, v in carried.items() if isinstance(v, TupleV) and v.kind == "list" and not v.items]
    rems = [k for k, v in carried.items() if v == n]
    if len(carried) != 2 or len(lists) != 1 or len(rems) != 1:
        _DIG_CACHE[key] = (False, "loop does not carry exactly an initially empty list and a remainder starting at n: %s" % sorted(carried))
        return _DIG_CACHE[key]
    L, r = lists[0], rems[0]
    rL = TupleV([App("star", (Sym("loop:" + L, "list"),))], "list")
    rr = Sym("loop:" + r, "int")
    nonzero = lambda conds, t, want: (t, want) in conds or (mk_app("NotEq", (t, Const(0))), want) in conds or \
        (mk_app("Eq", (t, Const(0))), not want) in conds or (mk_app("Lt", (Const(0), t)), want) in conds
    why = None
    if not e2.continues:
        why = "no way round the loop"
    for p in e2.continues:
        conds = {(t, pol) for (t, pol, _) in p.st.pc}
        nl, nr = p.val["locals"].get(L), p.val["locals"].get(r)
        okl = isinstance(nl, TupleV) and len(nl.items) == 2 and nl.items[0] == rL.items[0] and \
            nl.items[1] in (mk_app("BitAnd", (rr, Const(1))), mk_app("Mod", (rr, Const(2))))
        okr = nr in (mk_app("RShift", (rr, Const(1))), mk_app("FloorDiv", (rr, Const(2))))
        if not (okl and okr and nonzero(conds, rr, True)):
            why = "an iteration is not  L.append(r & 1); r >>= 1  under r != 0"
    exits = 0
    for o in outs:
        conds = {(t, pol) for (t, pol, _) in o.state.pc}
        v = o.value
        if isinstance(v, TupleV) and not v.items and nonzero(conds, n, False):
            continue                                   # n = 0: no digits
        if v == mk_app("rev", (rL,)) and nonzero(conds, rr, False):
            exits += 1
            continue
        why = why or "a return value is not the reversed digit list at remainder 0: %s" % show(v, maxdepth=4)
    if why is None and exits == 0:
        why = "the digit list is never returned"
    _DIG_CACHE[key] = (why is None, why or "peels n & 1 into a list while n != 0 and returns it reversed: the binary digits of n, most significant first")
    return _DIG_CACHE[key]


def lsb_digits_generator_ok(world, ev, g):
    """Is g(n) a generator yielding the binary digits of n >= 0, least significant first
    (`while n: yield n & 1; n >>= 1`)?  One symbolic iteration: under n != 0 exactly n & 1 is
    yielded and n becomes n >> 1; the generator ends when n = 0."""
    from .evalr import Ev
    key = (id(world), "lsbgen", g.qual)
    if key in _DIG_CACHE:
        return _DIG_CACHE[key]
    _DIG_CACHE[key] = (False, "not a digit generator")
    if isinstance(g.node, ast.Lambda) or len(g.node.args.args) != 1 or not ev.policy.is_generator(g):
        return _DIG_CACHE[key]
    pname = g.node.args.args[0].arg
    e2 = Ev(world, loop_mode="once")
    e2.import_all()
    e2.policy.force_inline.add(g.qual)
    n = Sym("n", "int")
    try:
        outs = e2.run(g, [n], [], world.static.fork())
    except AnalysisError as e:
        _DIG_CACHE[key] = (False, str(e))
        return _DIG_CACHE[key]
    if len(e2.loop_entries) != 1 or any(o.kind != "return" for o in outs):
        return _DIG_CACHE[key]
    carried = e2.loop_entries[0][1]
    rems = [k for k, v in carried.items() if v == n]
    if len(carried) != 1 or len(rems) != 1:
        _DIG_CACHE[key] = (False, "the loop carries %s, not just the remaining scalar" % sorted(carried))
        return _DIG_CACHE[key]
    rr = Sym("loop:" + rems[0], "int")
    nonzero = lambda conds, t, want: (t, want) in conds or (mk_app("NotEq", (t, Const(0))), want) in conds or \
        (mk_app("Eq", (t, Const(0))), not want) in conds or (mk_app("Lt", (Const(0), t)), want) in conds
    why = None if e2.continues else "no way round the loop"
    for p in e2.continues:
        conds = {(t, pol) for (t, pol, _) in p.st.pc}
        ys = p.val["locals"].get("<yields>")
        nr = p.val["locals"].get(rems[0])
        oky = isinstance(ys, tuple) and len(ys) == 1 and ys[0] in (mk_app("BitAnd", (rr, Const(1))), mk_app("Mod", (rr, Const(2))))
        okr = nr in (mk_app("RShift", (rr, Const(1))), mk_app("FloorDiv", (rr, Const(2))))
        if not (oky and okr and nonzero(conds, rr, True)):
            why = "an iteration is not  yield n & 1; n >>= 1  under n != 0"
    _DIG_CACHE[key] = (why is None, why or "yields n & 1 and shifts n right while n != 0: the binary digits of n, least significant first")
    return _DIG_CACHE[key]


def ladder_call(world, ev, c):
    """c = fn:<ladder>(point, scalar[, function arguments]) -> dict(func, pt, n, extra, uses) or None.
    A ladder is a self-recursive package function; parameters after the first two must be bound
    to package functions (a higher-order ladder parameterised by its addition formula)."""
    if not (isinstance(c, App) and c.f.startswith("fn:") and len(c.args) >= 2 and not c.kw):
        return None
    f = func_by_qual(world, c.f[3:])
    if f is None or not is_ladder_function(world, ev, f) or len(f.node.args.args) + len(f.node.args.kwonlyargs) != len(c.args):
        return None
    extra = tuple(c.args[2:])
    if not all(isinstance(a, FuncV) for a in extra):
        return None
    return {"func": f, "pt": c.args[0], "n": c.args[1], "extra": extra, "uses": set(ladder_info(world, ev, f, extra))}


def ladder_instances(world, ev, m):
    """Every (ladder function, tuple of function arguments) in module m: a 2-parameter recursive
    function is its own instance; a ladder with function-valued parameters has one instance per
    distinct tuple of package functions passed to it from outside itself."""
    out = []
    for name, f in sorted(m.env.items()):
        if not isinstance(f, FuncV) or isinstance(f.node, ast.Lambda) or not is_ladder_function(world, ev, f):
            continue
        pnames = [a.arg for a in f.node.args.args] + [a.arg for a in f.node.args.kwonlyargs]
        np_ = len(pnames)
        if np_ == 2:
            out.append((f, ()))
            continue
        if np_ < 2:
            continue
        seen = set()
        for (mod, qual, node) in world.functions():
            if node is f.node:
                continue
            for c in ast.walk(node):
                if isinstance(c, ast.Call) and isinstance(c.func, ast.Name) and world.static_lookup(mod, c.func.id) == f \
                        and len(c.args) + len(c.keywords) == np_ and all(k.arg in pnames[len(c.args):] for k in c.keywords):
                    bound = list(c.args) + [None] * (np_ - len(c.args))
                    for k in c.keywords:
                        bound[pnames.index(k.arg)] = k.value
                    ex = tuple(world.static_lookup(mod, a.id) if isinstance(a, ast.Name) else None for a in bound[2:])
                    if all(isinstance(e, FuncV) for e in ex) and tuple(e.qual for e in ex) not in seen:
                        seen.add(tuple(e.qual for e in ex))
                        out.append((f, ex))
    return out


def _truth_paths(world, f, arg):
    """Evaluate predicate f(arg) with f inlined: -> list of condition sets under which it is true,
    or None if it can raise / returns something that is not a truth value."""
    from .evalr import Ev, Policy
    pol = Policy(world)
    pol.force_inline.add(f.qual)
    e2 = Ev(world, policy=pol)
    outs = e2.run(f, [arg], [], world.static.fork())
    base = len(world.static.pc)
    res = []
    for o in outs:
        if o.kind != "return":
            return None
        conds = {(t, p) for (t, p, _) in o.state.pc[base:]}
        v = o.value
        while is_app(v, "bool") and len(v.args) == 1:
            v = v.args[0]
        if v == Const(True):
            res.append(conds)
        elif v == Const(False):
            continue
        elif isinstance(v, App):
            res.append(conds | {(v, True)})       # `return <comparison>`: true exactly when it holds
        else:
            return None
    def flat(cs):
        out = set()
        for (t, pol) in cs:
            while is_app(t, "bool") and len(t.args) == 1:
                t = t.args[0]
            if is_app(t, "And") and pol is True:
                out |= flat({(a, True) for a in t.args})       # a true conjunction: each conjunct holds
            else:
                out.add((t, pol))
        return out
    return [flat(c) for c in res]


_ID_CACHE = {}


def identity_test_ok(world, ev, f):
    """Does predicate f(XYZT) decide 'is the identity in extended coordinates'
    (X == 0 and Y == Z and Y != 0, coordinates reduced mod Q)?  Decided on the paths of f
    evaluated on a symbolic 4-tuple (any spelling: if/return True, `return a and b and c`)."""
    key = (id(world), f.qual)
    if key in _ID_CACHE:
        return _ID_CACHE[key]
    _ID_CACHE[key] = (False, "not a predicate on a 4-tuple")
    if len(f.node.args.args) != 1:
        return _ID_CACHE[key]
    X, Y, Z, T = (Sym(n, "int") for n in "XYZT")
    try:
        paths = _truth_paths(world, f, TupleV([X, Y, Z, T]))
    except AnalysisError:
        return _ID_CACHE[key]
    qn, Q = field_prime(world, ev)

    def red(v):   # accepted spellings of "coordinate reduced mod Q"
        return (v, mk_app("Mod", (v, Const(Q))))
    r = (False, "predicate is not true on exactly one path")
    if paths is not None and len(paths) == 1:
        conds = paths[0]
        okx = any((mk_app("Eq", (x, Const(0))), True) in conds or (mk_app("NotEq", (x, Const(0))), False) in conds for x in red(X))
        okyz = any((mk_app("Eq", (y, z)), True) in conds or (mk_app("NotEq", (y, z)), False) in conds for y in red(Y) for z in red(Z))
        oky = any((mk_app("NotEq", (y, Const(0))), True) in conds or (mk_app("Eq", (y, Const(0))), False) in conds for y in red(Y) + red(Z))
        if okx and okyz and oky and len(conds) == 3:
            r = (True, "X == 0 and Y == Z (mod Q) and Y != 0")
        else:
            r = (False, "true-path conditions are %s" % sorted(show(t, maxdepth=4) + "=" + str(p) for t, p in conds))
    _ID_CACHE[key] = r
    return r


def identity_test_raw_reads(world, ev, f):
    """For an identity predicate accepted by identity_test_ok: {coordinate index (0=X, 1=Y, 2=Z): uses} for the
    coordinates it compares *without* reducing them mod Q first; a use is 'zero' (compared with 0) or 'eq'
    (compared with another coordinate).  `X == 0` on an unreduced X misses the identity whenever X is a
    non-zero multiple of Q, so such a predicate is only right on suitably normalised coordinates."""
    if not identity_test_ok(world, ev, f)[0]:
        return None
    X, Y, Z, T = (Sym(n, "int") for n in "XYZT")
    conds = _truth_paths(world, f, TupleV([X, Y, Z, T]))[0]
    raw = {}
    for (t, pol) in conds:
        if not (isinstance(t, App) and t.f in ("Eq", "NotEq") and len(t.args) == 2):
            continue
        for i, v in enumerate((X, Y, Z)):
            if any(a == v for a in t.args):
                other = [a for a in t.args if a != v]
                raw.setdefault(i, set()).add("zero" if other == [Const(0)] else "eq")
    return raw


def _reduced(t, Q):
    """t is in [0, Q) by its form"""
    return (is_app(t, "Mod") and t.args[1] == Const(Q)) or \
        (isinstance(t, Const) and isinstance(t.v, int) and not isinstance(t.v, bool) and 0 <= t.v < Q)


def _zero_exact(t, Q):
    """t == 0 exactly when t = 0 (mod Q), by its form: a value in [0, Q), a difference of two such values, or a
    product of such terms (Q is prime: a product vanishes mod Q only if a factor does)"""
    if _reduced(t, Q):
        return True
    if is_app(t, "Sub") and len(t.args) == 2 and all(_reduced(a, Q) for a in t.args):
        return True                                    # |a - b| < Q
    if is_app(t, "USub") and len(t.args) == 1:
        return _zero_exact(t.args[0], Q)
    return is_app(t, "Mult") and all(_zero_exact(a, Q) for a in t.args)


def identity_repr_obligations(world, ev, t):
    """The representation invariant behind one use  t = fn:<identity predicate>(coords)  of an identity test that
    compares a coordinate unreduced: the formula function that produced the tested tuple (for a ladder result:
    every addition/doubling formula the ladder uses - its last step is one of them, n = 0 gives the constant
    identity) must return that coordinate normalised: in [0, Q) where it is compared with another coordinate,
    zero exactly when it is 0 mod Q where it is compared with 0.   -> [(instance, ok, detail, site)]"""
    if not (isinstance(t, App) and t.f.startswith("fn:") and len(t.args) == 1):
        return []
    f = func_by_qual(world, t.f[3:])
    raw = identity_test_raw_reads(world, ev, f) if f is not None else None
    if not raw:
        return []
    qn, Q = field_prime(world, ev)
    forms = formula_functions(world, ev)
    kinds = ("add-complete", "add-dedicated", "double")
    c = unproj(t.args[0])
    producers = None
    if isinstance(c, App) and c.f.startswith("fn:"):
        if forms.get(c.f[3:], {}).get("kind") in kinds:
            producers = {c.f[3:]}
        else:
            lc = ladder_call(world, ev, c)
            if lc is not None:
                producers = {q for q in lc["uses"] if forms.get(q, {}).get("kind") in kinds}
                if isinstance(lc["n"], Const) and isinstance(lc["n"].v, int) and lc["n"].v % 2 == 1:
                    # an odd scalar: the last step of a double-and-add ladder (either direction) is an addition
                    producers = {q for q in producers if forms[q]["kind"] != "double"}
    if not producers:
        return []          # the tested tuple is not the result of a formula function (e.g. a decoded point)
    out = []
    names = "XYZT"
    for q in sorted(producers):
        g = func_by_qual(world, q)
        terms = polys_by_evaluation(world, g, len(g.node.args.args), Q, terms_only=True)
        bad = [names[i] for i in sorted(raw)
               if ("eq" in raw[i] and not _reduced(terms[i], Q)) or ("zero" in raw[i] and not _zero_exact(terms[i], Q))]
        out.append(("%s <- %s" % (f.node.name, g.node.name), not bad,
                    "%s compares %s unreduced; %s returns %s" % (f.node.name, "/".join(names[i] for i in sorted(raw)), g.node.name,
                                                                   "a value that is 0 only when it is 0 mod Q (a residue, a difference of two residues, or a product of such)" if not bad else
                                                                   "%s unnormalised: a result that is the identity with %s a non-zero multiple of Q is not recognised"
                                                                   % ("/".join(bad), "/".join(bad))),
                    (g.mod.relpath, g.node.lineno, g.node.name)))
    return out


def _growth_degree(t, Q):
    """Degree of t in the (unreduced) input coordinates: 0 for a value reduced mod Q or a constant, 1 for a
    coordinate symbol, max over sums, sum over products."""
    if isinstance(t, Const) or (is_app(t, "Mod") and len(t.args) == 2 and isinstance(t.args[1], Const)):
        return 0
    if isinstance(t, Sym):
        return 1
    if is_app(t, "Add", "Sub"):
        return max(_growth_degree(a, Q) for a in t.args)
    if is_app(t, "USub"):
        return _growth_degree(t.args[0], Q)
    if is_app(t, "Mult"):
        return sum(_growth_degree(a, Q) for a in t.args)
    if is_app(t, "pow") and len(t.args) == 3:
        return 0
    if is_app(t, "pow", "Pow") and len(t.args) == 2 and isinstance(t.args[1], Const) and isinstance(t.args[1].v, int) and t.args[1].v >= 0:
        return _growth_degree(t.args[0], Q) * t.args[1].v
    if isinstance(t, App):
        return max([_growth_degree(a, Q) for a in t.args] or [0])
    return 0


def formula_growth_obligations(world, ev):
    """A ladder feeds the coordinates a formula returns back into the formulas some 250 times.  If a returned
    coordinate is a polynomial of degree >= 2 in the incoming coordinates *without a reduction on the way*, its
    size squares with every step and no scalar multiplication by a full-size scalar ever finishes.  Each formula
    function must therefore return coordinates of degree <= 1 in its unreduced inputs (normally 0: reduced mod Q).
    -> [(instance, ok, detail, site)]"""
    qn, Q = field_prime(world, ev)
    out = []
    for q, info in sorted(formula_functions(world, ev).items()):
        if info.get("kind") not in ("add-complete", "add-dedicated", "double"):
            continue
        g = func_by_qual(world, q)
        terms = polys_by_evaluation(world, g, len(g.node.args.args), Q, terms_only=True, plain=True)
        degs = [_growth_degree(t, Q) for t in terms]
        bad = ["XYZT"[i] + "3: degree %d" % d for i, d in enumerate(degs) if d >= 2]
        out.append((g.node.name, not bad, "returned coordinates are reduced (degree <= 1 in the unreduced inputs): their size stays bounded along a ladder" if not bad else
                    "returned coordinate(s) %s in the unreduced inputs: sizes square at every ladder step, a multiplication by a 250-bit scalar never finishes" % ", ".join(bad),
                    (g.mod.relpath, g.node.lineno, g.node.name)))
    return out


def oncurve_test_ok(world, ev, f):
    """Does predicate f([x, y]) test the curve equation -x^2 + y^2 = 1 + d x^2 y^2 (mod Q)?"""
    from .poly import term_poly
    key = (id(world), "curve", f.qual)
    if key in _ID_CACHE:
        return _ID_CACHE[key]
    _ID_CACHE[key] = (False, "not a predicate on a coordinate pair")
    if len(f.node.args.args) != 1:
        return _ID_CACHE[key]
    qn, Q = field_prime(world, ev)
    dn, d = curve_d(world, ev)
    x, y = Sym("x", "int"), Sym("y", "int")
    r = (False, "predicate is not one test of a polynomial in (x, y)")
    for arg in (TupleV([x, y], "list"), TupleV([x, y], "tuple")):
        try:
            paths = _truth_paths(world, f, arg)
        except AnalysisError:
            continue
        if paths is None or len(paths) != 1 or len(paths[0]) != 1:
            continue
        (t, p), = paths[0]
        if not (is_app(t, "Eq", "NotEq") and Const(0) in t.args and (p is (t.f == "Eq"))):
            continue
        other = t.args[0] if t.args[1] == Const(0) else t.args[1]
        if not (is_app(other, "Mod") and other.args[1] == Const(Q)):
            continue
        atoms = {"x": x, "y": y}
        try:
            pe = term_poly(other.args[0], Q, atoms)
        except AnalysisError:
            continue
        px, py = Poly.var(Q, "x"), Poly.var(Q, "y")
        curve = -(px * px) + py * py - 1 - Poly.const(Q, d) * px * px * py * py
        c = (-pe.t.get((), 0)) % Q
        if c and (pe - curve * c).is_zero() and set(atoms) == {"x", "y"}:
            r = (True, "tests -x^2 + y^2 - 1 - d x^2 y^2 = 0 (mod Q)")
            break
        r = (False, "the tested polynomial is not the curve equation")
    _ID_CACHE[key] = r
    return r

def odd_fact(t, pol, x):
    """If the condition (t, pol) states the parity of x, -> True (x is odd) / False (x is even); else None.
    Spellings: x % 2 != 0, x % 2 == 0, x % 2 == 1, x & 1 (truth value), (x & 1) != 0, (x & 1) == 1, bool(...)."""
    if is_app(t, "bool") and len(t.args) == 1:
        t = t.args[0]
    low = (mk_app("Mod", (x, Const(2))), mk_app("BitAnd", (x, Const(1))))
    if any(t == l for l in low):
        return bool(pol)
    if is_app(t, "Eq", "NotEq") and len(t.args) == 2:
        for a, b in (t.args, t.args[::-1]):
            if any(a == l for l in low) and isinstance(b, Const) and b.v in (0, 1) and not isinstance(b.v, bool):
                is_one = (b.v == 1) == (t.f == "Eq")       # the condition, when true, says "low bit is 1"
                return is_one == bool(pol)
    return None


def root_call(world, t):
    """t = fn:f(y)  or  proj(fn:f(y), 0)  (a root helper that also returns the square it solved for)
    -> (FuncV f, argument y, component or None) or None"""
    comp = None
    if is_app(t, "proj") and len(t.args) == 2 and isinstance(t.args[1], Const) and isinstance(t.args[0], App):
        comp, t = t.args[1].v, t.args[0]
    if isinstance(t, App) and t.f.startswith("fn:") and len(t.args) == 1 and not t.kw:
        f = func_by_qual(world, t.f[3:])
        if f is not None:
            return f, t.args[0], comp
    return None


def sqrt_helper_ok(world, ev, f, comp=None):
    """Does f(y) implement the field square root used by point decompression:
    xx = (y^2 - 1)/(d y^2 + 1); x = xx^((Q+3)/8); if x^2 != xx: x *= sqrt(-1); return the even root?
    Decided on the paths of f evaluated on a symbolic y (the function is loop-free).  A helper may return the
    pair (x, xx): `comp` = 0 asks for the root; the second component must then be the verified xx."""
    from .evalr import Ev, Policy
    from .poly import term_poly
    qn, Q = field_prime(world, ev)
    dn, d = curve_d(world, ev)
    pol = Policy(world)
    pol.force_inline.add(f.qual)
    work = [f]
    while work:                       # helpers of the root function (e.g. an even-root normaliser) are inlined too
        g = work.pop()
        for n in ast.walk(g.node):
            if isinstance(n, ast.Call) and isinstance(n.func, ast.Name):
                v = world.static_lookup(g.mod, n.func.id)
                if isinstance(v, FuncV) and v.qual not in pol.force_inline and pol.classify(v) in ("leaf", "inline"):
                    pol.force_inline.add(v.qual)
                    work.append(v)
    e2 = Ev(world, policy=pol)
    y = Sym("y", "int")
    outs = e2.run(f, [y], [], world.static.fork())
    rets = [o for o in outs if o.kind == "return"]
    if len(rets) != len(outs) or not rets:
        return False, "the root helper can raise or has no returning path"
    I = None
    seen = set()
    for o in rets:
        conds = [(t, p) for (t, p, _) in o.state.pc]
        v = o.value
        second = None
        if comp is not None:
            if not (isinstance(v, TupleV) and len(v.items) == 2 and comp == 0):
                return False, "the root helper does not return the pair (root, square)"
            v, second = v.items
        elif isinstance(v, TupleV):
            return False, "the root helper returns a tuple"
        flipped = is_app(v, "Sub") and v.args[0] == Const(Q)
        x = v.args[1] if flipped else v
        times_i = False
        if is_app(x, "Mod") and x.args[1] == Const(Q) and is_app(x.args[0], "Mult"):
            a, b = x.args[0].args
            for u, w in ((a, b), (b, a)):
                if isinstance(u, Const) and isinstance(u.v, int):
                    I = u.v
                    x = w
                    times_i = True
        if not (is_app(x, "pow") and len(x.args) == 3 and x.args[1] == Const((Q + 3) // 8) and x.args[2] == Const(Q)):
            return False, "candidate root is not xx^((Q+3)/8) mod Q: %s" % show(x, maxdepth=4)
        xx = x.args[0]
        # xx * (d y^2 + 1) == y^2 - 1 with the inverse written as pow(., Q-2, Q)
        # (the Euclidean spelling pow(z, -1, Q) equals the Fermat one for a unit z; the denominator d y^2 + 1 is a unit for
        # every y because d is a non-square and -1 a square - obligation P4 of C12)
        invs = [t for t in subterms(xx) if is_app(t, "pow") and len(t.args) == 3 and t.args[1] in (Const(Q - 2), Const(-1)) and t.args[2] == Const(Q)]
        if len(invs) != 1:
            return False, "xx does not contain exactly one field inversion"
        atoms = {"y": y, "den_inv": invs[0]}
        try:
            pxx = term_poly(xx, Q, atoms)
            pden = term_poly(invs[0].args[0], Q, atoms)
        except AnalysisError as e:
            return False, str(e)
        Y = Poly.var(Q, "y")
        DI = Poly.var(Q, "den_inv")
        if not (pxx - (Y * Y - 1) * DI).is_zero() or not (pden - (Poly.const(Q, d) * Y * Y + 1)).is_zero():
            return False, "xx is not (y^2 - 1) / (d y^2 + 1)"
        if second is not None and second != xx:
            return False, "the second component returned is not the square xx the root solves for"
        # which branch: x^2 == xx or not
        test = mk_app("NotEq", (mk_app("Mod", (mk_app("Sub", (mk_app("Mult", (x, x)), xx)), Const(Q))), Const(0)))
        pol_ = [p for (t, p) in conds if t == test or t == mk_app("Eq", test.args)]
        if not pol_:
            return False, "no test x^2 == xx (mod Q) selects between x and x*sqrt(-1)"
        wrong = pol_[0] if any(t == test for (t, _) in conds) else not pol_[0]
        if wrong != times_i:
            return False, "the root is multiplied by sqrt(-1) on the wrong branch"
        cand = mk_app("Mod", (mk_app("Mult", (x, Const(I))), Const(Q))) if times_i else x
        odd = [o_ for o_ in (odd_fact(t, p, cand) for (t, p) in conds) if o_ is not None]
        if len(odd) != 1 or odd[0] != flipped:
            return False, "the candidate is not negated exactly when it is odd"
        if len(conds) != 2:
            return False, "the root helper branches on something besides 'x^2 == xx' and the parity of the candidate"
        seen.add((times_i, flipped))
    if I is None or (I * I + 1) % Q != 0:
        return False, "the constant multiplying the candidate is not a square root of -1"
    if len(seen) != 4:
        return False, "expected the four cases (x or x*sqrt(-1)) x (even or negated), found %d" % len(seen)
    return True, "xx = (y^2-1)/(d y^2+1); x = xx^((Q+3)/8), times sqrt(-1) when x^2 != xx; even representative returned"
