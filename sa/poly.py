"""Sparse multivariate polynomials over GF(P) and translation of straight-line
arithmetic (ast or terms) into them (DESIGN 3.5, 4.12).  ~150 lines, no dependencies."""
import ast

from .loader import AnalysisError
from .terms import Const, App, TupleV, V


class Poly(object):
    """dict: monomial -> coeff; monomial = tuple of (var, exp) sorted by var."""
    __slots__ = ("p", "t")

    def __init__(self, p, terms=None):
        self.p = p
        self.t = {m: c % p for m, c in (terms or {}).items() if c % p}

    @staticmethod
    def const(p, c):
        return Poly(p, {(): c})

    @staticmethod
    def var(p, name):
        return Poly(p, {((name, 1),): 1})

    def __add__(self, o):
        o = self._co(o)
        t = dict(self.t)
        for m, c in o.t.items():
            t[m] = (t.get(m, 0) + c) % self.p
        return Poly(self.p, t)

    __radd__ = __add__

    def __neg__(self):
        return Poly(self.p, {m: -c for m, c in self.t.items()})

    def __sub__(self, o):
        return self + (-self._co(o))

    def __rsub__(self, o):
        return self._co(o) - self

    def __mul__(self, o):
        o = self._co(o)
        t = {}
        for m1, c1 in self.t.items():
            for m2, c2 in o.t.items():
                m = _mmul(m1, m2)
                t[m] = (t.get(m, 0) + c1 * c2) % self.p
        return Poly(self.p, t)

    __rmul__ = __mul__

    def __pow__(self, n):
        r = Poly.const(self.p, 1)
        for _ in range(n):
            r = r * self
        return r

    def _co(self, o):
        if isinstance(o, Poly):
            return o
        return Poly.const(self.p, o)

    def is_zero(self):
        return not self.t

    def __eq__(self, o):
        return (self - self._co(o)).is_zero()

    def __ne__(self, o):
        return not self == o

    def vars(self):
        return sorted({v for m in self.t for v, _ in m})

    def subst(self, name, q):
        """Replace variable `name` by polynomial q."""
        out = Poly(self.p)
        for m, c in self.t.items():
            e = dict(m).get(name, 0)
            rest = tuple((v, k) for v, k in m if v != name)
            out = out + Poly(self.p, {rest: c}) * (q ** e)
        return out

    def reduce_curve(self, x, y, d_inv):
        """Normal form modulo c = -x^2 + y^2 - 1 - d x^2 y^2: rewrite x^2 y^2 -> d^-1 (y^2 - x^2 - 1).
        Terminates (total degree drops by 2 per step); canonical because under a degree order the
        leading monomials x_i^2 y_i^2 of the generators are pairwise coprime (Groebner basis)."""
        cur = self
        while True:
            hit = None
            for m in cur.t:
                dm = dict(m)
                if dm.get(x, 0) >= 2 and dm.get(y, 0) >= 2:
                    hit = m
                    break
            if hit is None:
                return cur
            c = cur.t[hit]
            dm = dict(hit)
            dm[x] -= 2
            dm[y] -= 2
            rest = tuple(sorted((v, k) for v, k in dm.items() if k))
            repl = (Poly.var(self.p, y) ** 2 - Poly.var(self.p, x) ** 2 - 1) * d_inv
            cur = cur - Poly(self.p, {hit: c}) + Poly(self.p, {rest: c}) * repl

    def show(self, limit=6):
        items = sorted(self.t.items())[:limit]
        s = " + ".join("%s%s" % (("%d*" % c) if c != 1 else "", "*".join("%s^%d" % vk if vk[1] > 1 else vk[0] for vk in m) or "1")
                       for m, c in items)
        return s + (" + ...(%d terms)" % len(self.t) if len(self.t) > limit else "") or "0"


def _mmul(m1, m2):
    d = dict(m1)
    for v, k in m2:
        d[v] = d.get(v, 0) + k
    return tuple(sorted(d.items()))


# ----------------------------------------------------------------------------
# terms -> polynomials (atoms = non-arithmetic subterms)

def term_poly(t, p, atoms, modulus_ok=None):
    """Polynomial of an integer term over GF(p).  `% m` is the identity iff m == p
    (otherwise AnalysisError: reduction by another modulus is not a ring operation).
    Non-arithmetic subterms become variables, recorded in atoms {name: term}."""
    if isinstance(t, Const) and isinstance(t.v, int) and not isinstance(t.v, bool):
        return Poly.const(p, t.v)
    if isinstance(t, App):
        if t.f in ("Add", "Sub", "Mult") and len(t.args) == 2:
            a = term_poly(t.args[0], p, atoms)
            b = term_poly(t.args[1], p, atoms)
            return a + b if t.f == "Add" else a - b if t.f == "Sub" else a * b
        if t.f == "USub":
            return -term_poly(t.args[0], p, atoms)
        if t.f == "Mod" and isinstance(t.args[1], Const) and t.args[1].v == p:
            return term_poly(t.args[0], p, atoms)
        if t.f == "Pow" and isinstance(t.args[1], Const) and isinstance(t.args[1].v, int) and 0 <= t.args[1].v <= 8:
            return term_poly(t.args[0], p, atoms) ** t.args[1].v
    name = None
    for k, v in atoms.items():
        if v == t:
            name = k
            break
    if name is None:
        name = "a%d" % len(atoms)
        atoms[name] = t
    return Poly.var(p, name)


# ----------------------------------------------------------------------------
# straight-line python function -> polynomials of its returned tuple

class Straight(object):
    """Polynomial value numbering of a straight-line arithmetic function body."""

    def __init__(self, p, consts, funcs=None, helpers=None):
        self.p = p
        self.consts = consts      # module-level integer constants {name: int}
        self.funcs = funcs or {}  # name -> callable(list of values) for helper calls (e.g. inv)
        self.helpers = helpers or {}   # name -> FunctionDef of straight-line helpers, inlined at the call
        self.depth = 0

    def run(self, fnode, args, kwargs=None):
        """args: list of values (Poly or tuple of Poly) bound to the parameters -> return value."""
        env = {}
        names = [a.arg for a in fnode.args.args]
        kwargs = kwargs or {}
        if len(names) != len(args) + len(kwargs) or any(k not in names[len(args):] for k in kwargs) \
                or fnode.args.vararg or fnode.args.kwarg or fnode.args.kwonlyargs:
            raise AnalysisError("arity mismatch evaluating %s in the polynomial domain" % fnode.name)
        env.update(zip(names, args))
        env.update(kwargs)
        for st in fnode.body:
            if isinstance(st, ast.Expr) and isinstance(st.value, ast.Constant):
                continue
            if isinstance(st, ast.Assign) and len(st.targets) == 1:
                v = self.ev(st.value, env)
                self.bind(st.targets[0], v, env)
            elif isinstance(st, ast.AugAssign) and isinstance(st.target, ast.Name):
                cur = env[st.target.id]
                v = self.binop(type(st.op).__name__, cur, self.ev(st.value, env), st)
                env[st.target.id] = v
            elif isinstance(st, ast.Return):
                return self.ev(st.value, env)
            elif isinstance(st, ast.Assert):
                continue
            else:
                raise AnalysisError("%s line %d: statement %s is outside the straight-line arithmetic subset"
                                    % (fnode.name, st.lineno, type(st).__name__))
        raise AnalysisError("%s: no return statement" % fnode.name)

    def bind(self, t, v, env):
        if isinstance(t, ast.Name):
            env[t.id] = v
        elif isinstance(t, (ast.Tuple, ast.List)):
            if not isinstance(v, tuple) or len(v) != len(t.elts):
                raise AnalysisError("tuple unpacking of a non-tuple in the polynomial domain (line %d)" % t.lineno)
            for e, x in zip(t.elts, v):
                self.bind(e, x, env)
        else:
            raise AnalysisError("unsupported assignment target in formula function (line %d)" % t.lineno)

    def binop(self, op, a, b, node):
        if op == "Mod":
            if isinstance(b, RawInt) and b.raw == self.p:
                return a if not isinstance(a, RawInt) else Poly.const(self.p, a.raw)
            raise AnalysisError("line %d: reduction by a modulus other than the field prime" % node.lineno)
        if not isinstance(a, Poly) or not isinstance(b, Poly):
            raise AnalysisError("line %d: arithmetic on a non-scalar" % node.lineno)
        if op == "Add":
            return a + b
        if op == "Sub":
            return a - b
        if op == "Mult":
            return a * b
        if op == "Pow" and not b.vars():
            e = b.t.get((), 0)
            if e <= 8:
                return a ** e
        raise AnalysisError("line %d: operator %s is outside the polynomial domain" % (node.lineno, op))

    def ev(self, n, env):
        if isinstance(n, ast.Constant) and isinstance(n.value, int):
            return Poly.const(self.p, n.value)
        if isinstance(n, ast.Name):
            if n.id in env:
                return env[n.id]
            if n.id in self.consts:
                return RawInt(self.p, self.consts[n.id])
            raise AnalysisError("line %d: unknown name %s in formula function" % (n.lineno, n.id))
        if isinstance(n, ast.Tuple) or isinstance(n, ast.List):
            return tuple(self.ev(e, env) for e in n.elts)
        if isinstance(n, ast.UnaryOp) and isinstance(n.op, ast.USub):
            return -self.ev(n.operand, env)
        if isinstance(n, ast.BinOp):
            a = self.ev(n.left, env)
            b = self.ev(n.right, env)
            op = type(n.op).__name__
            if op == "Mod":
                if isinstance(b, RawInt) and b.raw == self.p:
                    return a if not isinstance(a, RawInt) else Poly.const(self.p, a.raw)
                if isinstance(b, Poly) and not isinstance(b, RawInt):
                    raise AnalysisError("line %d: reduction by a non-constant modulus" % n.lineno)
                raise AnalysisError("line %d: reduction by a modulus other than the field prime" % n.lineno)
            return self.binop(op, a, b, n)
        if isinstance(n, ast.Subscript) and isinstance(n.slice, ast.Constant):
            v = self.ev(n.value, env)
            if isinstance(v, tuple):
                return v[n.slice.value]
        if isinstance(n, ast.Call) and isinstance(n.func, ast.Name) and n.func.id in self.funcs and not n.keywords:
            return self.funcs[n.func.id]([self.ev(a, env) for a in n.args])
        if isinstance(n, ast.Call) and isinstance(n.func, ast.Name) and n.func.id in self.helpers \
                and all(k.arg is not None for k in n.keywords) and not any(isinstance(a, ast.Starred) for a in n.args):
            if self.depth >= 4:
                raise AnalysisError("line %d: helper calls nested too deeply in a formula function" % n.lineno)
            args = [self.ev(a, env) for a in n.args]
            kwargs = {k.arg: self.ev(k.value, env) for k in n.keywords}
            self.depth += 1
            try:
                return self.run(self.helpers[n.func.id], args, kwargs)
            finally:
                self.depth -= 1
        if isinstance(n, ast.IfExp):
            raise AnalysisError("line %d: conditional expression in a formula function" % n.lineno)
        raise AnalysisError("line %d: expression %s is outside the polynomial domain" % (getattr(n, "lineno", 0), type(n).__name__))


class RawInt(Poly):
    """A module-level integer constant: a field element that still remembers its integer
    value (so that `% Q` can be recognised as reduction by the field prime)."""
    __slots__ = ("raw",)

    def __init__(self, p, raw):
        Poly.__init__(self, p, {(): raw})
        self.raw = raw
