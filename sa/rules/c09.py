"""C09 - restoring under the wrong role or parameters is always detected (DESIGN 4.9)."""
from ..terms import Const, Sym, App, Obj, mk_app, is_app, show, subterms
from .. import session
from ..session import norm_codec

MUST_WRONG_SIDE = {("SPAKE2_A", "SPAKE2_B"), ("SPAKE2_B", "SPAKE2_A"), ("SPAKE2_A", "SPAKE2_Symmetric"), ("SPAKE2_B", "SPAKE2_Symmetric")}


def blinding_elements(cm, params_fields):
    """Parameter elements the role uses: params fields occurring in start()/finish() terms."""
    used = set()
    terms = [s.value for s in cm.started]
    for outs in cm.finish:
        terms += [o.value for o in session.rets(outs)]
    for t in terms:
        for x in subterms(t):
            for k, v in params_fields.items():
                if x == v and k not in ("group",) and not isinstance(v, (Const, Sym)):
                    used.add(k)
    return used


def check(ctx, world):
    ctx.explanation = (
        "Z5: for every ordered pair (writer class, reader class) the reader from_serialized() is evaluated on the "
        "writer's serialize() term (symbolic session): off the diagonal every path must raise - WrongSideSerialized for "
        "A->B, B->A, A->S, B->S, any exception for S->A, S->B. Z5': on the diagonal the reader is also evaluated with a "
        "*different* parameter object (_Params over a second symbolic group): every returning path must carry the "
        "condition 'stored fingerprint == fingerprint of the reader's parameters' and a WrongGroupError path must exist "
        "on the complementary condition. Z6: the fingerprint term of the reader hashes the encoding of every parameter "
        "element that the role's start()/finish() terms use (A, B: M and N; Symmetric: S) and depends on the reader's own "
        "params argument. Z8: the returned instance holds the reader's params argument (not a default).")
    ctx.min_obligations = 26
    ev = session.new_ev(world)
    models = {}
    for cname in session.PUBLIC_CLASSES:
        ms = session.models(world, ev, cname)
        ctx.require(ms and ms[0].started, "%s has no started model" % cname)
        models[cname] = ms[0]
    blobs = {}
    for cname, cm in models.items():
        sers = session.rets(cm.serialize[0])
        ctx.require(len(sers) >= 1, "%s.serialize() has no returning path" % cname)
        blobs[cname] = sers[0]
    # ---- role matrix
    for wname, so in blobs.items():
        for rname, rm_ in models.items():
            outs = session.restore(world, ev, rm_.cls, so.value, so.state.fork(), models[wname].params)
            rets = session.rets(outs)
            inst = "%s -> %s" % (wname, rname)
            excs = sorted({o.exc for o in outs if o.kind == "raise"})
            ctx.count("restore_paths", len(outs))
            if wname == rname:
                ok = bool(rets)
                ctx.ob("Z5-diag", inst, ok, "own state restores" if ok else "own state does not restore: %s" % excs)
                continue
            if (wname, rname) in MUST_WRONG_SIDE:
                ok = not rets and excs == ["WrongSideSerialized"]
                want = "WrongSideSerialized"
            else:
                ok = not rets and bool(excs)
                want = "an exception"
            ctx.ob("Z5", inst, ok, "every path raises %s" % excs if ok else
                   "state saved by %s restored as %s: %s, expected %s on every path"
                   % (wname, rname, "RETURNS an instance" if rets else "raises %s" % excs, want),
                   (rets[0].site if rets else outs[0].site if outs else None))
    # ---- shared-object fields that session code writes (a cache on the parameter object ...):
    # under an arbitrary history such a field holds an arbitrary earlier value
    shared = set()
    for cname, cm in models.items():
        logs = []
        for outs in cm.serialize + cm.finish + [cm.start]:
            logs += [o.state.log for o in outs]
        so = blobs[cname]
        logs += [o.state.log for o in session.restore(world, ev, cm.cls, so.value, so.state.fork(), cm.params)]
        for lg in logs:
            for rec in lg:
                if rec[0] == "store" and isinstance(rec[1], Obj) and rec[1] == cm.params \
                        and not str(rec[4][2]).endswith(rec[1].cls.name + ".__init__"):
                    shared.add(rec[2])       # (the object's own constructor is not session code)
    guard_pass(ctx, world, ev, models, blobs, (), "")
    if shared:
        ctx.note("fields of the shared parameter object written by session code: %s - re-checked with arbitrary (stale) contents" % sorted(shared))
        guard_pass(ctx, world, ev, models, blobs, tuple(sorted(shared)), " [any history: stale %s]" % ",".join(sorted(shared)))


def guard_pass(ctx, world, ev, models, blobs, havoc, tag):
    """Fingerprint guard / coverage with a different parameter object; `havoc` = fields of the
    shared parameter object that hold arbitrary values left by earlier sessions."""
    from ..terms import DictV
    for cname, cm in models.items():
        cname_ = cname
        cname = cname + tag
        so = blobs[cname_]
        st2, params2 = session.build_params(world, ev, so.state.fork(), group=Sym("G2"))
        for f_ in havoc:
            st2.heap[params2.oid][f_] = Sym("stale:" + f_)
        base = len(st2.pc)
        outs = session.restore(world, ev, cm.cls, so.value, st2.fork(), params2)
        rets = session.rets(outs)
        blob_fp = None
        d = so.value
        for x in subterms(d):
            pass
        # the stored fingerprint = the value under the key whose term is a hex digest of H(...)
        from ..terms import DictV
        dd = [x for x in subterms(so.value) if isinstance(x, DictV)]
        ctx.require(len(dd) == 1, "%s.serialize() term holds %d dicts" % (cname, len(dd)))
        fps = {k: v for k, v in dd[0].items.items() if is_app(v, "hexs") and is_app(v.args[0], "H")}
        ctx.require(len(fps) == 1, "%s: cannot identify the parameter fingerprint in the saved state (candidates: %s)" % (cname, sorted(fps)))
        fkey, blob_fp = list(fps.items())[0]
        wrong = [o for o in outs if o.kind == "raise" and o.exc == "WrongGroupError"]
        guard_terms = set()
        for o in rets:
            conds = [(t, p) for (t, p, _) in o.state.pc[base:]]
            hit = [(t, p) for (t, p) in conds if is_app(t, "Eq", "NotEq") and blob_fp in t.args and ((t.f == "Eq") == p)]
            ok = bool(hit)
            ctx.ob("Z5'-guard", cname, ok, "returning path requires stored fingerprint == reader's fingerprint" if ok else
                   "from_serialized() returns an instance under different parameters without comparing the fingerprint", o.site,
                   witness=[show(t, maxdepth=4) + "=" + str(p) for t, p in conds])
            for (t, p) in hit:
                other = t.args[0] if t.args[1] == blob_fp else t.args[1]
                guard_terms.add(other)
            if isinstance(o.value, Obj):
                holds = params2 in o.state.heap[o.value.oid].values()
                ctx.ob("Z8", cname, holds, "the returned instance uses the reader's params argument" if holds else
                       "the returned instance does not hold the params passed to from_serialized()", o.site)
        ok = bool(wrong)
        ctx.ob("Z5'-raise", cname, ok, "a WrongGroupError path exists for a fingerprint mismatch" if ok else
               "no path raises WrongGroupError when the parameters differ (outcomes %s)" % sorted({(o.kind, o.exc) for o in outs}))
        if not rets:
            ctx.ob("Z5'-guard", cname, False, "no returning path under a second parameter object: cannot see the fingerprint guard (outcomes %s)"
                   % sorted({(o.kind, str(o.exc)) for o in outs}))
        # ---- Z6 coverage
        pf2 = st2.heap[params2.oid]
        pf1 = so.state.heap[cm.params.oid]
        used = blinding_elements(cm, {k: v for k, v in pf1.items() if k not in havoc})
        ctx.require(used, "%s: no parameter element is used by start()/finish()" % cname)
        want = {"SPAKE2_A": {"M", "N"}, "SPAKE2_B": {"M", "N"}, "SPAKE2_Symmetric": {"S"}}[cname_]
        ctx.ob("Z6-role", cname, used == want, "role uses parameter elements %s" % sorted(used) if used == want else
               "role uses parameter elements %s, expected %s" % (sorted(used), sorted(want)))
        for g in sorted(guard_terms, key=lambda t: t._key):
            for k in sorted(used):
                enc = mk_app(".to_bytes", (pf2[k],))
                ok = any(x == enc for x in subterms(g))
                ctx.ob("Z6", "%s fingerprint covers %s" % (cname, k), ok,
                       "fingerprint hashes the encoding of params.%s" % k if ok else
                       "the fingerprint does not cover params.%s although the role uses it: state saved under a different %s seed restores silently" % (k, k))
            # Z6-binding: the fingerprint must bind *which* element plays which role:
            # each used element's encoding sits at a fixed position of the hashed concatenation,
            # and exchanging two of them changes the fingerprint term.
            from ..terms import subst
            hashed = [x for x in subterms(g) if is_app(x, "H")]
            parts = list(hashed[0].args[0].args) if len(hashed) == 1 and is_app(hashed[0].args[0], "cat") else []
            for k in sorted(used):
                enc = mk_app(".to_bytes", (pf2[k],))
                ok = enc in parts or App("H", (enc,)) in parts
                ctx.ob("Z6-binding", "%s fingerprint position of %s" % (cname, k), ok,
                       "the encoding of params.%s is a field of its own, at a fixed position of the hashed concatenation" % k if ok else
                       "the encoding of params.%s is not a positional field of the fingerprint (fields: %s): the fingerprint does not determine which element is %s"
                       % (k, [show(p_, maxdepth=3) for p_ in parts], k))
            ul = sorted(used)
            for i in range(len(ul)):
                for j in range(i + 1, len(ul)):
                    a_, b_ = pf2[ul[i]], pf2[ul[j]]
                    tmp = Sym("<swap>")
                    swapped = subst(subst(subst(g, {a_: tmp}), {b_: a_}), {tmp: b_})
                    ok = swapped != g
                    ctx.ob("Z6-binding", "%s fingerprint under %s<->%s" % (cname, ul[i], ul[j]), ok,
                           "exchanging %s and %s changes the fingerprint" % (ul[i], ul[j]) if ok else
                           "the fingerprint is symmetric in %s and %s: state saved under parameters with the two elements exchanged restores silently" % (ul[i], ul[j]))
            dep = any(isinstance(x, Sym) and x.n == "G2" for x in subterms(g))
            ctx.ob("Z6-group", cname, dep, "fingerprint is computed from the reader's own group" if dep else
                   "fingerprint does not depend on the reader's params argument")
