"""Sharing obligations between properties: a property whose statement is a conjunction
re-runs the rule sets it depends on and includes their obligations under a prefix."""
import importlib

from ..report import Ctx


def include(ctx, world, modname, prefix, keep=None):
    sub = Ctx(modname.upper(), ctx.tier, "other")
    mod = importlib.import_module("sa.rules." + modname)
    from ..loader import AnalysisError
    aborted = None
    try:
        mod.check(sub, world)
    except AnalysisError as e:
        # what the included rule set established before it had to give up still stands (a violation found there is a
        # violation here); the including check then ends without a verdict of its own, as the included one did
        aborted = e
    n = 0
    for o in sub.obs:
        if keep is not None and not keep(o):
            continue
        if aborted is not None and o.ok:
            continue
        n += 1
        ctx.ob("%s/%s" % (prefix, o.rule), o.instance, o.ok, o.detail, o.site, o.witness)
    ctx.count("included_from_" + modname, n)
    if aborted is not None:
        raise aborted
    return sub
