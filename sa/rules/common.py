"""Sharing obligations between properties: a property whose statement is a conjunction
re-runs the rule sets it depends on and includes their obligations under a prefix."""
import importlib

from ..report import Ctx


def include(ctx, world, modname, prefix, keep=None):
    sub = Ctx(modname.upper(), ctx.tier, "other")
    mod = importlib.import_module("sa.rules." + modname)
    mod.check(sub, world)
    n = 0
    for o in sub.obs:
        if keep is not None and not keep(o):
            continue
        n += 1
        ctx.ob("%s/%s" % (prefix, o.rule), o.instance, o.ok, o.detail, o.site, o.witness)
    ctx.count("included_from_" + modname, n)
    return sub
