"""C10 - the persisted state format is stable across library versions (DESIGN 4.10).

The released (0.9 = pinned tree) format is written down below as terms over the
session's fields; the writer's dict term must equal it and the reader, evaluated on
an opaque blob, must access exactly those keys with the inverse decodings."""
from ..terms import Const, Sym, App, Obj, DictV, mk_app, is_app, show, subterms
from ..terms import V as V_
from .. import session
from ..session import H

# released format: JSON key -> how the value is formed
KEYS = {
    "SPAKE2_A": ("hashed_params", "side", "idA", "idB", "password", "xy_scalar"),
    "SPAKE2_B": ("hashed_params", "side", "idA", "idB", "password", "xy_scalar"),
    "SPAKE2_Symmetric": ("hashed_params", "side", "idS", "password", "xy_scalar"),
}
SIDE = {"SPAKE2_A": "A", "SPAKE2_B": "B", "SPAKE2_Symmetric": "S"}
ID_PARAM = {"idA": "idA", "idB": "idB", "idS": "idSymmetric"}


def hexs(t):
    return mk_app("hexs", (t,))


def fingerprint(G, pf, cname):
    probe_e = mk_app(".to_bytes", (mk_app(".arbitrary_element", (G, Const(b""))),))
    probe_s = mk_app(".scalar_to_bytes", (G, mk_app(".password_to_scalar", (G, Const(b"")))))
    els = ("S",) if cname == "SPAKE2_Symmetric" else ("M", "N")
    return hexs(H(mk_app("cat", (probe_e, probe_s) + tuple(mk_app(".to_bytes", (pf[k],)) for k in els))))


def check(ctx, world):
    ctx.explanation = (
        "Released-format table (0.9 / pinned tree): keys hashed_params, side, password, xy_scalar + idA, idB | idS; values "
        "hexlify(field).decode('ascii'); side as ASCII text; scalar as hexlify(group.scalar_to_bytes(x)); hashed_params = "
        "sha256(arbitrary_element(b'').to_bytes() + scalar_to_bytes(password_to_scalar(b'')) + M.to_bytes() + N.to_bytes())"
        ".hexdigest() (symmetric: ... + S.to_bytes()); outer json.dumps(..).encode('ascii'). Rules: W the writer's dict "
        "term (normal form) equals the table; R the reader, evaluated on an opaque blob, parses json.loads(blob.decode('ascii')), "
        "accesses exactly the table's keys by constant subscripts (so key order and whitespace are irrelevant) and builds each "
        "field by the inverse decoding (unhexlify for bytes fields, group.bytes_to_scalar for the scalar, ASCII for side, "
        "string comparison for the fingerprint, which is recomputed by the same recipe).")
    ctx.min_obligations = 32
    ev = session.new_ev(world)
    for cname in session.PUBLIC_CLASSES:
        for cm in session.models(world, ev, cname):
            pf = cm.st_new.heap[cm.params.oid]
            G = pf["group"]
            pw = cm.syms["password"]
            for s, sers in zip(cm.started, cm.serialize):
                scal = [v for k, v in s.state.heap[cm.obj.oid].items() if is_app(v, ".random_scalar")]
                if len(scal) != 1:
                    # the scalar field = whichever field value is persisted in the released scalar encoding
                    cand = []
                    for so in session.rets(sers):
                        for t in subterms(so.value):
                            if is_app(t, ".scalar_to_bytes") and len(t.args) == 2 and t.args[1] in s.state.heap[cm.obj.oid].values():
                                cand.append(t.args[1])
                    scal = cand[:1] or [Sym("<no scalar field>")]
                x = scal[0]
                want = {"hashed_params": fingerprint(G, pf, cname), "side": Const(SIDE[cname]),
                        "password": hexs(pw), "xy_scalar": hexs(mk_app(".scalar_to_bytes", (G, x)))}
                for k in KEYS[cname]:
                    if k in ID_PARAM:
                        want[k] = hexs(cm.syms[ID_PARAM[k]])
                for so in session.rets(sers):
                    v = so.value
                    dd = [t for t in subterms(v) if isinstance(t, DictV)]
                    okouter = is_app(v, ".encode") and is_app(v.args[0], "json.dumps") and len(dd) == 1
                    ctx.ob("W-outer", cname, okouter, "json.dumps(dict).encode('ascii')" if okouter else
                           "serialize() is not json.dumps(dict).encode('ascii'): %s" % show(v, maxdepth=3), so.site)
                    if not dd:
                        continue
                    d = dd[0].items
                    ok = set(d) == set(KEYS[cname])
                    ctx.ob("W-keys", cname, ok, "keys %s" % sorted(d) if ok else
                           "keys %s differ from the released %s" % (sorted(d), sorted(KEYS[cname])), so.site)
                    for k in KEYS[cname]:
                        if k not in d:
                            continue
                        ok = d[k] == want[k]
                        ctx.ob("W-value", "%s[%s]" % (cname, k), ok, "value = %s" % show(want[k], maxdepth=5) if ok else
                               "value of %r is %s, released format has %s" % (k, show(d[k], maxdepth=6), show(want[k], maxdepth=6)), so.site)
            # ---- reader on released-format objects with concrete keys in every key order (R-order)
            _reader_key_orders(ctx, world, ev, cm, cname, G)
            # ---- reader on an opaque blob
            blob = Sym("blob", "bytes")
            st = cm.st_new.fork()
            base = len(st.pc)
            outs = session.restore(world, ev, cm.cls, blob, st.fork(), cm.params)
            rets = session.rets(outs)
            ctx.ob("R-returns", cname, bool(rets), "reader has a returning path on a well-formed blob" if rets else
                   "reader never returns on an opaque blob: %s" % sorted({str(o.exc) for o in outs}))
            J = mk_app("json.loads", (mk_app(".decode", (blob, Const("ascii"))),))

            def item(k):
                return mk_app("index", (J, Const(k)))

            def unhex(k):
                return mk_app("unhex", (item(k),))
            for o in rets:
                ctx.require(isinstance(o.value, Obj), "%s.from_serialized does not return an instance" % cname)
                # the blob is a well-formed stored object: every released key is present, so d.get(k[, default]) is d[k],
                # and dict(d) is a copy with the same members (accepted idioms of the reader, normalised here only)
                f = dict((k_, _norm_reader(v_, J)) for k_, v_ in o.state.heap[o.value.oid].items())
                o.state.pc[base:] = [(_norm_reader(t, J), p, s_) for (t, p, s_) in o.state.pc[base:]]
                terms = list(f.values()) + [t for (t, p, _) in o.state.pc[base:]]
                used = set()
                bad_use = []
                for t in terms:
                    for x_ in subterms(t):
                        if is_app(x_, "index") and x_.args[0] == J and isinstance(x_.args[1], Const):
                            used.add(x_.args[1].v)
                        elif isinstance(x_, App) and J in x_.args and not is_app(x_, "index"):
                            bad_use.append(x_.f)
                        elif is_app(x_, "json.loads") and x_ != J:
                            bad_use.append("json.loads of something else")
                ok = used == set(KEYS[cname]) and not bad_use
                ctx.ob("R-keys", cname, ok, "reader parses json.loads(blob.decode('ascii')) and reads exactly %s by key" % sorted(used) if ok else
                       "reader accesses keys %s (released: %s)%s" % (sorted(used), sorted(KEYS[cname]), "; other uses of the parsed object: %s" % bad_use if bad_use else ""), o.site)
                # fields
                wantf = {cm.syms["password"]: unhex("password")}
                for k in KEYS[cname]:
                    if k in ID_PARAM:
                        wantf[cm.syms[ID_PARAM[k]]] = unhex(k)
                for k, v in sorted(cm.fields_new.items()):
                    if v in wantf:
                        ok = f.get(k) == wantf[v]
                        ctx.ob("R-field", "%s.%s" % (cname, k), ok, "restored from %s" % show(wantf[v], maxdepth=4) if ok else
                               "field %s is restored as %s, released format requires %s" % (k, show(f.get(k), maxdepth=5), show(wantf[v], maxdepth=5)), o.site)
                sc = mk_app(".bytes_to_scalar", (G, unhex("xy_scalar")))
                ok = sc in f.values()
                ctx.ob("R-field", "%s scalar" % cname, ok, "scalar = group.bytes_to_scalar(unhexlify(d['xy_scalar']))" if ok else
                       "no field of the restored instance is group.bytes_to_scalar(unhexlify(d['xy_scalar']))", o.site)
                conds = [(t, p) for (t, p, _) in o.state.pc[base:]]
                side_ok = any(is_app(t, "Eq", "NotEq") and ((t.f == "Eq") == p) and
                              ({mk_app(".encode", (item("side"), Const("ascii"))), Const(SIDE[cname].encode())} == set(t.args)
                               or {item("side"), Const(SIDE[cname])} == set(t.args)) for t, p in conds)
                ctx.ob("R-side", cname, side_ok, "side must equal %r" % SIDE[cname] if side_ok else
                       "reader does not require d['side'] == %r (conditions: %s)" % (SIDE[cname], [show(t, maxdepth=4) + "=" + str(p) for t, p in conds]), o.site)
                fp = fingerprint(G, pf, cname)
                fp_ok = any(is_app(t, "Eq", "NotEq") and ((t.f == "Eq") == p) and {item("hashed_params"), fp} == set(t.args) for t, p in conds)
                ctx.ob("R-fingerprint", cname, fp_ok, "d['hashed_params'] must equal the recomputed released-recipe fingerprint" if fp_ok else
                       "reader does not compare d['hashed_params'] with the fingerprint of the released recipe", o.site)


def _norm_reader(t, J):
    from ..terms import TupleV
    memo = {}

    def go(x):
        k = x._key
        if k in memo:
            return memo[k]
        if isinstance(x, App):
            r = mk_app(x.f, [go(a) for a in x.args], [(kk, go(v)) for kk, v in x.kw])
            if r.f == "dict" and len(r.args) == 1 and not r.kw and r.args[0] == J:
                r = J
            elif r.f == ".get" and len(r.args) in (2, 3) and r.args[0] == J and isinstance(r.args[1], Const):
                r = mk_app("index", (J, r.args[1]))
        elif isinstance(x, TupleV):
            r = TupleV([go(a) for a in x.items], x.kind)
        else:
            r = x
        memo[k] = r
        return r
    return go(t) if hasattr(t, "_key") else t


def _orders(keys, tier):
    import itertools
    keys = tuple(keys)
    if tier == "thorough":
        return list(itertools.permutations(keys))
    out = [keys, tuple(reversed(keys))]
    out += [keys[i:] + keys[:i] for i in range(1, len(keys))]
    for i in range(len(keys) - 1):
        l = list(keys)
        l[i], l[i + 1] = l[i + 1], l[i]
        out.append(tuple(l))
    seen, res = set(), []
    for o in out:
        if o not in seen:
            seen.add(o)
            res.append(o)
    return res


def _fieldsig(ev, o):
    """Field map of the returned instance, comparable across evaluations (heap references by class name)."""
    from ..terms import FuncV, ClassV
    f = o.state.heap[o.value.oid]
    sig = {}
    for k, v in f.items():
        if isinstance(v, Obj):
            sig[k] = ("obj", v.cls.name)
        elif isinstance(v, (FuncV, ClassV)):
            sig[k] = ("callable", getattr(v, "name", None) or getattr(getattr(v, "node", None), "name", "?"))
        else:
            sig[k] = v
    return sig


def _reader_key_orders(ctx, world, ev, cm, cname, G):
    """'regardless of key order': the stored JSON object is given to the reader with the released keys bound to
    arbitrary strings, once per key order (quick: identity, reversal, rotations, adjacent transpositions; thorough:
    every permutation).  Every order must give the same returning paths - same fields of the restored instance,
    same conditions on the stored values - and the fields must be the released decodings of the values stored
    *under their own key*.  Decided on concrete keys, so it also covers readers that iterate the parsed object."""
    keys = KEYS[cname]
    vals = dict((k, Sym("stored_" + k, "str")) for k in keys)
    wantf = {cm.syms["password"]: mk_app("unhex", (vals["password"],))}
    for k in keys:
        if k in ID_PARAM:
            wantf[cm.syms[ID_PARAM[k]]] = mk_app("unhex", (vals[k],))
    want_scalar = mk_app(".bytes_to_scalar", (G, mk_app("unhex", (vals["xy_scalar"],))))
    ref = None
    n = 0
    fs = cm.cls.lookup("from_serialized")
    fsite = (getattr(fs[2].mod, "relpath", fs[2].mod.path), fs[1].lineno, "from_serialized") if fs and fs[0] == "func" and hasattr(fs[2], "mod") and hasattr(fs[2].mod, "path") else None
    for order in _orders(keys, ctx.tier):
        D = DictV([(k, vals[k]) for k in order])
        blob = mk_app(".encode", (mk_app("json.dumps", (D,)), Const("ascii")))
        st = cm.st_new.fork()
        base = len(st.pc)
        outs = session.restore(world, ev, cm.cls, blob, st, cm.params)
        rets = [o for o in session.rets(outs) if isinstance(o.value, Obj)]
        n += 1
        inst = "%s keys in order %s" % (cname, ",".join(order))
        if not rets:
            ctx.ob("R-order", inst, False, "from_serialized returns no instance for a released-format object whose keys come in this order "
                   "(outcomes: %s)" % sorted({str(o.exc) if o.kind == "raise" else "returns %s" % type(o.value).__name__ for o in outs}),
                   next((o.site for o in outs if o.site), None))
            continue
        sigs = sorted(((_fieldsig(ev, o), frozenset((t, p) for (t, p, _) in o.state.pc[base:])) for o in rets),
                      key=lambda x: sorted((k, str(getattr(v, "_key", v))) for k, v in x[0].items()))
        if ref is None:
            ref = (order, sigs)
            # the reference order itself must decode every field from the value stored under its own key
            for sig, _pc in sigs:
                for k, v in sorted(cm.fields_new.items()):
                    if v in wantf:
                        ok = sig.get(k) == wantf[v]
                        ctx.ob("R-order-field", "%s.%s" % (cname, k), ok, "restored from %s" % show(wantf[v], maxdepth=4) if ok else
                               "field %s is restored as %s, released format requires %s" % (k, show(sig.get(k), maxdepth=5) if isinstance(sig.get(k), V_) else sig.get(k), show(wantf[v], maxdepth=5)), rets[0].site)
                ok = want_scalar in [v for v in sig.values() if isinstance(v, V_)]
                ctx.ob("R-order-field", "%s scalar" % cname, ok, "scalar = group.bytes_to_scalar(unhexlify(stored xy_scalar))" if ok else
                       "no field of the restored instance is group.bytes_to_scalar(unhexlify(stored xy_scalar))", rets[0].site)
            continue
        ok = len(sigs) == len(ref[1]) and all(a[0] == b[0] and a[1] == b[1] for a, b in zip(sigs, ref[1]))
        detail = "same restored instance as with the released key order"
        if not ok:
            diffs = []
            for a, b in zip(sigs, ref[1]):
                for k in sorted(set(a[0]) | set(b[0])):
                    if a[0].get(k) != b[0].get(k):
                        va, vb = a[0].get(k), b[0].get(k)
                        diffs.append("%s = %s (released order: %s)" % (k, show(va, maxdepth=4) if isinstance(va, V_) else va,
                                                                       show(vb, maxdepth=4) if isinstance(vb, V_) else vb))
                if a[1] != b[1]:
                    diffs.append("conditions on the stored values differ")
            if len(sigs) != len(ref[1]):
                diffs.append("%d returning paths instead of %d" % (len(sigs), len(ref[1])))
            detail = "the restored instance depends on the order of the keys in the stored JSON object: " + "; ".join(diffs[:4])
        ctx.ob("R-order", inst, ok, detail, rets[0].site or fsite)
    ctx.count("reader evaluations on key orders", n)
