"""C10 - the persisted state format is stable across library versions (DESIGN 4.10).

The released (0.9 = pinned tree) format is written down below as terms over the
session's fields; the writer's dict term must equal it and the reader, evaluated on
an opaque blob, must access exactly those keys with the inverse decodings."""
from ..terms import Const, Sym, App, Obj, DictV, mk_app, is_app, show, subterms
from .. import session
from ..session import H

# released format: JSON key -> how the value is formed
KEYS = {
    "SPAKE2_A": ("hashed_params", "side", "idA", "idB", "password", "xy_scalar"),
    "SPAKE2_B": ("hashed_params", "side", "idA", "idB", "password", "xy_scalar"),
    "SPAKE2_Symmetric": ("hashed_params", "side", "idS", "password", "xy_scalar"),
}
SIDE = {"SPAKE2_A": "A", "SPAKE2_B": "B", "SPAKE2_Symmetric": "S"}
ID_PARAM = {"idA": "idA", "idB": "idB", "idS": "idSymmetric"}


def hexs(t):
    return mk_app("hexs", (t,))


def fingerprint(G, pf, cname):
    probe_e = mk_app(".to_bytes", (mk_app(".arbitrary_element", (G, Const(b""))),))
    probe_s = mk_app(".scalar_to_bytes", (G, mk_app(".password_to_scalar", (G, Const(b"")))))
    els = ("S",) if cname == "SPAKE2_Symmetric" else ("M", "N")
    return hexs(H(mk_app("cat", (probe_e, probe_s) + tuple(mk_app(".to_bytes", (pf[k],)) for k in els))))


def check(ctx, world):
    ctx.explanation = (
        "Released-format table (0.9 / pinned tree): keys hashed_params, side, password, xy_scalar + idA, idB | idS; values "
        "hexlify(field).decode('ascii'); side as ASCII text; scalar as hexlify(group.scalar_to_bytes(x)); hashed_params = "
        "sha256(arbitrary_element(b'').to_bytes() + scalar_to_bytes(password_to_scalar(b'')) + M.to_bytes() + N.to_bytes())"
        ".hexdigest() (symmetric: ... + S.to_bytes()); outer json.dumps(..).encode('ascii'). Rules: W the writer's dict "
        "term (normal form) equals the table; R the reader, evaluated on an opaque blob, parses json.loads(blob.decode('ascii')), "
        "accesses exactly the table's keys by constant subscripts (so key order and whitespace are irrelevant) and builds each "
        "field by the inverse decoding (unhexlify for bytes fields, group.bytes_to_scalar for the scalar, ASCII for side, "
        "string comparison for the fingerprint, which is recomputed by the same recipe).")
    ctx.min_obligations = 32
    ev = session.new_ev(world)
    for cname in session.PUBLIC_CLASSES:
        for cm in session.models(world, ev, cname):
            pf = cm.st_new.heap[cm.params.oid]
            G = pf["group"]
            pw = cm.syms["password"]
            for s, sers in zip(cm.started, cm.serialize):
                scal = [v for k, v in s.state.heap[cm.obj.oid].items() if is_app(v, ".random_scalar")]
                if len(scal) != 1:
                    # the scalar field = whichever field value is persisted in the released scalar encoding
                    cand = []
                    for so in session.rets(sers):
                        for t in subterms(so.value):
                            if is_app(t, ".scalar_to_bytes") and len(t.args) == 2 and t.args[1] in s.state.heap[cm.obj.oid].values():
                                cand.append(t.args[1])
                    scal = cand[:1] or [Sym("<no scalar field>")]
                x = scal[0]
                want = {"hashed_params": fingerprint(G, pf, cname), "side": Const(SIDE[cname]),
                        "password": hexs(pw), "xy_scalar": hexs(mk_app(".scalar_to_bytes", (G, x)))}
                for k in KEYS[cname]:
                    if k in ID_PARAM:
                        want[k] = hexs(cm.syms[ID_PARAM[k]])
                for so in session.rets(sers):
                    v = so.value
                    dd = [t for t in subterms(v) if isinstance(t, DictV)]
                    okouter = is_app(v, ".encode") and is_app(v.args[0], "json.dumps") and len(dd) == 1
                    ctx.ob("W-outer", cname, okouter, "json.dumps(dict).encode('ascii')" if okouter else
                           "serialize() is not json.dumps(dict).encode('ascii'): %s" % show(v, maxdepth=3), so.site)
                    if not dd:
                        continue
                    d = dd[0].items
                    ok = set(d) == set(KEYS[cname])
                    ctx.ob("W-keys", cname, ok, "keys %s" % sorted(d) if ok else
                           "keys %s differ from the released %s" % (sorted(d), sorted(KEYS[cname])), so.site)
                    for k in KEYS[cname]:
                        if k not in d:
                            continue
                        ok = d[k] == want[k]
                        ctx.ob("W-value", "%s[%s]" % (cname, k), ok, "value = %s" % show(want[k], maxdepth=5) if ok else
                               "value of %r is %s, released format has %s" % (k, show(d[k], maxdepth=6), show(want[k], maxdepth=6)), so.site)
            # ---- reader on an opaque blob
            blob = Sym("blob", "bytes")
            st = cm.st_new.fork()
            base = len(st.pc)
            outs = session.restore(world, ev, cm.cls, blob, st.fork(), cm.params)
            rets = session.rets(outs)
            ctx.ob("R-returns", cname, bool(rets), "reader has a returning path on a well-formed blob" if rets else
                   "reader never returns on an opaque blob: %s" % sorted({str(o.exc) for o in outs}))
            J = mk_app("json.loads", (mk_app(".decode", (blob, Const("ascii"))),))

            def item(k):
                return mk_app("index", (J, Const(k)))

            def unhex(k):
                return mk_app("unhex", (item(k),))
            for o in rets:
                ctx.require(isinstance(o.value, Obj), "%s.from_serialized does not return an instance" % cname)
                f = o.state.heap[o.value.oid]
                terms = list(f.values()) + [t for (t, p, _) in o.state.pc[base:]]
                used = set()
                bad_use = []
                for t in terms:
                    for x_ in subterms(t):
                        if is_app(x_, "index") and x_.args[0] == J and isinstance(x_.args[1], Const):
                            used.add(x_.args[1].v)
                        elif isinstance(x_, App) and J in x_.args and not is_app(x_, "index"):
                            bad_use.append(x_.f)
                        elif is_app(x_, "json.loads") and x_ != J:
                            bad_use.append("json.loads of something else")
                ok = used == set(KEYS[cname]) and not bad_use
                ctx.ob("R-keys", cname, ok, "reader parses json.loads(blob.decode('ascii')) and reads exactly %s by key" % sorted(used) if ok else
                       "reader accesses keys %s (released: %s)%s" % (sorted(used), sorted(KEYS[cname]), "; other uses of the parsed object: %s" % bad_use if bad_use else ""), o.site)
                # fields
                wantf = {cm.syms["password"]: unhex("password")}
                for k in KEYS[cname]:
                    if k in ID_PARAM:
                        wantf[cm.syms[ID_PARAM[k]]] = unhex(k)
                for k, v in sorted(cm.fields_new.items()):
                    if v in wantf:
                        ok = f.get(k) == wantf[v]
                        ctx.ob("R-field", "%s.%s" % (cname, k), ok, "restored from %s" % show(wantf[v], maxdepth=4) if ok else
                               "field %s is restored as %s, released format requires %s" % (k, show(f.get(k), maxdepth=5), show(wantf[v], maxdepth=5)), o.site)
                sc = mk_app(".bytes_to_scalar", (G, unhex("xy_scalar")))
                ok = sc in f.values()
                ctx.ob("R-field", "%s scalar" % cname, ok, "scalar = group.bytes_to_scalar(unhexlify(d['xy_scalar']))" if ok else
                       "no field of the restored instance is group.bytes_to_scalar(unhexlify(d['xy_scalar']))", o.site)
                conds = [(t, p) for (t, p, _) in o.state.pc[base:]]
                side_ok = any(is_app(t, "Eq", "NotEq") and ((t.f == "Eq") == p) and
                              ({mk_app(".encode", (item("side"), Const("ascii"))), Const(SIDE[cname].encode())} == set(t.args)
                               or {item("side"), Const(SIDE[cname])} == set(t.args)) for t, p in conds)
                ctx.ob("R-side", cname, side_ok, "side must equal %r" % SIDE[cname] if side_ok else
                       "reader does not require d['side'] == %r (conditions: %s)" % (SIDE[cname], [show(t, maxdepth=4) + "=" + str(p) for t, p in conds]), o.site)
                fp = fingerprint(G, pf, cname)
                fp_ok = any(is_app(t, "Eq", "NotEq") and ((t.f == "Eq") == p) and {item("hashed_params"), fp} == set(t.args) for t, p in conds)
                ctx.ob("R-fingerprint", cname, fp_ok, "d['hashed_params'] must equal the recomputed released-recipe fingerprint" if fp_ok else
                       "reader does not compare d['hashed_params'] with the fingerprint of the released recipe", o.site)
