"""C15 - number, scalar and element encodings are fixed-width bijections (DESIGN 4.15).

Codec domain: the rewrite table maps "%0{2W}x" % v + unhexlify and v.to_bytes(W,'big')
to int2be(v, W), [::-1] to rev, int(hexlify(b),16)/int.from_bytes to be2int.  Each
encoder/decoder pair must then agree on byte order and width and match the released
format (big-endian integer groups, little-endian 32-byte Ed25519)."""
from ..terms import Const, Sym, App, TupleV, Obj, FuncV, mk_app, is_app, show, subterms
from ..evalr import Ev, Policy
from ..loader import AnalysisError
from .. import session, groupmodel as gm
from .c05 import conds_of, has_eq, has_ne


def width_forms(v):
    """Accepted spellings of size_bytes(v) = ceil(bit_length(v) / 8) with bit_length(0) counted as 1."""
    bl = mk_app("Or", (App("bit_length", (v,)), Const(1)))
    bl2 = App("bit_length", (v,))
    out = []
    for b in (bl, bl2):
        out.append(mk_app("int", (mk_app("math.ceil", (mk_app("Div", (b, Const(8))),)),)))
        out.append(mk_app("math.ceil", (mk_app("Div", (b, Const(8))),)))
        out.append(mk_app("FloorDiv", (mk_app("Add", (b, Const(7))), Const(8))))
    return out


def is_width(term, v, conds=()):
    """Is `term` = size_bytes(v) = ceil(max(bit_length(v), 1) / 8)?  Known spellings are accepted
    as they are; any other spelling is folded for every bit length 0..4224 on the paths whose
    bit-length-only conditions hold for that length (form-independent finite case split)."""
    if term is None:
        return False
    if term in width_forms(v):
        return True
    from ..terms import subst
    from .. import refmodel
    blt = App("bit_length", (v,))
    if not any(x == blt for x in subterms(term)):
        return False
    blconds = [(t, p) for (t, p) in conds if any(x == blt for x in subterms(t))]
    for b in range(0, 4225):
        sub = {blt: Const(b)}
        applies = True
        for (t, p) in blconds:
            try:
                if bool(refmodel.eval_closed(subst(t, sub))) != p:
                    applies = False
                    break
            except AnalysisError:
                pass
        if not applies:
            continue
        try:
            if refmodel.eval_closed(subst(term, sub)) != (max(b, 1) + 7) // 8:
                return False
        except AnalysisError:
            return False
    return True


def decoder_total(ctx, rule, inst, o, inp, allowed, site=None, outs=(), width=None, same_width=None):
    """The decoder must accept every output of the encoder: a condition on its accepting path that
    mentions the input may only be one of the listed range/type checks, a width check (any
    comparison with len(input); exactness is the -width rule's business), or a mere branch (the
    sibling path with the condition negated accepts as well)."""
    extra = []
    mine = [(t, p) for (t, p, _) in o.state.pc]
    accepting = [[(t, p) for (t, p, _) in x.state.pc] for x in outs if x.kind == "return" and x is not o]
    for i, (t, p) in enumerate(mine):
        if not any(x == inp for x in subterms(t)):
            continue
        if width is not None and any(is_app(x, "len") and x.args == (inp,) for x in subterms(t)):
            # a length condition must hold for the width the encoder produces
            from ..terms import subst
            r = subst(t, {mk_app("len", (inp,)): width})
            if isinstance(r, Const) and bool(r.v) != p:
                extra.append(show(t, maxdepth=4) + "=" + str(p) + " (false for the encoder's own width %s)" % show(width, maxdepth=3))
                continue
            if same_width is not None and not isinstance(r, Const) and is_app(t, "Eq", "NotEq") and len(t.args) == 2 \
                    and p == (t.f == "Eq") and any(a == mk_app("len", (inp,)) for a in t.args):
                # len(input) == T on the accepting path: T has to be the width the encoder produces, in whatever spelling
                T = [a for a in t.args if a != mk_app("len", (inp,))][0]
                if not same_width(T):
                    extra.append(show(t, maxdepth=4) + "=" + str(p) + " (%s is not the width the encoder produces, %s)" % (show(T, maxdepth=3), show(width, maxdepth=3)))
                    continue
        if (t, p) in allowed or is_app(t, "isinstance"):
            continue
        if is_app(t, "Eq", "NotEq", "Lt", "LtE", "Gt", "GtE") and any(is_app(a, "len") for a in t.args):
            continue                          # a length condition (of the input or of an intermediate encoding)
        if any(pc[:i] == mine[:i] and len(pc) > i and pc[i] == (t, not p) for pc in accepting):
            continue                          # a branch, not a rejection
        extra.append(show(t, maxdepth=4) + "=" + str(p))
    ctx.ob(rule, inst, not extra, "accepts every encoding the encoder produces (only width/range/type conditions on the accepting path)" if not extra else
           "the decoder also requires %s: some valid encodings are refused, so it is not the inverse of the encoder" % extra, site)


def util(ctx, world, ev):
    ut = world.module("spake2.util")
    n2b = ev.module_global(ut, "number_to_bytes", None)
    b2n = ev.module_global(ut, "bytes_to_number", None)
    szb = ev.module_global(ut, "size_bytes", None)
    ctx.require(all(isinstance(f, FuncV) for f in (n2b, b2n, szb)), "anchor vanished: util.number_to_bytes / bytes_to_number / size_bytes")
    num, maxval = Sym("num", "int"), Sym("maxval", "int")
    site = (ut.relpath, n2b.node.lineno, "number_to_bytes")
    # size_bytes
    outs = ev.run(szb, [maxval], [], world.static.fork())
    rets = session.rets(outs)
    ok = len(outs) == len(rets) and len(rets) >= 1 and all(is_width(o.value, maxval, conds_of(o)) for o in rets)
    ctx.ob("K1-width", "size_bytes", ok, "size_bytes(v) = ceil(bit_length(v)/8) (at least 1)" if ok else
           "size_bytes is not ceil(bit_length/8): %s" % [show(o.value, maxdepth=6) for o in rets], (ut.relpath, szb.node.lineno, "size_bytes"))
    W = rets[0].value if rets else None
    # encoder
    outs = ev.run(n2b, [num, maxval], [], world.static.fork())
    rets = session.rets(outs)
    ctx.total(rets, outs, "K-total", "number_to_bytes has no returning path")
    for o in rets:
        ok = is_app(o.value, "int2be") and o.value.args[0] == num and is_width(o.value.args[1], maxval, conds_of(o))
        ctx.ob("K1-encoder", "number_to_bytes", ok, "big-endian, exactly size_bytes(maxval) bytes: int2be(num, size_bytes(maxval))" if ok else
               "number_to_bytes returns %s, expected the big-endian encoding in size_bytes(maxval) bytes" % show(o.value, maxdepth=6), site)
        conds = conds_of(o)
        ok = (mk_app("Gt", (num, maxval)), False) in conds or (mk_app("LtE", (num, maxval)), True) in conds \
            or (mk_app("Lt", (maxval, num)), False) in conds or (mk_app("GtE", (maxval, num)), True) in conds
        ctx.ob("K1-guard", "number_to_bytes returns only for num <= maxval", ok,
               "returning path requires exactly num <= maxval" if ok else
               "the overflow guard is not 'num > maxval raises': conditions %s" % sorted(show(t, maxdepth=3) + "=" + str(p) for t, p in conds), site)
    for o in rets:
        allowed = {(mk_app("Gt", (num, maxval)), False), (mk_app("LtE", (num, maxval)), True), (mk_app("Lt", (maxval, num)), False), (mk_app("GtE", (maxval, num)), True),
                   # the domain is 0 <= n: refusing negative numbers refuses nothing that has an encoding
                   (mk_app("LtE", (Const(0), num)), True), (mk_app("Lt", (num, Const(0))), False)}
        extra = [show(t, maxdepth=4) + "=" + str(p) for (t, p, _) in o.state.pc[len(world.static.pc):]
                 if (t, p) not in allowed and not is_app(t, "isinstance") and not (is_app(t, "Eq", "NotEq") and any(is_app(a, "len") for a in t.args))
                 and any(x == num for x in subterms(t))]      # (a case split on maxval alone refuses no number)
        ctx.ob("K1-total", "number_to_bytes", not extra, "every 0 <= n <= maxval is encoded (no other condition on the returning path)" if not extra else
               "number_to_bytes also requires %s: some n <= maxval are refused" % extra, site)
    over = [o for o in outs if o.kind == "raise" and ((mk_app("Gt", (num, maxval)), True) in conds_of(o) or (mk_app("LtE", (num, maxval)), False) in conds_of(o)
                                                      or (mk_app("Lt", (maxval, num)), True) in conds_of(o))]
    nonneg = {(mk_app("LtE", (Const(0), num)), True), (mk_app("Lt", (num, Const(0))), False)}
    ok = bool(over) and all(len([c for c in o.state.pc[len(world.static.pc):] if (c[0], c[1]) not in nonneg]) == 1 for o in over)
    ctx.ob("K1-guard", "number_to_bytes raises for num > maxval", ok, "n > maxval raises before anything is encoded" if ok else
           "no path raises under exactly the condition num > maxval", site)
    # decoder
    s = Sym("s", "bytes")
    outs = ev.run(b2n, [s], [], world.static.fork())
    rets = session.rets(outs)
    ok = len(rets) == 1 and rets[0].value == mk_app("be2int", (s,))
    ctx.ob("K1-decoder", "bytes_to_number", ok, "big-endian integer of the byte string" if ok else
           "bytes_to_number is not the big-endian integer: %s" % [show(o.value) for o in rets], (ut.relpath, b2n.node.lineno, "bytes_to_number"))
    return W


def integer_group(ctx, world, ev):
    st, g, syms = gm.symbolic_int_group(world, ev)
    f = st.heap[g.oid]
    p, q = syms["p"], syms["q"]
    gname = g.cls.name
    for label, meth_enc, meth_dec, mod_sym, wfield in (("scalar", "scalar_to_bytes", "bytes_to_scalar", q, "scalar_size_bytes"),):
        i = Sym("i", "int")
        outs = ev.run_method(g, meth_enc, [i], st=st.fork())
        rets = session.rets(outs)
        ctx.total(rets, outs, "K-total", "%s.%s has no returning path" % (gname, meth_enc))
        wf = gm.attr_of(ev, g, wfield, st)
        for o in rets:
            extra = [show(t, maxdepth=4) + "=" + str(p) for (t, p, _) in o.state.pc if any(x == i for x in subterms(t))
                     and not is_app(t, "isinstance") and not (is_app(t, "Eq", "NotEq") and any(is_app(a, "len") for a in t.args))
                     and (t, p) not in {(mk_app("Gt", (i, mod_sym)), False), (mk_app("LtE", (i, mod_sym)), True), (mk_app("Lt", (i, mod_sym)), True),
                                        (mk_app("GtE", (i, mod_sym)), False), (mk_app("LtE", (Const(0), i)), True), (mk_app("Lt", (i, Const(0))), False)}]
            ctx.ob("K2-encoder-total", "%s.%s" % (gname, meth_enc), not extra, "every scalar in [0, q) is encoded" if not extra else
                   "the scalar encoder also requires %s: some scalars in [0, q) cannot be serialised" % extra, (g.cls.mod.relpath, 0, meth_enc))
            v = o.value
            ok = is_app(v, "int2be") and v.args[0] == i and v.args[1] == wf and is_width(wf, mod_sym, conds_of(o))
            ctx.ob("K2-encoder", "%s.%s" % (gname, meth_enc), ok,
                   "big-endian, exactly scalar_size_bytes = size_bytes(q) bytes" if ok else
                   "scalar encoder is %s, expected int2be(i, size_bytes(q)) with width == scalar_size_bytes" % show(v, maxdepth=5),
                   (g.cls.mod.relpath, 0, meth_enc))
        b = Sym("b", "bytes")
        outs = ev.run_method(g, meth_dec, [b], st=st.fork())
        rets = session.rets(outs)
        ctx.total(rets, outs, "K-total", "%s.%s has no returning path" % (gname, meth_dec))
        for o in rets:
            ok = o.value == mk_app("be2int", (b,))
            ctx.ob("K2-decoder", "%s.%s" % (gname, meth_dec), ok, "big-endian integer (inverse of the encoder on [0, q))" if ok else
                   "scalar decoder returns %s, expected be2int(b)" % show(o.value, maxdepth=5), (g.cls.mod.relpath, 0, meth_dec))
            i_ = mk_app("be2int", (b,))
            allowed = {(mk_app("Eq", (mk_app("len", (b,)), wf)), True), (mk_app("NotEq", (mk_app("len", (b,)), wf)), False),
                       (mk_app("LtE", (Const(0), i_)), True), (mk_app("Lt", (i_, mod_sym)), True), (mk_app("GtE", (i_, Const(0))), True),
                       (mk_app("GtE", (i_, mod_sym)), False), (mk_app("Lt", (i_, Const(0))), False),
                       (App("And", (mk_app("LtE", (Const(0), i_)), mk_app("Lt", (i_, mod_sym)))), True)}
            decoder_total(ctx, "K2-total", "%s.%s" % (gname, meth_dec), o, b, allowed, (g.cls.mod.relpath, 0, meth_dec), outs, width=wf,
                          same_width=lambda T, o=o: T == wf or is_width(T, mod_sym, conds_of(o)))
    # elements
    base = f.get("Base")
    e = ev.new_obj(base.cls, st)
    a = Sym("a", "int")
    for k, v in st.heap[base.oid].items():
        st.heap[e.oid][k] = g if v == g else a
    outs = ev.run_method(e, "to_bytes", [], st=st.fork())
    rets = session.rets(outs)
    ctx.total(rets, outs, "K-total", "integer element to_bytes has no returning path")
    wf = gm.attr_of(ev, g, "element_size_bytes", st)
    for o in rets:
        v = o.value
        ok = is_app(v, "int2be") and v.args[0] == a and v.args[1] == wf and is_width(wf, p, conds_of(o))
        ctx.ob("K3-encoder", "%s element to_bytes" % gname, ok, "big-endian, exactly element_size_bytes = size_bytes(p) bytes" if ok else
               "element encoder is %s, expected int2be(e, size_bytes(p)) with width == element_size_bytes" % show(v, maxdepth=5))
    # decoder = C05 (be2int + D1 + D2); restate the two facts K3 needs
    b = Sym("b", "bytes")
    outs = ev.run_method(g, "bytes_to_element", [b], st=st.fork())
    for o in session.rets(outs):
        ok = gm.int_element_value(st, g, o.state, o.value) == mk_app("be2int", (b,))
        ctx.ob("K3-decoder", "%s bytes_to_element" % gname, ok, "big-endian integer (inverse of to_bytes)" if ok else
               "element decoder is not the big-endian integer of the input")
        i_ = mk_app("be2int", (b,))
        allowed = set()
        for op, args in (("Eq", (mk_app("len", (b,)), wf)), ("NotEq", (mk_app("len", (b,)), wf)), ("LtE", (i_, Const(0))), ("Lt", (i_, Const(0))),
                         ("Gt", (i_, Const(0))), ("GtE", (i_, Const(1))), ("Lt", (i_, Const(1))), ("GtE", (i_, p)), ("Gt", (i_, p)), ("Lt", (i_, p)),
                         ("LtE", (i_, p)), ("Eq", (mk_app("pow", (i_, q, p)), Const(1))), ("NotEq", (mk_app("pow", (i_, q, p)), Const(1)))):
            allowed.add((mk_app(op, args), True))
            allowed.add((mk_app(op, args), False))
        decoder_total(ctx, "K3-total", "%s bytes_to_element" % gname, o, b, allowed, None, outs, width=wf)
        ok = has_eq(conds_of(o), mk_app("len", (b,)), wf)
        ctx.ob("K3-width", "%s bytes_to_element" % gname, ok, "decoder accepts exactly element_size_bytes bytes (C05 D1)" if ok else
               "decoder does not enforce the element width: not the inverse of the encoder")


def ed25519(ctx, world, ev):
    _, G = gm.group_classes(world, ev)
    m, base = gm.ed_module_of(world, ev)
    qn, Q = gm.field_prime(world, ev)
    oo = session.rets(ev.run_method(G, "order", [], st=world.static.fork()))
    ctx.require(len(oo) == 1 and isinstance(oo[0].value, Const), "anchor vanished: Ed25519 order()")
    L = oo[0].value
    gf = world.static.heap[G.oid]
    ssz, esz = gm.attr_of(ev, G, "scalar_size_bytes", world.static), gm.attr_of(ev, G, "element_size_bytes", world.static)
    ctx.ob("K4-width", "Ed25519 sizes", ssz == Const(32) and esz == Const(32), "scalar_size_bytes = element_size_bytes = 32" if ssz == Const(32) and esz == Const(32) else
           "Ed25519 sizes are %s / %s, released format has 32 / 32" % (show(ssz), show(esz)))
    y = Sym("y", "int")
    outs = ev.run_method(G, "scalar_to_bytes", [y], st=world.static.fork())
    rets = session.rets(outs)
    ctx.total(rets, outs, "K-total", "Ed25519 scalar_to_bytes has no returning path")
    for o in rets:
        ym = mk_app("Mod", (y, L))
        okc = {(App("And", (mk_app("LtE", (Const(0), ym)), mk_app("Lt", (ym, Const(2 ** 256))))), True), (mk_app("Lt", (ym, Const(2 ** 256))), True),
               (mk_app("LtE", (Const(0), ym)), True)}
        extra = [show(t, maxdepth=4) + "=" + str(p) for (t, p, _) in o.state.pc if any(x == y for x in subterms(t))
                 and (t, p) not in okc and not is_app(t, "isinstance") and not (is_app(t, "Eq", "NotEq") and any(is_app(a, "len") for a in t.args))]
        ctx.ob("K4-encoder-total", "Ed25519 scalar_to_bytes", not extra, "every scalar is encoded (reduced mod L first)" if not extra else
               "the scalar encoder also requires %s: some scalars cannot be serialised" % extra, o.site)
        want = [mk_app("rev", (App("int2be", (mk_app("Mod", (y, L)), Const(32))),)), mk_app("rev", (App("int2be", (y, Const(32))),))]
        ok = o.value in want
        ctx.ob("K4-encoder", "Ed25519 scalar_to_bytes", ok, "little-endian, exactly 32 bytes (of y mod L)" if ok else
               "scalar encoder is %s, expected the 32-byte little-endian encoding" % show(o.value, maxdepth=6), o.site)
    s = Sym("s", "bytes")
    outs = ev.run_method(G, "bytes_to_scalar", [s], st=world.static.fork())
    for o in session.rets(outs):
        ok = o.value == mk_app("be2int", (mk_app("rev", (s,)),))
        ctx.ob("K4-decoder", "Ed25519 bytes_to_scalar", ok, "little-endian integer (inverse of the encoder on [0, L))" if ok else
               "scalar decoder is %s, expected the little-endian integer" % show(o.value, maxdepth=5), o.site)
        i_ = mk_app("be2int", (mk_app("rev", (s,)),))
        allowed = {(mk_app("Eq", (mk_app("len", (s,)), Const(32))), True), (mk_app("NotEq", (mk_app("len", (s,)), Const(32))), False),
                   (mk_app("Lt", (i_, L)), True), (mk_app("GtE", (i_, L)), False), (mk_app("LtE", (Const(0), i_)), True)}
        decoder_total(ctx, "K4-total", "Ed25519 bytes_to_scalar", o, s, allowed, o.site, outs, width=Const(32))
    # ---- points: encoder on an element with symbolic *affine* coordinates
    st = world.static.fork()
    cf = [k for k, v in st.heap[base.oid].items() if isinstance(v, TupleV) and len(v.items) == 4]
    ctx.require(len(cf) == 1, "anchor vanished: Ed25519 element coordinate field")
    e = ev.new_obj(base.cls, st)
    X, Y = Sym("ex", "int"), Sym("ey", "int")
    st.heap[e.oid][cf[0]] = TupleV([X, Y, Const(1), mk_app("Mult", (X, Y))])
    outs = ev.run_method(e, "to_bytes", [], st=st.fork())
    # an extended->affine conversion with a case split (e.g. a Z == 1 shortcut) is a leaf function with a branch and stays
    # opaque under the default policy: the encoder rules look inside it
    ev0 = ev
    opq = set()
    for o in outs:
        for t in ([o.value] if o.kind == "return" else []) + [t for (t, p, _) in o.state.pc]:
            for x_ in subterms(t):
                if isinstance(x_, App) and x_.f.startswith("fn:") and any(isinstance(a, TupleV) and len(a.items) == 4 for a in x_.args):
                    f_ = gm.func_by_qual(world, x_.f[3:])
                    if f_ is not None and ev.policy.ret_shape(f_) == 2:
                        opq.add(f_.qual)
    if opq:
        from ..evalr import Ev as _Ev
        ev = _Ev(world)
        ev.import_all()
        ev.policy.force_inline.update(opq)
        outs = ev.run_method(e, "to_bytes", [], st=st.fork())
    rets = session.rets(outs)
    ctx.total(rets, outs, "K-total", "Ed25519 to_bytes has no returning path")
    inv1 = mk_app("pow", (Const(1), Const(Q - 2), Const(Q)))
    raw_sites = []

    def raw_use(t, syms):
        """a stored coordinate read without a reduction mod Q on the way"""
        if t in syms:
            return True
        if (is_app(t, "Mod") and t.args[1] == Const(Q)) or (is_app(t, "pow") and len(t.args) == 3 and t.args[2] == Const(Q)):
            return False
        if isinstance(t, App):
            return any(raw_use(a, syms) for a in t.args)
        if isinstance(t, TupleV):
            return any(raw_use(a, syms) for a in t.items)
        return False

    def affine(t):
        """strip the (x * inv(1)) % Q wrapping of the extended->affine conversion with Z = 1"""
        if is_app(t, "Mod") and t.args[1] == Const(Q):
            t = t.args[0]
        if is_app(t, "Mult") and inv1 in t.args:
            t = t.args[0] if t.args[1] == inv1 else t.args[1]
        return t
    bit = Const(1 << 255)
    seen_set = seen_clear = False
    tb = base.cls.lookup("to_bytes")
    tbsite = (tb[2].mod.relpath, tb[1].lineno, tb[2].name + ".to_bytes") if tb and tb[0] == "func" else None
    for o in rets:
        v = o.value
        conds = conds_of(o)
        o.site = o.site or tbsite
        ok = False
        why = show(v, maxdepth=6)
        if is_app(v, "rev") and is_app(v.args[0], "int2be") and v.args[0].args[1] == Const(32):
            val = v.args[0].args[0]
            par = None
            for (t, p) in conds:
                # the parity of x as a condition, in any spelling: x & 1, (x & 1) != 0, x % 2 == 1, ...
                tt, pp = t, p
                if is_app(tt, "Eq", "NotEq") and len(tt.args) == 2 and any(isinstance(a, Const) and a.v in (0, 1) and not isinstance(a.v, bool) for a in tt.args):
                    c = [a for a in tt.args if isinstance(a, Const)][0]
                    inner = [a for a in tt.args if a is not c][0]
                    pp = p if ((c.v == 1) == (tt.f == "Eq")) else (not p)
                    tt = inner
                if (is_app(tt, "BitAnd") and Const(1) in tt.args) or (is_app(tt, "Mod") and tt.args[1] == Const(2)):
                    xx = affine(tt.args[0] if tt.args[1] in (Const(1), Const(2)) else tt.args[1])
                    if xx == X:
                        par = pp
            if par is None:
                # branch-free spelling, e.g. y | ((x & 1) << 255): decided by substituting both parities
                from ..terms import subst
                pts = [t for t in subterms(val) if (is_app(t, "BitAnd") and Const(1) in t.args and affine(t.args[0] if t.args[1] == Const(1) else t.args[1]) == X)
                       or (is_app(t, "Mod") and t.args[1] == Const(2) and affine(t.args[0]) == X)]
                if pts:
                    v1 = subst(val, {t: Const(1) for t in pts})
                    v0 = subst(val, {t: Const(0) for t in pts})
                    ok1 = is_app(v1, "Add", "BitOr") and bit in v1.args and affine([a for a in v1.args if a != bit][0]) == Y
                    ok0 = affine(v0) == Y
                    ok = ok1 and ok0
                    seen_set, seen_clear = seen_set or ok1, seen_clear or ok0
                    why = "branch-free: x odd -> %s, x even -> %s" % (show(v1, maxdepth=4), show(v0, maxdepth=4))
            if par is True:
                ok = (is_app(val, "Add", "BitOr") and bit in val.args and affine([a for a in val.args if a != bit][0]) == Y)
                seen_set = seen_set or ok
            elif par is False:
                ok = affine(val) == Y
                seen_clear = seen_clear or ok
            if par is not None:
                why = "parity condition %s, value %s" % (par, show(val, maxdepth=5))
        # total on curve points: beyond the parity of x no condition on the coordinates may remain on the encoding
        # path (range assertions on the reduced affine y fold away; on an unreduced or mis-bounded value they do not)
        def _parity(t):
            if is_app(t, "Eq", "NotEq") and len(t.args) == 2 and any(isinstance(a, Const) and a.v in (0, 1) for a in t.args):
                t = [a for a in t.args if not (isinstance(a, Const) and a.v in (0, 1))][0]
            return (is_app(t, "BitAnd") and Const(1) in t.args) or (is_app(t, "Mod") and t.args[1] == Const(2))
        def _implied(t, p):
            """a range condition on a stored coordinate read as it is that holds for every residue in [0, Q)"""
            if p is not True or not is_app(t, "Lt", "LtE") or len(t.args) != 2:
                return False
            a, b_ = t.args
            if isinstance(a, Const) and isinstance(a.v, int) and b_ in (X, Y):
                return a.v <= (0 if t.f == "LtE" else -1)
            if isinstance(b_, Const) and isinstance(b_.v, int) and a in (X, Y):
                return b_.v >= (Q - 1 if t.f == "LtE" else Q)
            return False
        if any(_implied(t, p) for (t, p) in conds):
            raw_sites.append(o.site)
        extra = [show(t, maxdepth=4) + "=" + str(p) for (t, p) in conds
                 if any(x_ in (X, Y) for x_ in subterms(t)) and not _parity(t) and not is_app(t, "isinstance") and not _implied(t, p)]
        if raw_use(v, (X, Y)) or any(_parity(t) and raw_use(t, (X, Y)) for (t, p) in conds):
            raw_sites.append(o.site)
        ctx.ob("K5-encoder-total", "Ed25519 point to_bytes", not extra, "every point is encoded: no condition on the coordinates besides the parity of x" if not extra else
               "the point encoder also requires %s: some subgroup elements cannot be encoded" % extra, o.site)
        ctx.ob("K5-encoder", "Ed25519 point to_bytes", ok, "32-byte little-endian y with bit 255 = x & 1 (%s)" % why if ok else
               "point encoder path is not rev(int2be(y | (x&1) << 255, 32)): %s" % why, o.site)
    ctx.ob("K5-encoder", "both parities", seen_set and seen_clear, "both parity cases encode" if seen_set and seen_clear else
           "encoder does not distinguish x odd / x even by bit 255")
    # ---- the encoded y and the parity are those of the *reduced* affine coordinates: with a projective Z the quotient
    # x * inv(Z) is a field element only after reduction mod Q (the parity of an unreduced product is meaningless)
    st2 = world.static.fork()
    e2_ = ev.new_obj(base.cls, st2)
    Zs, Ts = Sym("ez", "int"), Sym("et", "int")
    st2.heap[e2_.oid][cf[0]] = TupleV([X, Y, Zs, Ts])

    def norm_ok(t):
        if isinstance(t, (Const, Sym)) or (is_app(t, "Mod") and t.args[1] == Const(Q)):
            return True
        if not any(x_ in (X, Y, Zs, Ts) for x_ in subterms(t)):
            return True
        if is_app(t, "Add", "BitOr", "BitAnd", "LShift", "RShift", "Eq", "NotEq", "Not", "bool", "Lt", "LtE") or (is_app(t, "Mod") and t.args[1] == Const(2)):
            return all(norm_ok(a) for a in t.args)
        return False
    for o in session.rets(ev.run_method(e2_, "to_bytes", [], st=st2.fork())):
        v = o.value
        val = v.args[0].args[0] if is_app(v, "rev") and is_app(v.args[0], "int2be") else v
        bad = [show(t, maxdepth=4) for t in [val] + [t for (t, p) in conds_of(o)] if not norm_ok(t)]
        ctx.ob("K5-encoder-reduced", "Ed25519 point to_bytes (projective Z)", not bad,
               "the encoded value and the parity are computed from affine coordinates reduced mod Q" if not bad else
               "an affine coordinate is used unreduced: %s" % bad, o.site or tbsite)
        if raw_use(val, (X, Y, Zs, Ts)) or any(_parity(t) and raw_use(t, (X, Y, Zs, Ts)) for (t, p) in conds_of(o)):
            raw_sites.append(o.site or tbsite)
    if raw_sites:
        # the encoder reads a stored coordinate as it is (on some path): right exactly when every producer of element
        # objects stores residues - a whole-package representation invariant, reported at the producer that breaks it
        from .. import coordinv
        for (inst, ok, detail, site) in coordinv.producer_obligations(world, ev0):
            ctx.ob("K5-encoder-inv", inst, ok, ("to_bytes encodes a stored coordinate without reducing it (%s); " % fmt_site_(raw_sites[0])) + detail, site or raw_sites[0])
    ev = ev0
    # ---- decoder agreement: flip iff parity(x0) != bit 255 of the little-endian integer
    b = Sym("b", "bytes")
    outs = ev.run_method(G, "bytes_to_element", [b], st=world.static.fork())
    rets = session.rets(outs)
    le = mk_app("be2int", (mk_app("rev", (b,)),))
    nf = 0
    for o in rets:
        coords = [v for v in o.state.heap[o.value.oid].values() if isinstance(v, TupleV) and len(v.items) == 4]
        if not coords:
            continue
        x = coords[0].items[0]
        x = x.args[0] if is_app(x, "Mod") and x.args[1] == Const(Q) else x
        flip = is_app(x, "Sub") and x.args[0] == Const(Q)
        x0 = x.args[1] if flip else x
        conds = conds_of(o)
        le32 = mk_app("be2int", (mk_app("rev", (mk_app("slice", (b, Const(None), Const(32), Const(None))),)),))
        pars = [mk_app("bool", (mk_app("BitAnd", (x0, Const(1))),)), mk_app("BitAnd", (x0, Const(1))), mk_app("Mod", (x0, Const(2)))]
        differs = same = False
        sign_terms = []
        for e in (le, le32):       # (the width of the input is K5-width's / C05 D1's business)
            sign_terms += [mk_app("bool", (mk_app("BitAnd", (e, bit)),)), mk_app("RShift", (e, Const(255))),
                           mk_app("BitAnd", (mk_app("RShift", (e, Const(255))), Const(1)))]
        for sign in sign_terms:    # accepted spellings of "bit 255 of the little-endian integer" / "parity of the root"
            for par in pars:
                differs = differs or (mk_app("NotEq", (sign, par)), True) in conds or (mk_app("Eq", (sign, par)), False) in conds
                same = same or (mk_app("NotEq", (sign, par)), False) in conds or (mk_app("Eq", (sign, par)), True) in conds
        rc_ = gm.root_call(world, x0)
        if not (differs or same) and rc_ is not None and gm.sqrt_helper_ok(world, ev, rc_[0], rc_[2])[0]:
            # the root helper returns the even root (verified), so "parity(root) != bit 255" is "bit 255 is set"
            for sign in sign_terms + [mk_app("BitAnd", (e, bit)) for e in (le, le32)]:
                for tt in (sign, mk_app("NotEq", (sign, Const(0)))):
                    differs = differs or (tt, True) in conds
                    same = same or (tt, False) in conds
                differs = differs or (mk_app("Eq", (sign, Const(0))), False) in conds
                same = same or (mk_app("Eq", (sign, Const(0))), True) in conds
        ok = (flip and differs) or (not flip and same)
        nf += 1
        ctx.ob("K5-decoder", "Ed25519 decode path (%s)" % ("x = Q - root" if flip else "x = root"), ok,
               "x is negated exactly when parity(root) != bit 255 of the little-endian integer: inverse of the encoder's sign rule" if ok else
               "decoder's sign rule does not mirror the encoder (flip=%s; conditions %s)" % (flip, sorted(show(t, maxdepth=4) + "=" + str(p) for t, p in conds)[:4]), o.site)
        okr, whyr = False, "recovered x is not the result of a root helper applied to the decoded y: %s" % show(x0, maxdepth=3)
        if rc_ is not None:
            rf, yarg, comp_ = rc_
            ycoord = coords[0].items[1]
            ycoord = ycoord.args[0] if is_app(ycoord, "Mod") and ycoord.args[1] == Const(Q) else ycoord
            if yarg == ycoord:
                okr, whyr = gm.sqrt_helper_ok(world, ev, rf, comp_)
        ctx.ob("K5-root", "Ed25519 decode path (%s)" % ("x = Q - root" if flip else "x = root"), okr,
               "x is recovered from y by the square-root algorithm: " + whyr if okr else
               "point decompression does not recover x correctly: " + whyr, o.site)
        extra = []
        ycoord_ = coords[0].items[1]
        ycoord_ = ycoord_.args[0] if is_app(ycoord_, "Mod") and ycoord_.args[1] == Const(Q) else ycoord_
        for (t, p) in conds:
            if not any(x_ == b for x_ in subterms(t)) or is_app(t, "isinstance"):
                continue
            if is_app(t, "Eq", "NotEq") and (b in t.args or any(is_app(a, "len") for a in t.args)):
                continue                      # identity encoding / width
            if any(x_ in sign_terms for x_ in subterms(t)):
                continue                      # sign rule (bit 255 of the input)
            if is_app(t, "Eq", "NotEq") and (Const(0) in t.args or Const(Q) in t.args):
                continue                      # x == 0 / x == Q / on-curve polynomial == 0
            if is_app(t, "Lt", "LtE", "Gt", "GtE") and ycoord_ in t.args and (Const(Q) in t.args or Const(Q - 1) in t.args):
                continue                      # canonical range of y
            if is_app(t, "Lt", "LtE", "Gt", "GtE") and Const(Q) in t.args and any(x_ == x0 for a in t.args for x_ in subterms(a)):
                continue                      # canonical range of x
            if isinstance(t, App) and t.f.startswith("fn:"):
                continue                      # identity / torsion predicates (C05 D3, D4)
            extra.append(show(t, maxdepth=4) + "=" + str(p))
        ctx.ob("K5-total", "Ed25519 decode path (%s)" % ("x = Q - root" if flip else "x = root"), not extra,
               "the accepting path carries only the width, canonical-range, sign, curve and subgroup conditions: every encoder output is accepted" if not extra else
               "the decoder also requires %s: some valid encodings are refused" % extra, o.site)
        okl = has_eq(conds, mk_app("len", (b,)), Const(32))
        ctx.ob("K5-width", "Ed25519 decode path (%s)" % ("x = Q - root" if flip else "x = root"), okl,
               "decoder accepts exactly 32 bytes (C05 D1)" if okl else "decoder does not enforce the 32-byte width: not the inverse of the encoder", o.site)
    ctx.ob("K5-decoder", "decode paths", nf >= 2, "%d accepting decode paths examined" % nf)


def fmt_site_(s):
    from ..report import fmt_site
    return fmt_site(s)


def check(ctx, world):
    ctx.explanation = (
        "Codec abstract domain on normal forms. K1: size_bytes(v) = ceil(bit_length(v)/8); number_to_bytes(n, maxval) returns "
        "int2be(n, size_bytes(maxval)) only under exactly n <= maxval and raises otherwise before encoding; bytes_to_number is "
        "be2int. K2/K3 (integer-group instance over symbolic p, q, g): scalar and element encoders are int2be(v, W) with W the "
        "value of scalar_size_bytes / element_size_bytes = size_bytes(q) / size_bytes(p); decoders are be2int (element decoder "
        "under the exact-length guard). K4: Ed25519 scalar codec is rev(int2be(y mod L, 32)) / be2int(rev(s)). K5: Ed25519 point "
        "encoder is rev(int2be(y + (x&1)*2^255, 32)) on both parity paths; every accepting decoder path negates the recovered "
        "root exactly when its parity differs from bit 255 of the little-endian integer, and enforces 32 bytes. Lemma used: "
        "be2int(int2be(v, W)) = v for 0 <= v < 256^W, rev is an involution; hence each pair is mutually inverse on its domain, "
        "big-endian for integer groups and little-endian for Ed25519 as released.")
    ctx.min_obligations = 20
    ev = session.new_ev(world)
    util(ctx, world, ev)
    integer_group(ctx, world, ev)
    ed25519(ctx, world, ev)
