"""C17 - the transcript hash binds every field and is order-independent when symmetric (DESIGN 4.17)."""
from ..terms import Const, Sym, App, FuncV, mk_app, is_app, show, resolve_order, is_order_cond
from .. import session
from ..session import H


def bsym(n):
    return Sym(n, "bytes")


def check(ctx, world):
    ctx.explanation = (
        "F1/F2: finalize_SPAKE2 and finalize_SPAKE2_symmetric are evaluated on symbolic byte strings; each must have "
        "exactly one path (no input-dependent branch, no raise) and its normal form must equal the specification term "
        "H(cat(H(pw), H(idA), H(idB), X, Y, K)) resp. H(cat(H(pw), H(idS), min(m1,m2), max(m1,m2), K)), where the rewrite "
        "table maps join/+, sha256().digest(), sorted([a,b]) (no key=/reverse=) and min/max to canonical forms; the "
        "symmetric term is syntactically symmetric in m1, m2. F3: the key term returned by finish() of each class equals "
        "the specification term with the instance's own fields in the slots of the same meaning (A: X = own, Y = peer; "
        "B: X = peer, Y = own; Symmetric: both, sorted).")
    ctx.min_obligations = 6
    ev = session.new_ev(world)
    sp = world.module("spake2.spake2")
    for fname, names, want in (
        ("finalize_SPAKE2", ("idA", "idB", "X", "Y", "K", "pw"),
         lambda a: H(mk_app("cat", (H(a["pw"]), H(a["idA"]), H(a["idB"]), a["X"], a["Y"], a["K"])))),
        ("finalize_SPAKE2_symmetric", ("idS", "m1", "m2", "K", "pw"),
         lambda a: H(mk_app("cat", (H(a["pw"]), H(a["idS"]), mk_app("min", (a["m1"], a["m2"])), mk_app("max", (a["m1"], a["m2"])), a["K"])))),
    ):
        f = ev.module_global(sp, fname, None)
        ctx.require(isinstance(f, FuncV), "anchor vanished: spake2.spake2.%s" % fname)
        site = (sp.relpath, f.node.lineno, fname)
        ctx.require(len(f.node.args.args) == len(names), "%s no longer takes %d arguments" % (fname, len(names)))
        a = {n: bsym(n) for n in names}
        outs = ev.run(f, [a[n] for n in names], [], world.static.fork())
        rets = session.rets(outs)
        base = len(world.static.pc)
        # a hand-written sort ("if m2 < m1: swap") forks on the order of the two messages: such
        # conditions are allowed (a finite set of orderings, each path compared with the
        # specification resolved under its own ordering); any other condition is not
        msgs = [a[n] for n in names if n in ("m1", "m2")]
        extra = [show(t, maxdepth=4) for o in outs for (t, p, _) in o.state.pc[base:] if not is_order_cond(t, msgs)]
        ok = len(rets) == len(outs) and len(rets) >= 1 and not extra and (len(outs) == 1 or bool(msgs))
        ctx.ob("F-total", fname, ok, ("one unconditional path" if len(outs) == 1 else "%d paths, split only on the order of the two messages" % len(outs)) if ok else
               "%d paths (%s): the transcript depends on a condition of the inputs %s" % (len(outs), [o.kind + ":" + str(o.exc) for o in outs], extra[:3]), site)
        w0 = want(a)
        for o in rets:
            w = resolve_order(w0, [(t, p) for (t, p, _) in o.state.pc[base:]])
            ok = o.value == w
            ctx.ob("F-term", fname, ok, "normal form equals the specification: " + show(w, maxdepth=6) if ok else
                   "normal form %s differs from the specification %s" % (show(o.value, maxdepth=6), show(w, maxdepth=6)), site,
                   witness=show(o.value))
    # F3 call-site binding
    for cname in session.PUBLIC_CLASSES:
        for cm in session.models(world, ev, cname):
            for s, outs in zip(cm.started, cm.finish):
                side, own = session.outbound_of(cm, s)
                ctx.require(own is not None, "%s.start() message has no constant side prefix (C06 S1)" % cname)
                peer = session.payload_of(cm.msg)
                pw = cm.syms["password"]
                rets = session.rets(outs)
                ctx.require(rets, "%s.finish has no key-returning path" % cname)
                for o in rets:
                    v = o.value
                    ok = False
                    why = "key is not H(cat(...)): " + show(v, maxdepth=4)
                    pconds = [(session.canon_reencode(t), p) for (t, p, _) in o.state.pc]
                    if is_app(v, "H") and is_app(v.args[0], "cat"):
                        parts = [session.canon_reencode(t) for t in v.args[0].args[:-1]] + [v.args[0].args[-1]]
                        if cname == "SPAKE2_Symmetric":
                            ids = cm.syms.get("idSymmetric")
                            exp = (H(pw), H(ids), resolve_order(mk_app("min", (own, peer)), pconds),
                                   resolve_order(mk_app("max", (own, peer)), pconds))
                        else:
                            x, y = (own, peer) if cname == "SPAKE2_A" else (peer, own)
                            exp = (H(pw), H(cm.syms["idA"]), H(cm.syms["idB"]), x, y)
                        ok = len(parts) == len(exp) + 1 and tuple(parts[:-1]) == exp
                        why = "slots %s" % [show(p, maxdepth=3) for p in parts[:-1]]
                    ctx.ob("F3", cname + ".finish", ok,
                           "transcript slots bound to the fields of the same meaning (pw, ids, X = %s, Y = %s)"
                           % (("own", "peer") if cname == "SPAKE2_A" else ("peer", "own") if cname == "SPAKE2_B" else ("sorted", "sorted")) if ok
                           else "transcript slots are not (H(pw), H(id...), X, Y) with the instance's fields in the right places: " + why,
                           o.site, witness=show(v, maxdepth=6))
