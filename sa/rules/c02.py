"""C02 - any mismatch or in-flight tampering prevents agreement on a key (DESIGN 4.2).

Binding structure (necessary conditions): B1 every input occupies its own transcript
slot and acceptance depends on nothing but the side/reflection/decoder guards; B2 every
un-hashed transcript field has an enforced fixed width (framing injectivity); B3 the
password reaches the blinding scalar and the transcript unmodified; B4 the side byte is
stripped before, and is not part of, the transcript."""
from ..terms import Const, Sym, App, mk_app, is_app, show, subterms, is_order_cond
from .. import session
from ..session import H
from .common import include


def check(ctx, world):
    ctx.explanation = (
        "B1 slot coverage: the key term of each class is H(cat(H(pw), H(idA), H(idB) | H(idS), X, Y | sorted pair, K)) with each "
        "constructor input in its own slot (C17's rules, re-run), and the conditions on the key-returning path of finish() are only "
        "comparisons of the side byte and the reflection comparison (no 'skip a field when ...' branch). B2 framing injectivity: "
        "the un-hashed fields are the own outbound message and K - both element.to_bytes(), fixed width by C15 - and the raw "
        "inbound payload, which is accepted only under the exact-length and canonical-encoding guards of bytes_to_element of BOTH "
        "group implementations (C05 D1/D2, re-run here) and is exactly the byte string that was decoded (C05 D5). Then the "
        "concatenation is an injective encoding of (pw, ids, X*, Y*, K), and with collision resistance of SHA-256 equal keys "
        "imply equal tuples. B3: the password symbol reaches group.password_to_scalar and H(.) unmodified. B4: the transcript "
        "contains the payload after the side byte, never the whole message or the side byte. Not decided: that different groups "
        "or blinding elements give different K (discrete-log statement).")
    ctx.min_obligations = 32
    ev = session.new_ev(world)
    for cname in session.PUBLIC_CLASSES:
        for cm in session.models(world, ev, cname):
            pf = cm.st_new.heap[cm.params.oid]
            G = pf["group"]
            pw = cm.syms["password"]
            ok = pw in cm.fields_new.values()
            ctx.ob("B3-field", cname, ok, "the instance keeps the constructor's password unmodified" if ok else
                   "no field of the new instance holds the password as given")
            w = mk_app(".password_to_scalar", (G, pw))
            ok = w in cm.fields_new.values()
            ctx.ob("B3-scalar", cname, ok, "blinding scalar = group.password_to_scalar(password) of the unmodified password" if ok else
                   "the password scalar is not group.password_to_scalar(password): %s"
                   % [show(v, maxdepth=4) for v in cm.fields_new.values() if any(x == pw for x in subterms(v)) and v != pw])
            for s, outs in zip(cm.started, cm.finish):
                side, own = session.outbound_of(cm, s)
                ctx.require(own is not None, "%s.start() message without side prefix" % cname)
                payload = session.payload_of(cm.msg)
                sidebyte = mk_app("slice", (cm.msg, Const(None), Const(1), Const(None)))
                base = len(s.state.pc)
                rets = session.rets(outs)
                ctx.require(rets, "%s.finish has no key path" % cname)
                for o in rets:
                    v = o.value
                    parts = list(v.args[0].args) if is_app(v, "H") and is_app(v.args[0], "cat") else None
                    if parts is None:
                        ctx.ob("B1", cname, False, "key is not a hash of a concatenation: %s" % show(v, maxdepth=4), o.site)
                        continue
                    # B1 conditions on the key path
                    odd = []
                    inputs = set(cm.syms.values()) | {cm.msg}
                    for (t, p, _) in o.state.pc[base:]:
                        from ..terms import subst
                        st = subterms(subst(t, {own: Sym("<own outbound>")}))
                        if not any(x in inputs for x in st):
                            continue                     # not a condition on the session's inputs
                        if any(x == sidebyte for x in st) and is_app(t, "Eq", "NotEq", "In", "NotIn"):
                            continue                     # side comparison
                        if is_app(t, "Eq", "NotEq") and own in t.args:
                            continue                     # reflection comparison
                        if is_order_cond(session.canon_reencode(t), [own, payload]):
                            continue                     # hand-written sort of the two messages (each ordering is checked by F3)
                        odd.append(show(t, maxdepth=4) + "=" + str(p))
                    ctx.ob("B1-conditions", cname, not odd, "the key path is conditioned only on side and reflection comparisons" if not odd else
                           "key derivation also depends on: %s" % odd, o.site)
                    # B2 un-hashed fields
                    raw = [t for t in parts if not is_app(t, "H")]
                    shapes = []
                    okraw = True
                    for t in raw:
                        inner = t.args if is_app(t, "min2", "max2") else (t,)
                        for u in inner:
                            if u == payload:
                                shapes.append("payload")
                            elif is_app(u, ".to_bytes") and len(u.args) == 1 and is_app(u.args[0], ".bytes_to_element") \
                                    and u.args[0].args[1:] == (payload,):
                                # re-encoding of the decoded element: equal to the raw payload because
                                # decoding is canonical (C05 D1/D2, included below)
                                shapes.append("payload")
                            elif is_app(u, ".to_bytes") and len(u.args) == 1:
                                shapes.append("enc")
                            else:
                                okraw = False
                                shapes.append(show(u, maxdepth=3))
                    ctx.ob("B2-fields", cname, okraw and "payload" in shapes, "un-hashed fields are element encodings and the raw decoded payload: %s" % shapes
                           if okraw and "payload" in shapes else "un-hashed transcript fields of variable or unknown width: %s" % shapes, o.site)
                    # B3 transcript
                    ok = parts[0] == H(pw)
                    ctx.ob("B3-transcript", cname, ok, "first slot is SHA256 of the unmodified password" if ok else
                           "password slot is %s" % show(parts[0], maxdepth=3), o.site)
                    # B4
                    leak = [show(t, maxdepth=3) for t in parts for x in subterms(t) if x == sidebyte or (x == cm.msg and not any(y == payload for y in subterms(t)))]
                    whole = [show(t, maxdepth=3) for t in parts if t == cm.msg]
                    ctx.ob("B4", cname, not leak and not whole, "the side byte is stripped and not hashed" if not leak and not whole else
                           "the side byte / whole message enters the transcript: %s" % (leak + whole), o.site)
    include(ctx, world, "c17", "B1", keep=lambda o: o.rule in ("F-term", "F-total", "F3"))
    include(ctx, world, "c05", "B2", keep=lambda o: o.rule in ("D1", "D2", "D2-y", "D2-sign", "D5"))
    include(ctx, world, "c15", "B2", keep=lambda o: o.rule in ("K3-encoder", "K5-encoder", "K4-width"))
