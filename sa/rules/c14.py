"""C14 - password-to-scalar and seed-to-element derivations are exact and in-group (DESIGN 4.14)."""
import ast

from ..terms import Const, Sym, App, TupleV, Obj, FuncV, mk_app, is_app, show, subterms
from ..evalr import Ev, Policy
from ..loader import AnalysisError
from .. import session, groupmodel as gm, refmodel as rm
from .c05 import conds_of, has_eq
from .c15 import width_forms

INFO_PW = b"SPAKE2 pw"
INFO_ELEM = b"SPAKE2 arbitrary element"


def hkdf_term(info, length, data):
    """Normal form of hkdf.HKDF(algorithm=SHA256(), length=.., salt=b'', info=..).derive(data)."""
    return mk_app(".derive", (App("cryptography.hazmat.primitives.kdf.hkdf.HKDF", (),
                                  (("algorithm", App("cryptography.hazmat.primitives.hashes.SHA256", ())),
                                   ("info", Const(info)), ("length", length), ("salt", Const(b"")))), data))


def check_hkdf(ctx, rule, inst, term, info, length, data, site=None):
    calls = rm.hkdf_calls(term)
    ok = len(calls) == 1
    why = "%d HKDF calls" % len(calls)
    if ok:
        kw, d = calls[0]
        alg = kw.get("algorithm")
        checks = [("algorithm SHA256", isinstance(alg, App) and alg.f.endswith("hashes.SHA256")),
                  ("salt b''", kw.get("salt") == Const(b"")), ("info %r" % info, kw.get("info") == Const(info)),
                  ("length %s" % show(length, maxdepth=4), kw.get("length") == length), ("input unmodified", d == data),
                  ("no other options", set(kw) == {"algorithm", "salt", "info", "length"})]
        bad = [n for n, c in checks if not c]
        ok = not bad
        why = "differs in: %s (found %s)" % (", ".join(bad), show(mk_app("tuple", [v for _, v in sorted(kw.items())] + [d]), maxdepth=4)) if bad else ""
    ctx.ob(rule, inst, ok, "HKDF-SHA256(input, salt='', info=%r, length=%s)" % (info, show(length, maxdepth=4)) if ok else
           "HKDF parameters are not the released ones: " + why, site)
    return ok


def input_total(ctx, rule, inst, o, inp, site=None):
    """'For every password / seed': the returning path may not depend on the input except through
    type checks and assertions about the length of the HKDF output."""
    extra = []
    for (t, p, _) in o.state.pc:
        if not any(x == inp for x in subterms(t)) or is_app(t, "isinstance"):
            continue
        if is_app(t, "Eq", "NotEq", "GtE", "LtE", "Gt", "Lt") and any(is_app(a, "len") and is_app(a.args[0], ".derive") for a in t.args):
            continue
        if is_app(t, "Eq", "NotEq") and any(is_app(a, "pow") for a in t.args):
            continue      # membership assertion on the derived element
        extra.append(show(t, maxdepth=4) + "=" + str(p))
    ctx.ob(rule, inst, not extra, "defined for every input (no condition on the input on the returning path)" if not extra else
           "the derivation also depends on %s: it is not the published function for every input" % extra, site)


def integer(ctx, world, ev):
    st, g, syms = gm.symbolic_int_group(world, ev)
    p, q = syms["p"], syms["q"]
    f = st.heap[g.oid]
    gname = g.cls.name
    pw = Sym("pw", "bytes")
    # H2/H3 password_to_scalar
    outs = ev.run_method(g, "password_to_scalar", [pw], st=st.fork())
    rets = session.rets(outs)
    ctx.total(rets, outs, "H-total", "%s.password_to_scalar has no returning path" % gname)
    ssz = gm.attr_of(ev, g, "scalar_size_bytes", st)
    from .c15 import is_width
    okw = is_width(ssz, q, {(t, p_) for (t, p_, _) in st.pc})
    ctx.ob("H3", gname + " scalar size", okw, "scalar_size_bytes = size_bytes(q)" if okw else
           "scalar_size_bytes is %s" % show(ssz, maxdepth=5))
    for o in rets:
        v = o.value
        site = o.site
        length = mk_app("Add", (ssz, Const(16)))
        shape = is_app(v, "Mod") and v.args[1] == q and is_app(v.args[0], "be2int") and is_app(v.args[0].args[0], ".derive")
        ctx.ob("H2", gname + ".password_to_scalar", shape, "big-endian integer of the HKDF output reduced mod q" if shape else
               "password_to_scalar is %s, expected be2int(HKDF(pw)) mod q" % show(v, maxdepth=6), site)
        input_total(ctx, "H2-total", gname + ".password_to_scalar", o, pw, site)
        if shape:
            check_hkdf(ctx, "H1", gname + ".password_to_scalar", v, INFO_PW, length, pw, site)
    # H5 arbitrary_element
    seed = Sym("seed", "bytes")
    outs = ev.run_method(g, "arbitrary_element", [seed], st=st.fork())
    rets = session.rets(outs)
    ctx.total(rets, outs, "H-total", "%s.arbitrary_element has no returning path" % gname)
    esz = gm.attr_of(ev, g, "element_size_bytes", st)
    for o in rets:
        ctx.require(isinstance(o.value, Obj), "arbitrary_element does not return an element object")
        v0 = gm.int_element_value(st, g, o.state, o.value)
        vals = [v0] if v0 is not None else [App("not-an-element-of-this-group", tuple(v for v in o.state.heap[o.value.oid].values() if v != g))]
        conds = conds_of(o)
        r = mk_app("FloorDiv", (mk_app("Sub", (p, Const(1))), q))
        ok = len(vals) == 1 and is_app(vals[0], "pow") and len(vals[0].args) == 3 and vals[0].args[1] == r and vals[0].args[2] == p \
            and is_app(vals[0].args[0], "Mod") and vals[0].args[0].args[1] == p and is_app(vals[0].args[0].args[0], "be2int")
        input_total(ctx, "H5-total", gname + ".arbitrary_element", o, seed, o.site)
        ctx.ob("H5", gname + ".arbitrary_element form", ok, "element = (be2int(HKDF(seed)) mod p) ^ ((p-1)//q) mod p, in this group" if ok else
               "arbitrary_element is %s, expected pow(be2int(HKDF(seed)) %% p, (p-1)//q, p)" % [show(v, maxdepth=6) for v in vals], o.site)
        if ok:
            check_hkdf(ctx, "H4", gname + ".arbitrary_element", vals[0], INFO_ELEM, esz, seed, o.site)
            okg = has_eq(conds, mk_app("Mult", (r, q)), mk_app("Sub", (p, Const(1)))) \
                or has_eq(conds, mk_app("Mod", (mk_app("Sub", (p, Const(1))), q)), Const(0))      # r*q == p-1  <=>  (p-1) % q == 0
            ctx.ob("H5", gname + " cofactor exact", okg, "guard r*q == p-1: the exponent is exactly the cofactor" if okg else
                   "no guard that (p-1)//q * q == p-1", o.site)
            okm = has_eq(conds, mk_app("pow", (vals[0], q, p)), Const(1))
            ctx.ob("H5", gname + " membership asserted", okm, "result asserted to be in the order-q subgroup" if okm else
                   "membership of the derived element is not asserted", o.site)
            okg2 = g in o.state.heap[o.value.oid].values()
            ctx.ob("H5", gname + " group", okg2, "element belongs to the deriving group")


def ed25519(ctx, world, ev):
    _, G = gm.group_classes(world, ev)
    m, base = gm.ed_module_of(world, ev)
    qn, Q = gm.field_prime(world, ev)
    oo = session.rets(ev.run_method(G, "order", [], st=world.static.fork()))
    ctx.require(len(oo) == 1 and isinstance(oo[0].value, Const), "anchor vanished: Ed25519 order()")
    L = oo[0].value
    pw = Sym("pw", "bytes")
    outs = ev.run_method(G, "password_to_scalar", [pw], st=world.static.fork())
    rets = session.rets(outs)
    ctx.total(rets, outs, "H-total", "Ed25519 password_to_scalar has no returning path")
    for o in rets:
        v = o.value
        shape = is_app(v, "Mod") and v.args[1] == L and is_app(v.args[0], "be2int") and is_app(v.args[0].args[0], ".derive")
        ctx.ob("H2", "Ed25519.password_to_scalar", shape, "big-endian integer of the HKDF output reduced mod L" if shape else
               "password_to_scalar is %s" % show(v, maxdepth=6), o.site)
        input_total(ctx, "H2-total", "Ed25519.password_to_scalar", o, pw, o.site)
        if shape:
            check_hkdf(ctx, "H1", "Ed25519.password_to_scalar", v, INFO_PW, Const(48), pw, o.site)
    # the two group classes share one derivation function (sibling agreement)
    # H6 arbitrary_element (one symbolic iteration of the try-and-increment loop)
    seed = Sym("seed", "bytes")
    got = ev.getattr(G, "arbitrary_element", world.static.fork())
    e1 = Ev(world)
    e1.import_all()
    e1.trace_calls = []
    e1.run_method(G, "arbitrary_element", [seed], st=world.static.fork())
    loopf = [f for (f, a, k, s) in e1.trace_calls if e1.policy.classify(f) == "loop"]
    ctx.require(loopf, "anchor vanished: Ed25519 arbitrary_element is no longer a try-and-increment loop")
    f = loopf[0]
    site = (f.mod.relpath, f.node.lineno, f.node.name)
    loops = [n for n in ast.walk(f.node) if isinstance(n, (ast.For, ast.While))]
    ok = len(loops) == 1 and (isinstance(loops[0], ast.For) or
                              (isinstance(loops[0].test, ast.Constant) and loops[0].test.value in (True, 1) and not loops[0].orelse))
    ctx.ob("H6", "loop shape", ok, "one loop over successive candidates (for over a counter, or while True with a carried candidate)" if ok else
           "unexpected loop structure", site)
    if not ok:
        return
    e2 = Ev(world, loop_mode="once")
    e2.import_all()
    e2.policy.force_inline.add(f.qual)
    outs = e2.run(f, [seed], [], world.static.fork())
    rets = session.rets(outs)
    ctx.total(rets, outs, "H-total", "Ed25519 arbitrary_element has no returning path in one iteration")
    forms = gm.formula_functions(world, ev)
    complete = {k for k, v in forms.items() if v.get("kind") == "add-complete"}
    dedicated = {k for k, v in forms.items() if v.get("kind") == "add-dedicated"}
    hk = hkdf_term(INFO_ELEM, Const(48), seed)
    y0 = mk_app("Mod", (mk_app("be2int", (hk,)), Const(Q)))
    for o in rets:
        conds = conds_of(o)
        ctx.require(isinstance(o.value, Obj), "arbitrary_element does not return an element object")
        okc = o.value.cls is base.cls
        ctx.ob("H6", "result class", okc, "returns a subgroup Element" if okc else "returns %s" % o.value.cls.name, site)
        coords = [v for v in o.state.heap[o.value.oid].values() if isinstance(v, TupleV) and len(v.items) == 4]
        ctx.require(coords, "no coordinates on the derived element")
        lad = gm.unproj(coords[0])
        lc = gm.ladder_call(world, ev, lad)
        okl = lc is not None and lc["n"] == Const(8)
        why = ""
        P = None
        if okl:
            uses = lc["uses"]
            okl = bool(uses & complete) and not (uses & dedicated)
            why = "ladder uses %s" % sorted(uses)
            P = lc["pt"]
        ctx.ob("H6", "cofactor multiplication", okl, "result = 8 * P computed with the complete-addition ladder" if okl else
               "result is not 8*P by the complete ladder (%s): %s" % (why, show(lad, maxdepth=3) if lad is not None else None), site)
        if P is None or not isinstance(P, TupleV):
            continue
        # P = affine_to_extended([x, y_plus]) with y_plus = (y + k) % Q, x = xrecover(y_plus)
        def strip(t):
            return t.args[0] if is_app(t, "Mod") and t.args[1] == Const(Q) else t
        x, yp = strip(P.items[0]), P.items[1]
        yp = yp if not (is_app(yp, "Mod") and is_app(yp.args[0], "Mod")) else yp.args[0]
        if is_app(yp, "Mod") and yp.args[1] == Const(Q) and isinstance(yp.args[0], Sym) and yp.args[0].n.startswith("loop:"):
            yp = yp.args[0]        # a carried candidate is already reduced (checked by induction below)
        it = [t for t in subterms(yp) if is_app(t, "iter-elem")]
        oky = len(it) == 1 and yp == mk_app("Mod", (mk_app("Add", (y0, it[0])), Const(Q))) and is_app(it[0].args[0], "itertools.count") \
            and it[0].args[0].args in ((Const(0),), ()) and not it[0].args[0].kw
        if not oky and len(it) == 1 and is_app(it[0].args[0], "itertools.count") and it[0].args[0].args == (y0,) and not it[0].args[0].kw \
                and yp == mk_app("Mod", (it[0], Const(Q))):
            oky = True             # for y_plus in itertools.count(y): candidate y_plus % Q  ==  (y + k) % Q, k = 0, 1, 2, ...
        if not oky and isinstance(yp, Sym) and yp.n.startswith("loop:"):
            # while True: the candidate is a loop-carried local.  Induction: it is y0 before the loop and
            # every way back to the loop head replaces it by (candidate + 1) mod Q
            name = yp.n[5:]
            entry = [c for (_, c) in e2.loop_entries if name in c]
            nxt = mk_app("Mod", (mk_app("Add", (yp, Const(1))), Const(Q)))
            backs = [p.val["locals"].get(name) for p in e2.continues]
            oky = len(entry) == 1 and entry[0][name] == y0 and bool(backs) and all(b == nxt for b in backs)
        ctx.ob("H6", "candidates", oky, "candidates are (y + k) mod Q for k = 0, 1, 2, ... with y = be2int(HKDF(seed, 48 bytes)) mod Q" if oky else
               "candidate y is %s" % show(yp, maxdepth=7), site)
        if oky:
            check_hkdf(ctx, "H4", "Ed25519.arbitrary_element", yp if not isinstance(yp, Sym) else y0, INFO_ELEM, Const(48), seed, site)
        rc_ = gm.root_call(world, x)
        okx = rc_ is not None and rc_[1] == yp and e2.policy.classify(rc_[0]) == "leaf"
        whyx = ""
        if okx:
            okx, whyx = gm.sqrt_helper_ok(world, ev, rc_[0], rc_[2])
        ctx.ob("H6", "x coordinate", okx, "x = xrecover(candidate), the even root, no sign choice (%s)" % whyx if okx else
               "x coordinate is %s, expected the even square root of (y^2-1)/(dy^2+1) of the candidate %s" % (show(x, maxdepth=4), whyx), site)
        # on-curve, identity skip, L-torsion assert
        oncurve = any(is_app(t, "Eq", "NotEq") and (p is (t.f == "Eq")) and Const(0) in t.args and
                      any(is_app(a, "Mod") and a.args[1] == Const(Q) for a in t.args) for (t, p) in conds)
        for (t, p) in conds:
            if isinstance(t, App) and t.f.startswith("fn:") and p is True and len(t.args) == 1 and isinstance(t.args[0], TupleV) \
                    and len(t.args[0].items) == 2 and t.args[0].items[1] == yp:
                cf = gm.func_by_qual(world, t.f[3:])
                if cf is not None and gm.oncurve_test_ok(world, ev, cf)[0]:
                    oncurve = True
        ctx.ob("H6", "on-curve filter", oncurve, "candidate used only if it satisfies the curve equation (C12 P5 checks the predicate)" if oncurve else
               "no on-curve condition on the returning path", site)
        idt = [(t, p) for (t, p) in conds if isinstance(t, App) and t.f.startswith("fn:") and len(t.args) == 1
               and gm.func_by_qual(world, t.f[3:]) is not None and gm.identity_test_ok(world, ev, gm.func_by_qual(world, t.f[3:]))[0]]
        skip = any(p is False and t.args[0] == coords[0] for (t, p) in idt)
        seen_ = set()
        for (t, p) in idt:
            # the identity test must see the identity: a coordinate it compares unreduced has to arrive normalised
            for (i_, ok_, detail_, site_) in gm.identity_repr_obligations(world, ev, t):
                if i_ not in seen_:
                    seen_.add(i_)
                    ctx.ob("H6-repr", i_, ok_, detail_, site_)
        ctx.ob("H6", "identity skipped", skip, "8*P == identity is skipped (small-order candidates rejected)" if skip else
               "the identity is not excluded", site)
        tors = False
        for (t, p) in idt:
            c = gm.unproj(t.args[0])
            lc = gm.ladder_call(world, ev, c) if p is True else None
            if lc is not None and lc["pt"] == coords[0] and lc["n"] == L:
                uses = lc["uses"]
                tors = bool(uses & complete) and not (uses & dedicated)
        ctx.ob("H6", "L-torsion asserted", tors, "L * (8P) == identity asserted with the complete ladder" if tors else
               "the result is not asserted to have order L", site)
    cont = [p for p in e2.continues]
    ok = len(cont) >= 2
    ctx.ob("H6", "increment", ok, "rejected candidates (off-curve, small order) continue with the next k" if ok else
           "only %d continue paths" % len(cont), site)


def params(ctx, world, ev):
    st, pobj = session.build_params(world, ev, world.static.fork())
    f = st.heap[pobj.oid]
    G = f["group"]
    for nm, seed in (("M", b"M"), ("N", b"N"), ("S", b"symmetric")):
        ok = f.get(nm) == mk_app(".arbitrary_element", (G, Const(seed)))
        ctx.ob("H7", "_Params." + nm, ok, "%s = group.arbitrary_element(%r)" % (nm, seed) if ok else
               "%s is %s, released: group.arbitrary_element(%r)" % (nm, show(f.get(nm), maxdepth=4), seed))


def check(ctx, world):
    ctx.explanation = (
        "Fact rules on normal forms. H1/H4: every HKDF call in the derivations has algorithm SHA256, salt b'', the released "
        "info string, the size argument as length and the caller's input unmodified. H2/H3: password_to_scalar = "
        "be2int(HKDF(pw, scalar_size+16)) mod q for the integer-group class (symbolic p, q, g) and mod L with 48 bytes for "
        "Ed25519. H5: integer arbitrary_element = pow(be2int(HKDF(seed, element_size)) mod p, (p-1)//q, p) under the guards "
        "r*q == p-1 and membership. H6: Ed25519 arbitrary_element is evaluated for one symbolic iteration of its loop: "
        "y = be2int(HKDF(seed, 48)) mod Q, candidates (y+k) mod Q for k from itertools.count(0), x = xrecover(candidate), "
        "on-curve filter, result 8*P by the complete ladder, identity skipped, L-torsion asserted, returned as a subgroup "
        "Element; rejected candidates continue. H7: _Params derives M, N, S from the seeds b'M', b'N', b'symmetric'. "
        "H8 (constant validation, shared with C18): the checker's reference model reproduces the released M/N/S of all four "
        "sets from the extracted constants and seeds, and the term the code evaluates for the integer sets folds to the same value.")
    ctx.min_obligations = 35
    ev = session.new_ev(world)
    integer(ctx, world, ev)
    ed25519(ctx, world, ev)
    params(ctx, world, ev)
    # H8
    from . import c18
    sp = gm.shipped_params(world, ev)
    S = c18.spec()
    for label in ("1024", "2048", "3072"):
        pp, g = sp[label]
        p, q, gv = c18.int_consts(world, g)
        c18.mns(ctx, world, ev, label, pp, g, S["integer"][label], ("int", p, q, gv))
    qn, Q = gm.field_prime(world, ev)
    dn, d = gm.curve_d(world, ev)
    _, G = gm.group_classes(world, ev)
    oo = session.rets(ev.run_method(G, "order", [], st=world.static.fork()))
    L = oo[0].value.v
    from ..numth import Edwards
    E = Edwards(Q, d)
    By = 4 * pow(5, Q - 2, Q) % Q
    c18.mns(ctx, world, ev, "Ed25519", sp["Ed25519"][0], G, S["ed25519"], ("ed", Q, d, L, (E.xrecover(By), By)))
