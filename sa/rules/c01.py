"""C01 - key agreement: matching inputs always yield the same session key (DESIGN 4.1)."""
from ..terms import Const, Sym, App, TupleV, Obj, DictV, mk_app, is_app, show, subterms, subst
from ..poly import Poly
from ..linform import Interp, Lin, P521, encoded_element
from ..evalr import Ev, Policy
from ..loader import AnalysisError
from ..report import Ctx
from .. import session, groupmodel as gm



def decode_encode(t):
    """bytes_to_element(E.to_bytes()) == E  (C15 K3/K5 + C05: decoding inverts encoding on
    subgroup elements; the Ed25519 identity is the protocol-refused degenerate case)."""
    memo = {}

    def go(x):
        k = x._key
        if k in memo:
            return memo[k]
        if isinstance(x, App):
            r = mk_app(x.f, [go(a) for a in x.args], [(kk, go(v)) for kk, v in x.kw])
            if r.f == ".bytes_to_element" and len(r.args) == 2 and is_app(r.args[1], ".to_bytes") and len(r.args[1].args) == 1:
                r = r.args[1].args[0]
        elif isinstance(x, TupleV):
            r = TupleV([go(a) for a in x.items], x.kind)
        else:
            r = x
        memo[k] = r
        return r
    return go(t)


def key_parts(v):
    if is_app(v, "H") and is_app(v.args[0], "cat"):
        return list(v.args[0].args)
    return None


def algebra(ctx, world, ev, pair, label):
    """(a)-(c) for a pair of classes that talk to each other.  The obligation is the
    agreement identity itself; the exact published form of the two elements is C03/C04's."""
    (n1, t1), (n2, t2) = pair
    m1 = session.models(world, ev, n1, tag=t1)
    m2 = session.models(world, ev, n2, tag=t2)
    ip = Interp()
    nkeys = 0
    for a in m1:
        for b in m2:
            pfa = a.st_new.heap[a.params.oid]
            G = pfa["group"]
            ip.atom_e(mk_app("getattr", (G, Const("Base"))), "G")
            for k in ("M", "N", "S"):
                ip.atom_e(pfa[k], k)
            ip.atom_s(mk_app(".random_scalar", (G, a.syms["entropy_f"])), "x")
            ip.atom_s(mk_app(".random_scalar", (G, b.syms["entropy_f"])), "y")
            ip.atom_s(mk_app(".password_to_scalar", (G, a.syms["password"])), "w")
            for sa, fa in zip(a.started, a.finish):
                for sb, fb in zip(b.started, b.finish):
                    _, out_a = session.outbound_of(a, sa)
                    _, out_b = session.outbound_of(b, sb)
                    ctx.require(out_a is not None and out_b is not None, "%s: start() message without a constant side prefix (C06 S1)" % label)
                    Ea, Eb = encoded_element(out_a), encoded_element(out_b)
                    ok = Ea is not None and Eb is not None
                    ctx.ob("A-out", label, ok, "both outbound messages are element.to_bytes()" if ok else
                           "outbound message is not the encoding of one element: %s / %s" % (show(out_a, maxdepth=3), show(out_b, maxdepth=3)), sa.site)
                    if not ok:
                        continue
                    la, lb = ip.elem(Ea), ip.elem(Eb)
                    for oa in session.rets(fa):
                        for ob in session.rets(fb):
                            if not consistent(oa, ob, len(sa.state.pc), len(sb.state.pc), a, b):
                                continue      # infeasible pair: both ends were given the same inputs
                            nkeys += 1
                            agree(ctx, ip, label, a, b, oa, ob, out_a, out_b, la, lb, G)
    ctx.require(nkeys >= 1, "%s: no pair of key-returning paths" % label)


def consistent(oa, ob, base_a, base_b, a, b):
    """Conditions over the shared inputs (password, identities, group) must have the same
    polarity on both ends: the two ends were created with matching inputs."""
    private = {a.msg, b.msg, a.syms["entropy_f"], b.syms["entropy_f"]}

    def shared(o, base):
        out = {}
        for (t, p, _) in o.state.pc[base:]:
            if not any(x in private for x in subterms(t)):
                out[t._key] = p
        return out
    ca, cb = shared(oa, base_a), shared(ob, base_b)
    return all(cb.get(k, p) == p for k, p in ca.items())


def agree(ctx, ip, label, a, b, oa, ob, out_a, out_b, la, lb, G):
    pa, pb = key_parts(oa.value), key_parts(ob.value)
    ok = pa is not None and pb is not None
    ctx.ob("A-key-shape", label, ok, "both keys are H(cat(fields..., K))" if ok else "a key is not a hash of a concatenation", oa.site)
    if not ok:
        return
    sides = []
    for (cm, parts, o) in ((a, pa, oa), (b, pb, ob)):
        Kt = encoded_element(parts[-1])
        if Kt is None:
            ctx.ob("A-K", "%s %s" % (label, cm.name), False, "K is not element.to_bytes(): %s" % show(parts[-1], maxdepth=4), o.site)
            return
        decs = [t for t in subterms(Kt) if is_app(t, ".bytes_to_element")]
        if len({d._key for d in decs}) != 1:
            ctx.ob("A-K", "%s %s" % (label, cm.name), False, "the shared element uses %d decoded peer elements" % len({d._key for d in decs}), o.site)
            return
        nin = ip.atom_e(decs[0], "In_" + cm.tag)
        sides.append((cm, parts, ip.elem(Kt), nin, decs[0]))
    (ca, pa, lka, ina, da), (cb, pb, lkb, inb, db) = sides
    ka = lka.subst_atom(ina, lb)
    kb = lkb.subst_atom(inb, la)
    ok = ka == kb
    ctx.ob("A-agree", label, ok,
           "K_A[In := out_B] = K_B[In := out_A] = %s as polynomials in the symbolic scalars (out_A = %s, out_B = %s)"
           % (ka.show(ip.names()), la.show(ip.names()), lb.show(ip.names())) if ok else
           "with matching inputs the two ends compute different shared elements: %s vs %s (out_A = %s, out_B = %s, K_A = %s, K_B = %s)"
           % (ka.show(ip.names()), kb.show(ip.names()), la.show(ip.names()), lb.show(ip.names()), lka.show(ip.names()), lkb.show(ip.names())), oa.site)
    nontriv = any(not v.is_zero() for v in ka.t.values())
    ctx.ob("A-nontrivial", label, nontriv, "the shared element depends on both secret scalars" if nontriv else "the shared element is constant")
    # (c) transcript slots under message exchange: each end's received payload is the other's outbound bytes
    pla, plb = session.payload_of(ca.msg), session.payload_of(cb.msg)

    def exch(t, payload, peer_bytes, dec, peer_elem_term):
        t = subst(t, {dec: peer_elem_term})
        return decode_encode(subst(t, {payload: peer_bytes}))
    Ea, Eb = encoded_element(out_a), encoded_element(out_b)
    pa2 = [exch(t, pla, out_b, da, Eb) for t in pa]
    pb2 = [exch(t, plb, out_a, db, Ea) for t in pb]
    # a hand-written sort forks on the order of the two messages; under the exchange both ends
    # compare the same two byte strings, so their orderings must be compatible (a < b on one end
    # and b < a on the other is infeasible) and non-strict both ways means the messages are equal
    facts = []
    for (o, payload, peer_bytes, dec, peer_elem) in ((oa, pla, out_b, da, Eb), (ob, plb, out_a, db, Ea)):
        for (t, p, _) in o.state.pc:
            if is_app(t, "Lt", "LtE", "Gt", "GtE") and len(t.args) == 2:
                x, y = (exch(u, payload, peer_bytes, dec, peer_elem) for u in t.args)
                if {x._key, y._key} != {out_a._key, out_b._key}:
                    continue
                f = t.f if p else {"Lt": "GtE", "GtE": "Lt", "Gt": "LtE", "LtE": "Gt"}[t.f]
                if f in ("Gt", "GtE"):
                    x, y = y, x
                facts.append((x._key, y._key, f in ("Lt", "Gt")))
    for (x, y, strict) in facts:
        if any(x2 == y and y2 == x and (strict or s2) for (x2, y2, s2) in facts):
            return            # infeasible pair of paths: the two ends order the same two messages differently
    if any((y, x, False) in facts for (x, y, st) in facts if not st):
        pa2 = [subst(t, {out_b: out_a}) for t in pa2]      # the two messages are equal on this pair of paths
        pb2 = [subst(t, {out_b: out_a}) for t in pb2]
    okn = len(pa2) == len(pb2)
    ctx.ob("C-slots", label + " count", okn, "%d transcript fields on both sides" % len(pa2) if okn else "%d vs %d fields" % (len(pa2), len(pb2)))
    if not okn:
        return
    for i, (ta, tb) in enumerate(zip(pa2[:-1], pb2[:-1])):
        ok = ta == tb
        ctx.ob("C-slots", "%s field %d" % (label, i), ok, "identical on both ends: %s" % show(ta, maxdepth=3) if ok else
               "with matching inputs transcript field %d differs between the two ends: %s vs %s" % (i, show(ta, maxdepth=5), show(tb, maxdepth=5)))


def session_totality(ctx, world, ev):
    """'For all passwords, identities and scalars': with byte-string inputs the constructor and
    start() have no raising path, and finish() on a message carrying the peer's side byte can only
    return a key or raise ReflectionThwarted (decoding failures are the group's business, C05)."""
    from .c06 import PEER
    for cname in session.PUBLIC_CLASSES:
        for cm in session.models(world, ev, cname):
            bad = sorted({str(o.exc) for o in cm.ctor if o.kind == "raise"})
            ctx.ob("T-ctor", cname, not bad, "construction cannot raise for byte-string inputs" if not bad else
                   "the constructor raises %s for some inputs" % bad, next((o.site for o in cm.ctor if o.kind == "raise"), None))
            bad = sorted({str(o.exc) for o in cm.start if o.kind == "raise"})
            ctx.ob("T-start", cname, not bad and bool(cm.started), "start() cannot raise on a fresh instance" if not bad else
                   "start() raises %s for some inputs" % bad, next((o.site for o in cm.start if o.kind == "raise"), None))
            for s in cm.started:
                msg = mk_app("cat", (Const(PEER[cname]), Sym("payload", "bytes")))
                outs = ev.run_method(cm.obj, "finish", [msg], st=s.state.fork())
                bad = sorted({str(o.exc) for o in outs if o.kind == "raise" and o.exc != "ReflectionThwarted"})
                ctx.ob("T-finish", cname, not bad and bool(session.rets(outs)),
                       "finish(peer-labelled message) returns a key or raises ReflectionThwarted, nothing else" if not bad else
                       "finish() raises %s for some matching inputs" % bad, next((o.site for o in outs if o.kind == "raise" and o.exc != "ReflectionThwarted"), None))


def ed_totality(ctx, world, ev0):
    """(e) On the real Ed25519 group with subgroup-kind parameter elements, no operation of
    start()/finish() can raise inside the element arithmetic and no result is of unknown kind."""
    sp = gm.shipped_params(world, ev0)
    pobj, G = sp["Ed25519"]
    m, base = gm.ed_module_of(world, ev0)
    ecls = base.cls
    pol = Policy(world)
    tb = ecls.lookup("to_bytes")
    if tb and tb[0] == "func":
        from ..terms import FuncV
        pol.force_opaque.add(FuncV(tb[1], tb[2].mod, owner=tb[2]).qual)
    ev = Ev(world, policy=pol, maxpaths=4000, fuel=400000)
    ev.import_all()
    ev.next_oid = ev0.next_oid
    st = world.static.fork()
    cf = [k for k, v in st.heap[base.oid].items() if isinstance(v, TupleV) and len(v.items) == 4][0]
    pcls = pobj.cls
    params = ev.new_obj(pcls, st)
    for k, v in st.heap[pobj.oid].items():
        st.heap[params.oid][k] = v
    for nm in ("M", "N", "S"):
        e = ev.new_obj(ecls, st)
        st.heap[e.oid][cf] = TupleV([Sym("%s%s" % (nm, c), "int") for c in "XYZT"])
        st.heap[params.oid][nm] = e
    arith = set()
    for c in world.classes():
        if c.mod is m:
            for stn in c.node.body:
                if hasattr(stn, "name"):
                    arith.add(c.name + "." + stn.name)
    npaths = 0
    for cname in session.PUBLIC_CLASSES:
        cls = session.public_class(world, ev, cname)
        kw, syms = session.ctor_args(cls, params)
        outs = ev.run(cls, [], kw, st.fork())
        for co in session.rets(outs):
            obj = co.value
            souts = ev.run_method(obj, "start", [], st=co.state.fork())
            npaths += len(souts)
            bad = [o for o in souts if o.kind == "raise" and o.exc != "TypeError" and o.site and any(o.site[2].endswith(a) for a in arith)]
            ctx.ob("E-total", "%s.start on Ed25519" % cname, not bad and bool(session.rets(souts)),
                   "no path of start() raises inside the element arithmetic (scalar 0, password scalar 0, identity intermediates included); %d paths" % len(souts)
                   if not bad else "start() can raise %s at %s" % (bad[0].exc, bad[0].site), (bad[0].site if bad else None))
            for so in session.rets(souts)[:4]:
                fouts = ev.run_method(obj, "finish", [Sym("msg", "bytes")], st=so.state.fork())
                npaths += len(fouts)
                bad = [o for o in fouts if o.kind == "raise" and o.exc != "TypeError" and o.site and any(o.site[2].endswith(a) for a in arith)]
                ctx.ob("E-total", "%s.finish on Ed25519" % cname, not bad and bool(session.rets(fouts)),
                       "no path of finish() raises inside the element arithmetic; %d paths" % len(fouts) if not bad else
                       "finish() can raise %s at %s (an intermediate of unknown kind refuses the scalar)" % (bad[0].exc, bad[0].site),
                       (bad[0].site if bad else None))
    ctx.count("ed25519_concrete_paths", npaths)


def check(ctx, world):
    ctx.explanation = (
        "(a) Protocol algebra in the linear-form domain: for SPAKE2_A/SPAKE2_B and for two SPAKE2_Symmetric instances the "
        "outbound element is x*G + w*Blind and the shared element x*(In - w*Unblind), and K_A[In := out_B] = K_B[In := out_A] "
        "= x*y*G as polynomials in the symbolic scalars x, y, w (any group: G, M, N, S are free generators). (b) Role mirror: "
        "blind(A) = unblind(B), unblind(A) = blind(B); symmetric: blind = unblind = S. (c) Transcript slots: after substituting "
        "each end's received payload by the other end's outbound bytes (and decode(encode(E)) = E from C15/C05) the transcript "
        "fields are pairwise identical and the K fields are equal group elements. (d) Both ends derive w from the constructor's "
        "password by group.password_to_scalar; restored instances have identical fields (C08, re-run here). (e) On the concrete "
        "Ed25519 group with subgroup-kind M, N, S, start()/finish() are evaluated by the forking evaluator through the real "
        "element classes: no path raises inside the element arithmetic, so edge scalars and identity intermediates cannot "
        "break agreement. Agreement then follows from the group axioms (C12, C13) and codec bijectivity (C15).")
    ctx.min_obligations = 20
    ev = session.new_ev(world)
    algebra(ctx, world, ev, (("SPAKE2_A", "A"), ("SPAKE2_B", "B")), "A<->B")
    algebra(ctx, world, ev, (("SPAKE2_Symmetric", "1"), ("SPAKE2_Symmetric", "2")), "S<->S")
    session_totality(ctx, world, ev)
    ed_totality(ctx, world, ev)
    # (d) restored instances: the composition check of C08
    from . import c08
    sub = Ctx("C08", ctx.tier, "other")
    c08.check(sub, world)
    rel = [o for o in sub.obs if o.rule in ("Z4", "Z3-total", "Z3-class")]
    bad = [o for o in rel if not o.ok]
    for o in bad:
        ctx.ob("D-restore/" + o.rule, o.instance, False, o.detail, o.site, o.witness)
    ctx.ob("D-restore", "finish() on a restored instance", not bad and bool(rel),
           "from_serialized(serialize()) returns and finish(msg) has the same paths and key term as on the original (%d C08 obligations)" % len(rel))

    # (e') the element operations the protocol uses (add, scalarmult, identity handling, ladders)
    # obey the closure/identity obligations of C13; negate/subtract/== are not used by the protocol
    from .common import include
    # the peer's honest message must be accepted: element/scalar codecs are total on valid values
    include(ctx, world, "c15", "E-codec", keep=lambda o: o.rule.endswith("-total") or o.rule.startswith("K2") or o.rule.startswith("K4"))
    include(ctx, world, "c13", "E-ops", keep=lambda o: o.rule in ("G1-add", "G1-scalarmult", "G1-zero", "G3-sum", "G3-modL", "G3-identity", "G6", "G7", "G7-repr")
            or o.rule.startswith("G5/") or (o.rule == "G3-closure" and (o.instance.startswith("add(") or o.instance.startswith("scalarmult("))))
