"""C12 - Ed25519 point addition and doubling compute the Edwards group law (DESIGN 4.12).

Proof-level: polynomial value numbering of the straight-line formula functions over
GF(Q) in symbolic projective inputs (x z, y z, z, x y z); identities are zero-tests
of a canonical normal form modulo the curve ideal."""
import ast

from ..terms import Const, Sym, App, TupleV, Obj, FuncV, ClassV, mk_app, is_app, show, subterms
from ..loader import AnalysisError
from ..poly import Poly, Straight, term_poly
from ..evalr import Ev, Policy
from .. import session, groupmodel as gm
from ..numth import is_probable_prime, legendre


def check(ctx, world):
    ctx.explanation = (
        "Each straight-line function of the Ed25519 module that returns a 4-tuple is translated to polynomials "
        "over GF(Q) with inputs (x_i z_i, y_i z_i, z_i, x_i y_i z_i), z_i free (every projective representation). "
        "Obligations: P1 complete addition: X3(1+k) = (x1y2+y1x2)Z3, Y3(1-k) = (y1y2+x1x2)Z3 with k = d x1x2y1y2, "
        "X3Y3 = Z3T3, Z3 = 4z1^2z2^2(1-k^2); P2 doubling: the same with P2 = P1, modulo the curve ideal; P3 dedicated "
        "addition: both identities modulo the ideal of the two curve equations and Z3 = +-4z1^2z2^2(x1y2-y1x2)(y1y2-x1x2), "
        "i.e. Z3 = 0 exactly when P1-P2 has x = 0 or y = 0 (orders 1, 2, 4). A normal form is computed by the terminating "
        "rewrite x_i^2y_i^2 -> (y_i^2-x_i^2-1)/d, canonical because the generators' leading monomials are coprime. "
        "P4 completeness side conditions: Q prime, Q = 1 mod 4, -1 a square, d a non-square (Bernstein-Lange: the "
        "denominators 1 +- k never vanish on curve points, so P1/P2 have no exceptional inputs). P5 helper functions: "
        "affine<->extended conversions, identity predicate, on-curve predicate. P6 the dedicated addition is reachable "
        "only inside a double-and-add ladder called on a subgroup element with a scalar reduced into [1, L). "
        "P7 the element-level add uses the complete formula. `% m` is accepted as a ring identity only when m folds to Q.")
    ctx.min_obligations = 18
    ctx.trusted_base = ["sa/poly.py (sparse polynomial arithmetic over GF(Q), ~150 lines)",
                        "sa/poly.py Straight: ast -> polynomial translation of straight-line code",
                        "Bernstein-Lange completeness theorem for twisted Edwards curves with square a and non-square d",
                        "Buchberger coprime-leading-term criterion (normal form is canonical)",
                        "Python integer semantics; Python ast module"]
    ev = session.new_ev(world)
    m, consts = gm.ed_consts(world, ev)
    qn, Q = gm.field_prime(world, ev)
    dn, d = gm.curve_d(world, ev)
    ctx.require(d is not None, "anchor vanished: curve constant d")
    forms = gm.formula_functions(world, ev)
    ctx.require(forms, "anchor vanished: no straight-line 4-tuple formula functions in %s" % m.name)
    kinds = {}
    for qual, info in sorted(forms.items()):
        f = gm.func_by_qual(world, qual)
        site = (m.relpath, f.node.lineno, f.node.name)
        k = info.get("kind")
        kinds.setdefault(k, []).append(qual)
        if k in ("add-complete", "add-dedicated", "double"):
            rule = {"add-complete": "P1", "double": "P2", "add-dedicated": "P3"}[k]
            ctx.ob(rule + "-law", qual, True,
                   "x3 and y3 satisfy the twisted-Edwards law (cross-multiplied)%s; X3*Y3 = Z3*T3"
                   % (" modulo the curve ideal" if info.get("modulo_curve") else " as plain polynomial identities"), site,
                   witness=info)
            ctx.ob(rule + "-denominator", qual, bool(info.get("z3_form")),
                   {"P1": "Z3 = 4 z1^2 z2^2 (1 - d^2 x1^2 x2^2 y1^2 y2^2): vanishes only where 1 +- d x1x2y1y2 does (never on the curve, P4)",
                    "P2": "Z3 = +-z^4 (1 - d^2 x^4 y^4): never zero on the curve (P4)",
                    "P3": "Z3 = +-4 z1^2 z2^2 (x1y2 - y1x2)(y1y2 - x1x2): zero exactly when x(P1-P2) = 0 or y(P1-P2) = 0"}[rule]
                   if info.get("z3_form") else "the denominator Z3 does not have the expected factorisation", site)
        else:
            ctx.ob("P-law", qual, False,
                   "4-tuple formula function does not compute the twisted-Edwards group law: %s"
                   % (info.get("error") or "non-zero normal forms %s" % info.get("residual")), site, witness=info)
    ctx.ob("P1-exists", "complete addition", bool(kinds.get("add-complete")),
           "a complete (unified) addition formula exists: %s" % kinds.get("add-complete"))
    ctx.ob("P2-exists", "doubling", bool(kinds.get("double")), "a doubling formula exists: %s" % kinds.get("double"))
    ctx.count("formula_functions", len(forms))

    # ---- P4 constants
    ctx.ob("P4", "Q prime", is_probable_prime(Q), "field prime Q = %s is prime (BPSW + Miller-Rabin)" % qn)
    ctx.ob("P4", "Q = 2^255-19", Q == 2 ** 255 - 19, "Q = 2^255 - 19")
    ctx.ob("P4", "Q mod 4", Q % 4 == 1, "Q = 1 (mod 4)")
    ctx.ob("P4", "legendre(-1)", legendre(-1, Q) == 1, "-1 is a square mod Q (a = -1 is a square)")
    ctx.ob("P4", "legendre(d)", legendre(d, Q) == -1, "d is a non-square mod Q => addition law complete on E(GF(Q))")
    ctx.ob("P4", "d value", (d * 121666 + 121665) % Q == 0, "d = -121665/121666")

    # ---- P5 helpers, found through their use: affine->extended is what builds Base; the identity test
    base_cls = gm.ed_module_of(world, ev)[1].cls
    helpers = {}
    for name, v in m.env.items():
        if isinstance(v, FuncV):
            helpers[name] = v
    s = Straight(Q, consts, funcs={})
    x, y, z = (Poly.var(Q, n) for n in ("x", "y", "z"))
    n_a2e = n_e2a = n_curve = n_id = 0
    for name, f in sorted(helpers.items()):
        node = f.node
        site = (m.relpath, node.lineno, name)
        nargs = len(node.args.args)
        cls = ev.policy.classify(f)
        if cls != "inline" or nargs != 1:
            continue
        shape = ev.policy.ret_shape(f)
        if shape == 4:
            try:
                out = s.run(node, [(x, y)])
            except AnalysisError:
                continue
            ok = (out[0] - x).is_zero() and (out[1] - y).is_zero() and (out[2] - 1).is_zero() and (out[3] - x * y).is_zero()
            n_a2e += 1
            ctx.ob("P5-affine-to-extended", f.qual, ok, "(x, y) -> (x, y, 1, x*y) mod Q" if ok else
                   "affine->extended conversion does not produce (x, y, 1, xy)", site)
        elif shape == 2:
            inv_calls = []

            def inv_f(args, inv_calls=inv_calls):
                inv_calls.append(args[0])
                return Poly.var(Q, "zinv")
            names = {c.func.id for c in ast.walk(node) if isinstance(c, ast.Call) and isinstance(c.func, ast.Name)}
            s2 = Straight(Q, consts, funcs={nm: inv_f for nm in names})
            try:
                out = s2.run(node, [(x * z, y * z, z, x * y * z)])
            except AnalysisError:
                continue
            zi = Poly.var(Q, "zinv")
            # with zinv = 1/z:  out == (x, y)  <=>  out*1 == (xz*zinv, yz*zinv)
            ok = all((a - z).is_zero() for a in inv_calls) and bool(inv_calls) and \
                (out[0] - x * z * zi).is_zero() and (out[1] - y * z * zi).is_zero()
            n_e2a += 1
            ctx.ob("P5-extended-to-affine", f.qual, ok, "(X, Y, Z, T) -> (X/Z, Y/Z) using the inverse of Z" if ok else
                   "extended->affine conversion is not (X*inv(Z), Y*inv(Z))", site)
            # the inverse helper is x^(Q-2)
            for nm in names:
                hf = helpers.get(nm)
                if hf is None:
                    continue
                e2 = Ev(world)
                e2.import_all()
                outs = session.rets(e2.run(hf, [Sym("v", "int")], [], world.static.fork()))
                want = mk_app("pow", (Sym("v", "int"), Const(Q - 2), Const(Q)))
                ok = len(outs) == 1 and outs[0].value == want
                ctx.ob("P5-inverse", hf.qual, ok, "inv(v) = v^(Q-2) mod Q (Fermat)" if ok else
                       "field inverse is not v^(Q-2) mod Q: %s" % (show(outs[0].value) if outs else "no path"),
                       (m.relpath, hf.node.lineno, nm))
    # on-curve predicate and identity predicate: every boolean 1-argument leaf/inline predicate used by the decoder
    for name, f in sorted(helpers.items()):
        node = f.node
        if len(node.args.args) != 1:
            continue
        site = (m.relpath, node.lineno, name)
        e2 = Ev(world)
        e2.import_all()
        pol = e2.policy
        pol.force_inline.add(f.qual)
        if ev.policy.classify(f) == "leaf" and ev.policy.ret_shape(f) is None and Policy.returns_boolean(f.node):
            okid, why = gm.identity_test_ok(world, ev, f)
            if okid:
                n_id += 1
                ctx.ob("P5-identity-test", f.qual, True, "decides the identity in extended coordinates: " + why, site)
                continue
            okc, why = gm.oncurve_test_ok(world, ev, f)
            if okc:
                n_curve += 1
                ctx.ob("P5-on-curve", f.qual, True, why, site)
            continue
    # (which helpers exist is not part of the property: a helper that is written differently is
    # simply not listed here; the rules that rely on one - C05 D3, C15 K5 - recognise it themselves)
    ctx.note("helpers recognised and checked: affine->extended %d, extended->affine %d, on-curve %d, identity %d" % (n_a2e, n_e2a, n_curve, n_id))

    # ---- P6: who may call the dedicated addition
    dedicated = set(kinds.get("add-dedicated") or [])
    complete = set(kinds.get("add-complete") or [])
    callers_of = {}
    for (mod, qual, node) in world.functions():
        for c in ast.walk(node):
            if isinstance(c, ast.Call) and isinstance(c.func, ast.Name):
                v = world.static_lookup(mod, c.func.id)
                if isinstance(v, FuncV):
                    callers_of.setdefault(v.qual, []).append((mod, qual, node, c))
            elif isinstance(c, ast.Call) and isinstance(c.func, ast.Attribute) and isinstance(c.func.value, ast.Name):
                mv = world.static_lookup(mod, c.func.value.id)
                from ..terms import ModV
                if isinstance(mv, ModV):
                    v = world.static_lookup(world.mods[mv.name], c.func.attr)
                    if isinstance(v, FuncV):
                        callers_of.setdefault(v.qual, []).append((mod, qual, node, c))
    fast_ladders = set()      # functions through which the dedicated addition is reached: ladders that call it,
    #                           and wrappers that pass it to a higher-order ladder as its addition
    for (mod, qual, node) in world.functions():
        fq = mod.name + "." + qual
        f = gm.func_by_qual(world, fq)
        for c in ast.walk(node):
            if not isinstance(c, ast.Call):
                continue
            tgt = world.static_lookup(mod, c.func.id) if isinstance(c.func, ast.Name) else None
            if isinstance(tgt, FuncV) and tgt.qual in dedicated:
                isl = f is not None and gm.is_ladder_function(world, ev, f)
                if isl:
                    fast_ladders.add(fq)
                ctx.ob("P6-caller", "%s <- %s" % (tgt.qual, fq), isl,
                       "dedicated addition is called from a double-and-add ladder" if isl else
                       "dedicated (non-unified) addition is called outside a scalar-multiplication ladder: general points may be equal/opposite",
                       (mod.relpath, c.lineno, qual))
            for a in list(c.args) + [k.value for k in c.keywords]:
                av = world.static_lookup(mod, a.id) if isinstance(a, ast.Name) else None
                if isinstance(av, FuncV) and av.qual in dedicated:
                    isl = isinstance(tgt, FuncV) and gm.is_ladder_function(world, ev, tgt) and \
                        (a in c.args[2:] or any(k.value is a and k.arg in [x.arg for x in tgt.node.args.args[2:] + tgt.node.args.kwonlyargs]
                                                for k in c.keywords))
                    if isl:
                        fast_ladders.add(fq)
                    ctx.ob("P6-caller", "%s <- %s" % (av.qual, fq), isl,
                           "dedicated addition is passed as the addition of the double-and-add ladder %s" % (tgt.qual if isl else "") if isl else
                           "dedicated (non-unified) addition is handed to something that is not a scalar-multiplication ladder",
                           (mod.relpath, c.lineno, qual))
    # any other mention of the dedicated addition (stored, returned, aliased) escapes this analysis
    for dq in sorted(dedicated):
        dn = dq.rsplit(".", 1)[1]
        for (mod, qual, node) in world.functions():
            for c in ast.walk(node):
                if isinstance(c, ast.Name) and c.id == dn and isinstance(c.ctx, ast.Load) and isinstance(world.static_lookup(mod, c.id), FuncV):
                    par = getattr(c, "_parent", None)
                    if isinstance(par, ast.keyword):
                        par = getattr(par, "_parent", None)
                    if isinstance(par, ast.Call) and (par.func is c or c in par.args or c in [k.value for k in par.keywords]):
                        continue
                    ctx.ob("P6-caller", "%s <- %s.%s" % (dq, mod.name, qual), False,
                           "the dedicated addition is used as a value outside a call: its uses cannot be bounded", (mod.relpath, c.lineno, qual))

    def is_fast_call(rec):
        """a logged opaque call that reaches the dedicated addition: a ladder that calls it or a ladder it is passed to"""
        if rec[0] != "opaque-call":
            return False
        if rec[1].qual in fast_ladders and gm.is_ladder_function(world, ev, rec[1]):
            return True
        return gm.is_ladder_function(world, ev, rec[1]) and any(isinstance(a, FuncV) and a.qual in dedicated for a in rec[2][2:])
    L = None
    _, G = gm.group_classes(world, ev)
    oo = session.rets(ev.run_method(G, "order", [], st=world.static.fork()))
    if len(oo) == 1 and isinstance(oo[0].value, Const):
        L = oo[0].value.v
    ctx.require(L is not None, "anchor vanished: Ed25519 group order()")
    # who may call the fast ladder: only methods of the subgroup-element class; a private
    # (underscore) helper method may be called only as self.<helper>(...) from methods of that
    # class, which are then examined in its place.  Every public method in that closure is
    # evaluated on a subgroup element with symbolic arguments and every ladder call it makes
    # (in whichever helper) must multiply the receiver's own coordinates by a scalar in [1, L).
    attr_calls = {}
    for (mod, qual, node) in world.functions():
        for c in ast.walk(node):
            if isinstance(c, ast.Call) and isinstance(c.func, ast.Attribute):
                attr_calls.setdefault(c.func.attr, []).append((mod, qual, node, c))

    def owner_of(mod, node):
        parent = getattr(node, "_parent", None)
        return mod.env.get(parent.name) if isinstance(parent, ast.ClassDef) else None

    def is_private(name):
        return name.startswith("_") and not (name.startswith("__") and name.endswith("__"))
    for lq in sorted(fast_ladders):
        entry, work, done = {}, [], set()
        for (mod, qual, node, c) in callers_of.get(lq, []):
            fq = mod.name + "." + qual
            if fq == lq:
                continue       # the recursive call itself
            site = (mod.relpath, c.lineno, qual)
            owner = owner_of(mod, node)
            if not (isinstance(owner, ClassV) and owner is base_cls and node.args.args):
                ctx.ob("P6-site", "%s <- %s" % (lq, fq), False,
                       "the fast ladder (dedicated addition) is called outside the subgroup-element class %s: its point may have small order" % base_cls.name, site)
                continue
            work.append((mod, qual, node, site))
        while work:
            (mod, qual, node, site) = work.pop()
            if qual in done:
                continue
            done.add(qual)
            if not is_private(node.name):
                entry[qual] = (mod, node, site)
                continue
            users = attr_calls.get(node.name, [])
            for (m2, q2, n2, c2) in users:
                o2 = owner_of(m2, n2)
                onself = isinstance(c2.func.value, ast.Name) and n2.args.args and c2.func.value.id == n2.args.args[0].arg
                if not (isinstance(o2, ClassV) and o2 is base_cls and onself):
                    ctx.ob("P6-site", "%s <- %s <- %s.%s" % (lq, qual, m2.name, q2), False,
                           "the private fast-path helper %s is called from outside the methods of %s (or not on self): its scalar and point are unconstrained there"
                           % (qual, base_cls.name), (m2.relpath, c2.lineno, q2))
                    continue
                work.append((m2, q2, n2, (m2.relpath, c2.lineno, q2)))
            if not users:
                ctx.note("private helper %s (calls the fast ladder) has no caller" % qual)
        for qual, (mod, node, site) in sorted(entry.items()):
            fq = mod.name + "." + qual
            inst = "%s <- %s" % (lq, fq)
            # evaluate the method on a subgroup element and look at the ladder call's arguments
            e2 = Ev(world)
            e2.import_all()
            st = world.static.fork()
            recv = gm.ed_module_of(world, ev)[1]
            args = [Sym("s%d" % i if i else "s", "int") for i in range(len(node.args.args) - 1)]
            outs = e2.run_method(recv, node.name, args, st=st)
            seen = 0
            for o in outs:
                for rec in o.state.log:
                    if is_fast_call(rec):
                        seen += 1
                        pt, n = rec[2][0], rec[2][1]
                        okp = pt in o.state.heap[recv.oid].values()
                        conds = {(t, p) for (t, p, _) in o.state.pc}
                        if isinstance(n, Const):
                            okn = isinstance(n.v, int) and 1 <= n.v < L
                            why = "constant scalar %s in [1, L)" % show(n)
                        else:
                            red = is_app(n, "Mod") and n.args[1] == Const(L)
                            nz = (mk_app("Eq", (n, Const(0))), False) in conds or (mk_app("NotEq", (n, Const(0))), True) in conds
                            okn = red and nz
                            why = "scalar is reduced mod L and 0 is excluded" if okn else \
                                "scalar %s is not provably in [1, L) (reduced: %s, zero excluded: %s)" % (show(n, maxdepth=3), red, nz)
                        rsite = rec[3] if isinstance(rec[3], tuple) else site
                        ctx.ob("P6-site", inst + "#%d" % seen, okp and okn,
                               ("receiver's own coordinates; " + why) if okp and okn else
                               ("point argument is not the subgroup element's own coordinates; " if not okp else "") + why, rsite)
            if not seen:
                ctx.ob("P6-site", inst, False, "could not observe the ladder call while evaluating %s" % fq, site)
    if dedicated:
        ctx.ob("P6-exists", "fast ladder", bool(fast_ladders), "dedicated addition used by ladder(s): %s" % sorted(fast_ladders))

    # ---- P7: the element-level add uses the complete formula
    e2 = Ev(world)
    e2.import_all()
    recv = gm.ed_module_of(world, ev)[1]
    st = world.static.fork()
    other = e2.new_obj(base_cls, st)
    cfield = [k for k, v in st.heap[recv.oid].items() if isinstance(v, TupleV) and len(v.items) == 4]
    ctx.require(len(cfield) == 1, "anchor vanished: coordinate field of the Ed25519 element")
    st.heap[other.oid][cfield[0]] = TupleV([Sym("X2", "int"), Sym("Y2", "int"), Sym("Z2", "int"), Sym("T2", "int")])
    outs = e2.run_method(recv, "add", [other], st=st)
    used = set()
    for o in outs:
        for rec in o.state.log:
            if rec[0] == "opaque-call" and rec[1].qual in forms:
                used.add(rec[1].qual)
    ok = bool(used) and used <= complete
    ctx.ob("P7", "%s.add" % base_cls.name, ok,
           "element addition uses only the complete formula %s" % sorted(used) if ok else
           "element addition uses %s; only the complete formula %s is valid for arbitrary operands" % (sorted(used), sorted(complete)))


def thorough(ctx, world):
    """Independent re-derivation of the formula classification with sympy (tooling venv)."""
    import json
    import shutil
    import subprocess
    import os
    ev = session.new_ev(world)
    m, consts = gm.ed_consts(world, ev)
    qn, Q = gm.field_prime(world, ev)
    dn, d = gm.curve_d(world, ev)
    forms = gm.formula_functions(world, ev)
    vt = shutil.which("python3-vt")
    if not vt:
        ctx.note("thorough: python3-vt (sympy) not available; independent re-derivation skipped")
        return
    srcs = {}
    for qual in forms:
        f = gm.func_by_qual(world, qual)
        srcs[qual] = ast.get_source_segment(m.src.decode(), f.node)
    req = {"Q": str(Q), "d": str(d), "consts": {k: str(v) for k, v in consts.items()}, "functions": srcs}
    here = os.path.dirname(os.path.dirname(os.path.abspath(__file__)))
    p = subprocess.run([vt, os.path.join(here, "sympy_check.py")], input=json.dumps(req), stdout=subprocess.PIPE,
                       stderr=subprocess.PIPE, universal_newlines=True, timeout=900)
    if p.returncode != 0:
        ctx.note("thorough: sympy re-derivation failed to run: %s" % p.stderr.strip()[-200:])
        return
    res = json.loads(p.stdout)
    for qual, info in sorted(forms.items()):
        k1, k2 = info.get("kind"), res.get(qual, {}).get("kind")
        ctx.ob("P-sympy", qual, k1 == k2,
               "sympy (Groebner basis of the curve ideal, modulus Q) independently classifies the function as %s" % k2 if k1 == k2 else
               "sa/poly.py says %s, sympy says %s (%s)" % (k1, k2, res.get(qual)))
