"""C04 - the outbound message hides the password (DESIGN 4.4).

I1 non-interference: the start() message term mentions no identity and mentions the
password only inside group.password_to_scalar(pw) used as the coefficient of the
blinding element.  I2 form: message = enc(x*Base + w*Blind) with x *exactly* the value
of group.random_scalar(entropy_f) - the same x that serialize() persists.  I3: Blind is
a parameter element produced by group.arbitrary_element."""
from ..terms import Const, Sym, App, DictV, mk_app, is_app, show, subterms
from ..poly import Poly
from ..linform import Interp, Lin, P521, encoded_element
from .. import session



def check(ctx, world):
    ctx.explanation = (
        "Information-flow and form rules on the start() message term of each class (symbolic password, ids, group, entropy). "
        "I1: no identity symbol occurs in the term; the password occurs only as the argument of group.password_to_scalar, and "
        "that scalar occurs only as the coefficient of the blinding element. I2: in the linear-form domain (scalarmult -> "
        "coefficient, add -> +) the message is enc(1*x*Base + 1*w*Blind) where the coefficient of Base is exactly the atom "
        "group.random_scalar(entropy_f) - not reduced, masked, hashed or mixed with anything - and serialize() persists that same "
        "atom. I3: Base is group.Base and Blind is params.M / N / S = group.arbitrary_element(seed). With C13 (scalarmult is "
        "n-fold addition), C18 (Base has order q, Blind in the subgroup) x -> x*Base + c is a bijection from [0,q) onto the "
        "subgroup for every fixed c, which is the statement. I4 (C11's N2, N6, R1, R2, R4, R5 re-run): the sampler really ranges "
        "over all of [0,q) - random_scalar is unbiased_randrange(0, q, f) resp. be2int(f(64)) mod L - so no subgroup element is excluded.")
    ctx.min_obligations = 15
    ev = session.new_ev(world)
    for cname in session.PUBLIC_CLASSES:
        for cm in session.models(world, ev, cname):
            pf = cm.st_new.heap[cm.params.oid]
            G = pf["group"]
            pw = cm.syms["password"]
            ent = cm.syms["entropy_f"]
            ids = [v for k, v in cm.syms.items() if k.startswith("id")]
            ctx.require(cm.started, "%s.start() has no returning path" % cname)
            for s, sers in zip(cm.started, cm.serialize):
                side, out = session.outbound_of(cm, s)
                ctx.require(out is not None, "%s.start() message has no constant side prefix (C06 S1)" % cname)
                msg = s.value
                leak = [i.n for i in ids if i in subterms(msg)]
                ctx.ob("I1-ids", cname, not leak, "no identity string influences the message" if not leak else
                       "identity %s flows into the start() message" % leak, s.site)
                E = encoded_element(out)
                ctx.ob("I2-enc", cname, E is not None, "message = element.to_bytes()" if E is not None else
                       "outbound message is not the encoding of one element: %s" % show(out, maxdepth=4), s.site)
                if E is None:
                    continue
                ip = Interp()
                x = mk_app(".random_scalar", (G, ent))
                base = mk_app("getattr", (G, Const("Base")))
                nb, nx = ip.atom_e(base, "G"), ip.atom_s(x, "x")
                lf = ip.elem(E)
                # I2: coefficient of Base is exactly the sampled scalar; everything else is free of it
                cb = lf.t.get("G")
                ok = cb is not None and (cb - Poly.var(P521, "x")).is_zero()
                others = {k: v for k, v in lf.t.items() if k != "G"}
                ok2 = all("x" not in v.vars() for v in others.values()) and len(others) == 1
                ctx.ob("I2-form", cname, ok and ok2,
                       "message element = x*Base + c*Blind with x = group.random_scalar(entropy_f) exactly (coefficient 1, not reduced or mixed) and c free of x"
                       if ok and ok2 else "message element is %s: the coefficient of Base must be exactly the sampled scalar and there must be one blinding summand (atoms: %s)"
                       % (lf.show(ip.names()), {k: show(v, maxdepth=4) for k, v in ip.terms.items()}), s.site)
                # I1: the password occurs only inside the coefficient of the blinding element; the entropy only inside x
                scal_with_pw = [n for n, t in ip.terms.items() if n in ip.scal_atoms.values() and any(y == pw for y in subterms(t))]
                elem_with_pw = [n for n, t in ip.terms.items() if n in ip.elem_atoms.values() and any(y == pw for y in subterms(t))]
                pw_in_x = any(y == pw for y in subterms(x))
                blind_names = list(others)
                okpw = not elem_with_pw and not pw_in_x and "x" not in scal_with_pw and \
                    all(n in {v for c in others.values() for v in c.vars()} for n in scal_with_pw)
                ctx.ob("I1-pw", cname, okpw, "the password influences the message only through the coefficient of the blinding element" if okpw else
                       "the password also reaches %s" % (elem_with_pw + (["the secret scalar"] if pw_in_x else []) + scal_with_pw), s.site)
                blind = ip.terms.get(blind_names[0]) if len(blind_names) == 1 else None
                okb = blind is not None and blind in pf.values() and is_app(blind, ".arbitrary_element") and blind.args[0] == G
                ctx.ob("I3", cname, okb, "blinding element is a parameter element = group.arbitrary_element(%s)" % show(blind.args[1]) if okb else
                       "blinding element is %s, not one of the parameter set's arbitrary elements" % (show(blind, maxdepth=3) if blind is not None else None), s.site)
                # the persisted scalar is the same x
                for so in session.rets(sers):
                    dd = [t for t in subterms(so.value) if isinstance(t, DictV)]
                    persisted = [v for d in dd for v in d.items.values() if any(t == x for t in subterms(v))]
                    ok = len(persisted) == 1 and persisted[0] == mk_app("hexs", (mk_app(".scalar_to_bytes", (G, x)),))
                    ctx.ob("I2-persisted", cname, ok, "serialize() persists exactly the scalar used in the message" if ok else
                           "serialize() does not persist the sampled scalar as hexlify(scalar_to_bytes(x))", so.site)

    # I4: "as the secret scalar ranges over [0,q)": the sampler's range is all of [0,q) in both groups
    from .common import include
    include(ctx, world, "c11", "I4", keep=lambda o: o.rule in ("N2", "N6", "R1", "R1-exact", "R2", "R5", "R4"))
