"""C18 - shipped parameter sets are sound prime-order groups as published (DESIGN 4.18).

Constant validation: the literals are read from the abstract import of the package
(whatever way they are written), folded, and validated by the checker's own number
theory; M/N/S are recomputed by the checker's reference model from the extracted
constants and compared with the frozen released values."""
import json
import math
import os

from ..terms import Const, Obj, App, TupleV, ClassV, FuncV, show
from ..loader import AnalysisError
from ..numth import is_probable_prime, legendre, Edwards
from ..report import VERIF
from .. import session, groupmodel as gm, refmodel as rm


def spec():
    return json.load(open(os.path.join(VERIF, "spec", "constants.json")))


def int_consts(world, g):
    f = world.static.heap[g.oid]
    p, q = f.get("p"), f.get("q")
    base = f.get("Base")
    if not (isinstance(p, Const) and isinstance(q, Const) and isinstance(base, Obj)):
        raise AnalysisError("anchor vanished: integer group constants p/q/Base do not fold to constants")
    gv = [v for v in world.static.heap[base.oid].values() if isinstance(v, Const) and isinstance(v.v, int)]
    if len(gv) != 1:
        raise AnalysisError("anchor vanished: generator residue of Base does not fold to a constant")
    return p.v, q.v, gv[0].v


def check(ctx, world, rounds=16):
    ctx.explanation = (
        "Constant validation (a lint over the constant table, no library code run). p, q, g of the three integer "
        "sets are the folded values held by the abstract-import objects; obligations: p and q probable primes "
        "(Baillie-PSW + %d Miller-Rabin bases), q | p-1, 1 < g < p, g^q = 1, g != 1 (order exactly q), values equal "
        "the released ones (spec/constants.json), the constructor keeps its pow(g,q,p) == 1 assertion. Ed25519: "
        "Q = 2^255-19 prime, L prime, d = -121665/121666, base point = (even root, 4/5) = RFC 8032, on the curve, "
        "L*B = identity, #E = 8L because L | #E and 8L is the only multiple of L in the Hasse interval. M, N, S of each "
        "set are recomputed by the checker's reference model (own HKDF-SHA256, modular exponentiation, affine Edwards "
        "arithmetic) from the extracted constants and the seeds the code passes: pairwise distinct, not the identity, "
        "not the generator, in the subgroup, equal to the released encodings. Default parameter set resolves to the "
        "Ed25519 object at every params= default; parameters/all.py re-exports the four sets." % rounds)
    ctx.min_obligations = 60
    ev = session.new_ev(world)
    sp = gm.shipped_params(world, ev)
    S = spec()
    # ---------------- integer sets
    for label in ("1024", "2048", "3072"):
        params, g = sp[label]
        p, q, gv = int_consts(world, g)
        ref = S["integer"][label]
        site = (g.cls.mod.relpath, 0, "I" + label)
        ctx.ob("N-prime", "%s p" % label, is_probable_prime(p, rounds), "p (%d bits) is a probable prime" % p.bit_length(), site)
        ctx.ob("N-prime", "%s q" % label, is_probable_prime(q, rounds), "q (%d bits) is a probable prime" % q.bit_length(), site)
        ctx.ob("N-divides", "%s q | p-1" % label, (p - 1) % q == 0, "q divides p-1", site)
        ctx.ob("N-generator", "%s 1<g<p" % label, 1 < gv < p, "generator is a residue in (1, p)", site)
        ctx.ob("N-generator", "%s g^q" % label, pow(gv, q, p) == 1 and gv != 1, "g^q = 1 and g != 1: order exactly q (q prime)", site)
        for nm, val in (("p", p), ("q", q), ("g", gv)):
            ok = val == int(ref[nm], 16)
            ctx.ob("N-released", "%s %s" % (label, nm), ok, "%s equals the released constant" % nm if ok else
                   "%s differs from the released constant (%d-bit value %s...)" % (nm, val.bit_length(), hex(val)[:14]), site)
        mns(ctx, world, ev, label, params, g, ref, ("int", p, q, gv))
    # constructor assertion kept
    st, gsym, syms = gm.symbolic_int_group(world, ev)
    from ..terms import mk_app
    want = mk_app("Eq", (mk_app("pow", (syms["g"], syms["q"], syms["p"])), Const(1)))
    pcs = getattr(st, "all_ctor_pcs", None) or [getattr(st, "ctor_pc", [])]
    from .c05 import has_eq
    okp = [has_eq({(t, pol) for (t, pol, _) in pc}, want.args[0], want.args[1]) for pc in pcs]
    ok = all(okp)
    ctx.ob("N-ctor-assert", gsym.cls.name + ".__init__", ok,
           "every path through the constructor requires g^q = 1 (only generators whose order divides q are accepted)" if ok else
           "%d of %d paths through the constructor accept the generator without establishing pow(g, q, p) == 1%s"
           % (okp.count(False), len(okp), " (a path depends on shared state left by earlier calls)" if len(okp) > 1 else ""),
           (gsym.cls.mod.relpath, gsym.cls.node.lineno, gsym.cls.name))
    # ---------------- Ed25519
    params, G = sp["Ed25519"]
    m, consts = gm.ed_consts(world, ev)
    qn, Q = gm.field_prime(world, ev)
    dn, d = gm.curve_d(world, ev)
    oo = session.rets(ev.run_method(G, "order", [], st=world.static.fork()))
    ctx.require(len(oo) == 1 and isinstance(oo[0].value, Const), "anchor vanished: Ed25519 group order()")
    L = oo[0].value.v
    ref = S["ed25519"]
    site = (m.relpath, 0, "constants")
    ctx.ob("E-field", "Q", Q == int(ref["Q"], 16) and is_probable_prime(Q, rounds), "Q = 2^255-19 and prime", site)
    ctx.ob("E-order", "L", L == int(ref["L"], 16) and is_probable_prime(L, rounds), "L = 2^252 + 27742...8493 and prime" if L == int(ref["L"], 16) else
           "group order constant differs from the released L", site)
    ctx.ob("E-d", "d", d is not None and d == int(ref["d"], 16), "d = -121665/121666 mod Q", site)
    ctx.ob("E-d", "legendre", d is not None and legendre(d, Q) == -1 and legendre(-1, Q) == 1, "d non-square, -1 square (complete addition law)", site)
    base = world.static.heap[G.oid].get("Base")
    zero = world.static.heap[G.oid].get("Zero")
    ctx.require(isinstance(base, Obj) and isinstance(zero, Obj), "anchor vanished: Ed25519 Base/Zero")
    bc = [v for v in world.static.heap[base.oid].values() if isinstance(v, TupleV) and len(v.items) == 4]
    ctx.require(len(bc) == 1 and all(isinstance(i, Const) for i in bc[0].items), "Ed25519 Base coordinates do not fold to constants")
    X, Y, Z, T = (i.v for i in bc[0].items)
    E = Edwards(Q, d if d is not None else 0)
    zi = pow(Z, Q - 2, Q)
    bx, by = X * zi % Q, Y * zi % Q
    ctx.ob("E-base", "RFC8032 y", by == int(ref["By"], 16) and by * 5 % Q == 4, "By = 4/5", site)
    ctx.ob("E-base", "RFC8032 x", bx == int(ref["Bx"], 16) and bx % 2 == 0, "Bx = the even square root: RFC 8032 base point", site)
    ctx.ob("E-base", "T", T % Q == X * Y * zi % Q, "extended coordinate T = XY/Z", site)
    ctx.ob("E-base", "on curve", E.on_curve((bx, by)), "base point on the curve", site)
    ctx.ob("E-base", "order", E.mul((bx, by), L) == (0, 1) and (bx, by) != (0, 1), "L*B = identity, B != identity: order exactly L", site)
    lo, hi = Q + 1 - 2 * math.isqrt(Q) - 2, Q + 1 + 2 * math.isqrt(Q) + 2
    mult = [k for k in range(lo // L, hi // L + 2) if lo <= k * L <= hi]
    ctx.ob("E-cardinality", "#E = 8L", mult == [8] and hi - lo < L,
           "L | #E (B has order L), Hasse interval has length %d bits < L, its only multiple of L is 8L" % (hi - lo).bit_length(), site)
    zc = [v for v in world.static.heap[zero.oid].values() if isinstance(v, TupleV) and len(v.items) == 4]
    okz = len(zc) == 1 and all(isinstance(i, Const) for i in zc[0].items) and zc[0].items[0].v % Q == 0 \
        and zc[0].items[1].v % Q == zc[0].items[2].v % Q != 0
    ctx.ob("E-zero", "Zero", okz, "Zero is the neutral point (0, 1)", site)
    mns(ctx, world, ev, "Ed25519", params, G, ref, ("ed", Q, d, L, (bx, by)))
    # ---------------- defaults
    spm = world.module("spake2.spake2")
    dflt = ev.module_global(spm, "DefaultParams", None)
    ok = dflt == sp["Ed25519"][0]
    ctx.ob("D-default", "DefaultParams", ok, "DefaultParams is the Ed25519 parameter object" if ok else
           "DefaultParams resolves to %r, not to ParamsEd25519" % (dflt,), (spm.relpath, 0, "DefaultParams"))
    nd = 0
    for cname in session.PUBLIC_CLASSES:
        cls = session.public_class(world, ev, cname)
        for meth in ("__init__", "from_serialized"):
            r = cls.lookup(meth)
            ctx.require(r is not None and r[0] == "func", "anchor vanished: %s.%s" % (cname, meth))
            a = r[1].args
            names = [x.arg for x in a.args]
            if "params" not in names:
                ctx.ob("D-default", "%s.%s" % (cname, meth), False, "no params parameter", (r[2].mod.relpath, r[1].lineno, meth))
                continue
            i = names.index("params") - (len(names) - len(a.defaults))
            if i < 0:
                ctx.ob("D-default", "%s.%s" % (cname, meth), False, "params has no default", (r[2].mod.relpath, r[1].lineno, meth))
                continue
            vals = ev.expr(a.defaults[i], {"locals": {}, "mod": r[2].mod, "closure": None, "fname": meth}, world.static.fork())
            ok = len(vals) == 1 and vals[0][1] == sp["Ed25519"][0]
            nd += 1
            ctx.ob("D-default", "%s.%s params=" % (cname, meth), ok, "default parameter set is Ed25519" if ok else
                   "default of params= is not the Ed25519 parameter set", (r[2].mod.relpath, r[1].lineno, r[2].name + "." + meth))
    allm = world.module("spake2.parameters.all")
    for label, modname, name in gm.PARAM_MODULES:
        v = ev.module_global(allm, name, None)
        ok = v == sp[label][0]
        ctx.ob("D-all", "parameters.all.%s" % name, ok, "re-exported" if ok else "parameters/all.py does not export %s" % name, (allm.relpath, 0, name))


def mns(ctx, world, ev, label, params, g, ref, kind):
    """M, N, S: seeds from the code, values from the reference model."""
    f = world.static.heap[params.oid]
    site = (params.cls.mod.relpath, 0, "Params" + label)
    vals = {}
    for nm, dflt in (("M", b"M"), ("N", b"N"), ("S", b"symmetric")):
        v = f.get(nm)
        seed = None
        if kind[0] == "int":
            ctx.require(isinstance(v, Obj), "anchor vanished: Params%s.%s is not an element object" % (label, nm))
            terms = [t for t in world.static.heap[v.oid].values() if isinstance(t, App)]
            ctx.require(len(terms) == 1, "Params%s.%s residue is not a single term" % (label, nm))
            calls = rm.hkdf_calls(terms[0])
            ctx.require(len(calls) == 1 and isinstance(calls[0][1], Const), "Params%s.%s is not derived from one HKDF call on a constant seed" % (label, nm))
            seed = calls[0][1].v
            _, p, q, gv = kind
            try:
                code_val = rm.eval_closed(terms[0])       # what the code's own term computes
            except AnalysisError as e:
                code_val = None
                ctx.note("Params%s.%s: %s" % (label, nm, e))
            val = rm.ref_int_arbitrary(p, q, seed)        # the published construction on that seed
            enc = val.to_bytes(rm.size_bytes(p), "big").hex()
            ok = code_val == val
            ctx.ob("MNS-construction", "%s %s" % (label, nm), ok,
                   "the term the code evaluates equals the published construction HKDF(seed) mod p ^ ((p-1)/q)" if ok else
                   "the code's derivation term does not compute the published construction for seed %r" % seed, site)
            member = pow(val, q, p) == 1
            ident, gen = val == 1, val == gv
        else:
            ctx.require(isinstance(v, App) and v.f.startswith("fn:") and len(v.args) == 1 and isinstance(v.args[0], Const),
                        "ParamsEd25519.%s is not arbitrary_element(<constant seed>)" % nm)
            seed = v.args[0].v
            _, Q, d, L, B = kind
            pt = rm.ref_ed_arbitrary(seed, Q, d, L)
            E = Edwards(Q, d)
            enc = E.encode(pt).hex()
            val = pt
            member = E.mul(pt, L) == (0, 1) and E.on_curve(pt)
            ident, gen = pt == (0, 1), pt == B
        vals[nm] = val
        ok = seed == dflt
        ctx.ob("MNS-seed", "%s %s" % (label, nm), ok, "seed %r" % dflt if ok else "seed is %r, released seed is %r" % (seed, dflt), site)
        ctx.ob("MNS-subgroup", "%s %s" % (label, nm), member and not ident and not gen,
               "in the prime-order subgroup, not the identity, not the generator" if member and not ident and not gen else
               "member=%s identity=%s generator=%s" % (member, ident, gen), site)
        ok = enc == ref[nm]
        ctx.ob("MNS-released", "%s %s" % (label, nm), ok, "equals the released constant (sha256 %s...)" % __import__("hashlib").sha256(bytes.fromhex(enc)).hexdigest()[:12]
               if ok else "differs from the released %s of this parameter set" % nm, site)
    ok = len({repr(v) for v in vals.values()}) == 3
    ctx.ob("MNS-distinct", label, ok, "M, N, S pairwise distinct" if ok else "M, N, S are not pairwise distinct", site)


def thorough(ctx, world):
    """64 Miller-Rabin rounds incl. seeded random bases."""
    seed = int(os.environ.get("VERIF_SEED", "0") or 0)
    ev = session.new_ev(world)
    sp = gm.shipped_params(world, ev)
    for label in ("1024", "2048", "3072"):
        p, q, gv = int_consts(world, sp[label][1])
        ctx.ob("N-prime-64", "%s p" % label, is_probable_prime(p, 64, seed), "p passes BPSW + 64 Miller-Rabin rounds")
        ctx.ob("N-prime-64", "%s q" % label, is_probable_prime(q, 64, seed), "q passes BPSW + 64 Miller-Rabin rounds")
    qn, Q = gm.field_prime(world, ev)
    ctx.ob("N-prime-64", "Q", is_probable_prime(Q, 64, seed), "Q passes BPSW + 64 rounds")
