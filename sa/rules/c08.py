"""C08 - persist/restore is transparent at every point between start and finish (DESIGN 4.8).

Writer/reader composition on terms: the reader is evaluated on the writer's output
term; after normalisation (hex/ASCII/JSON inverses of the rewrite table; the scalar
codec inverse of the group interface) every field of the restored object equals the
field of the original."""
from ..terms import Const, Sym, App, Obj, DictV, FuncV, mk_app, is_app, show, subterms, ty_of
from ..evalr import exc_name
from .. import session
from ..session import norm_codec


def serialize_purity(ctx, cname, cm, s, outs):
    base = len(s.state.log)
    for o in outs:
        log = o.state.log[base:]
        st = [r for r in log if r[0] in ("store", "foreign-store", "sub-store", "global-store")]
        ctx.ob("Z7-pure", cname + ".serialize", not st, "serialize() performs no store" if not st else
               "serialize() writes %s" % sorted({str(r[2]) for r in st}), (st[0][-1] if st and isinstance(st[0][-1], tuple) else o.site))
        ent = [r for r in log if (r[0] == "call-unknown" and isinstance(r[1], Sym) and r[1].n.startswith("entropy_f"))
               or (r[0] == "method-call" and r[2] == "random_scalar")]
        ctx.ob("Z7-entropy", cname + ".serialize", not ent, "serialize() draws no entropy" if not ent else
               "serialize() calls the entropy function", (ent[0][-1] if ent else o.site))
    rets = session.rets(outs)
    ok = len(rets) == 1 and len(outs) == 1
    ctx.ob("Z7-total", cname + ".serialize", ok, "exactly one (returning) path on a started instance" if ok else
           "serialize() has %d paths on a started instance" % len(outs))
    for o in rets:
        v = o.value
        okf = is_app(v, ".encode") and is_app(v.args[0], "json.dumps") and not v.args[0].kw and len(v.args[0].args) == 1 \
            and isinstance(v.args[0].args[0], DictV) and isinstance(v.args[1], Const) and str(v.args[1].v).lower() == "ascii"
        oks = okf and all(isinstance(k, str) for k in v.args[0].args[0].items) and all(ty_of(x) == "str" for x in v.args[0].args[0].items.values())
        ctx.ob("Z7-ascii-json", cname + ".serialize", okf and oks,
               "output is json.dumps(dict of str -> hex/ASCII str) with default ensure_ascii, encoded as ASCII: printable-ASCII JSON" if okf and oks else
               "output is not json.dumps({str: str}).encode('ascii') with default options: %s" % show(v, maxdepth=4), o.site)
    # same data each time: second evaluation from the same state gives the same term
    return rets


def compare_fields(ctx, cname, cm, orig_state, ro, label):
    orig = orig_state.heap[cm.obj.oid]
    rest = ro.state.heap[ro.value.oid]
    n = 0
    for k, v in sorted(orig.items()):
        ov = norm_codec(v)
        inst = "%s %s.%s" % (cname, label, k)
        if k not in rest:
            ctx.ob("Z3", inst, False, "field %s of the original is missing on the restored instance" % k, ro.site)
            continue
        rv = norm_codec(rest[k])
        if isinstance(v, Sym) and v.n.startswith("entropy_f"):
            # N4: the restored instance must not be able to draw entropy
            ok = isinstance(rv, FuncV) and _always_raises(rv)
            ctx.ob("Z3-entropy-stub", inst, ok, "restored instance carries an entropy stub that raises" if ok else
                   "restored instance's entropy function is %s (must not be usable)" % show(rv, maxdepth=3), ro.site)
            continue
        if isinstance(ov, Obj) and isinstance(rv, Obj):
            ok = ov == rv
        else:
            ok = ov == rv
        n += 1
        ctx.ob("Z3", inst, ok, "restored == original (%s)" % show(ov, maxdepth=3) if ok else
               "restored field %s = %s differs from the original %s" % (k, show(rv, maxdepth=5), show(ov, maxdepth=5)), ro.site)
    return n


def _always_raises(f):
    import ast
    body = [st for st in (f.node.body if isinstance(f.node.body, list) else []) if not (isinstance(st, ast.Expr) and isinstance(st.value, ast.Constant))]
    return len(body) >= 1 and isinstance(body[0], ast.Raise)


def finish_signature(ev, obj, st, msg, base_pc):
    outs = ev.run_method(obj, "finish", [msg], st=st.fork())
    sig = []
    for o in outs:
        conds = tuple(sorted((show(norm_codec(t), maxdepth=40), p) for (t, p, _) in o.state.pc[base_pc:]))
        val = show(norm_codec(o.value), maxdepth=40) if o.kind == "return" else o.exc
        sig.append((o.kind, val, conds))
    return sorted(sig), outs


def check(ctx, world):
    ctx.explanation = (
        "For each public class the writer serialize() is evaluated on the started instance (symbolic password, ids, "
        "group, scalar) and the reader from_serialized() on the writer's output *term*. The rewrite table folds "
        "json.loads(json.dumps(D).encode(a).decode(a)) -> D for str->str dicts, unhexlify(hexlify(x)) -> x and "
        "x.decode(a).encode(a) -> x; the group-interface inverse bytes_to_scalar(scalar_to_bytes(x)) -> x is C15's. "
        "Z3: every field of the restored object equals the original's (password, password scalar, identities, params, "
        "scalar, element, outbound message, start flag True, finish flag False); the entropy function is replaced by a stub "
        "that raises. Z4: finish(msg) on the restored instance has the same paths - same conditions, same exception "
        "classes, same key term - as on the original (error transparency incl. reflection). Z-cycle: serialize() of the "
        "restored instance equals serialize() of the original, so any number of cycles composes to the identity. "
        "Z7: serialize() performs no store, draws no entropy, has one path, and returns json.dumps({str: str}).encode('ascii').")
    ctx.min_obligations = 45
    ev = session.new_ev(world)
    for cname in session.PUBLIC_CLASSES:
        for cm in session.models(world, ev, cname):
            ctx.require(cm.started, "%s.start() has no returning path" % cname)
            for s, sers in zip(cm.started, cm.serialize):
                rets = serialize_purity(ctx, cname, cm, s, sers)
                for so in rets:
                    again = session.rets(ev.run_method(cm.obj, "serialize", [], st=so.state.fork()))
                    ok = len(again) == 1 and again[0].value == so.value
                    ctx.ob("Z7-idempotent", cname + ".serialize", ok, "a second serialize() returns the same data" if ok else
                           "a second serialize() returns different data")
                    routs = session.restore(world, ev, cm.cls, so.value, so.state.fork(), cm.params)
                    rrets = session.rets(routs)
                    ok = len(rrets) == 1 and len(routs) == 1
                    ctx.ob("Z3-total", cname + ".from_serialized(serialize())", ok,
                           "restoring one's own state has exactly one path and it returns" if ok else
                           "restoring one's own state: outcomes %s" % [(o.kind, o.exc) for o in routs],
                           (routs[0].site if routs else None))
                    for ro in rrets:
                        if not isinstance(ro.value, Obj) or ro.value.cls is not cm.cls:
                            ctx.ob("Z3-class", cname, False, "from_serialized returns %s, not an instance of %s" % (show(ro.value), cname))
                            continue
                        compare_fields(ctx, cname, cm, s.state, ro, "restored")
                        # Z4 error transparency
                        base = len(s.state.pc)
                        sig_o, outs_o = finish_signature(ev, cm.obj, s.state, cm.msg, base)
                        sig_r, outs_r = finish_signature(ev, ro.value, ro.state, cm.msg, len(ro.state.pc))
                        ok = sig_o == sig_r
                        ctx.ob("Z4", cname + ".finish original vs restored", ok,
                               "finish(msg) has identical paths (conditions, exception classes, key term) on both: %d paths" % len(sig_o) if ok else
                               "finish(msg) behaves differently on the restored instance: original %s / restored %s"
                               % ([(k, v[:60]) for k, v, _ in sig_o], [(k, v[:60]) for k, v, _ in sig_r]))
                        # Z-cycle
                        ser2 = session.rets(ev.run_method(ro.value, "serialize", [], st=ro.state.fork()))
                        ok = len(ser2) == 1 and norm_codec(ser2[0].value) == norm_codec(so.value)
                        ctx.ob("Z-cycle", cname, ok, "serialize(restored) == serialize(original): cycles compose to the identity" if ok else
                               "re-serialising the restored instance gives different data: %s vs %s"
                               % (show(norm_codec(ser2[0].value), maxdepth=6) if ser2 else None, show(norm_codec(so.value), maxdepth=6)))

    # Z3-codec: the inverse bytes_to_scalar(scalar_to_bytes(x)) == x used above is C15's K2/K4
    # (encoder, decoder, decoder accepts every encoder output), re-run here for both groups
    from .common import include
    include(ctx, world, "c15", "Z3-codec", keep=lambda o: o.rule.startswith("K2") or o.rule.startswith("K4"))
