"""C11 - secret scalars are sampled without bias and only from the entropy function (DESIGN 4.11)."""
import ast

from ..terms import Const, Sym, App, TupleV, Obj, FuncV, mk_app, is_app, show, subterms
from ..evalr import Ev, Policy
from ..loader import AnalysisError
from .. import session, groupmodel as gm, refmodel
from .c05 import conds_of
from .c15 import width_forms


def entropy_uses(log, mark=0):
    uses = []
    for rec in log[mark:]:
        if rec[0] == "method-call" and rec[2] == "random_scalar":
            uses.append(("random_scalar", rec[3], rec[4]))
        elif rec[0] == "call-unknown" and isinstance(rec[1], Sym) and rec[1].n.startswith("entropy_f"):
            uses.append(("direct-call", rec[2], rec[3]))
        elif rec[0] in ("method-call", "ext-call", "opaque-call", "call-unknown"):
            args = rec[3] if rec[0] == "method-call" else rec[2]
            for a in args if isinstance(args, tuple) else ():
                if isinstance(a, Sym) and a.n.startswith("entropy_f"):
                    uses.append(("passed-to:" + str(rec[2] if rec[0] == "method-call" else rec[1]), args, rec[-1]))
    return uses


def who_may_call(ctx, world, ev):
    for cname in session.PUBLIC_CLASSES:
        for cm in session.models(world, ev, cname):
            ent = cm.syms["entropy_f"]
            # constructor
            for o in cm.ctor:
                u = entropy_uses(o.state.log, len(world.static.log))
                ctx.ob("N1", "%s.__init__" % cname, not u, "construction draws no entropy" if not u else
                       "the constructor uses the entropy function: %s" % [x[0] for x in u], (u[0][2] if u else None))
            base = len(cm.st_new.log)
            for o in cm.start:
                u = entropy_uses(o.state.log, base)
                good = [x for x in u if x[0] == "random_scalar" and x[1] == (ent,)]
                ok = len(u) == 1 and len(good) == 1 if o.kind == "return" else len(u) <= 1 and len(good) == len(u)
                ctx.ob("N1", "%s.start" % cname, ok,
                       "start() hands the instance's entropy function to group.random_scalar exactly once and uses it nowhere else" if ok else
                       "start() uses the entropy function %d time(s): %s" % (len(u), [(x[0], show(mk_app("tuple", x[1]), maxdepth=3)) for x in u]),
                       (u[0][2] if u else o.site))
            for s, fouts, souts in zip(cm.started, cm.finish, cm.serialize):
                b2 = len(s.state.log)
                for name, outs in (("finish", fouts), ("serialize", souts)):
                    bad = []
                    for o in outs:
                        bad += entropy_uses(o.state.log, b2)
                    ctx.ob("N1", "%s.%s" % (cname, name), not bad, "%s() draws no entropy" % name if not bad else
                           "%s() uses the entropy function: %s" % (name, sorted({x[0] for x in bad})), (bad[0][2] if bad else None))
                for so in session.rets(souts):
                    b3 = len(so.state.log)
                    routs = session.restore(world, ev, cm.cls, so.value, so.state.fork(), cm.params)
                    bad = []
                    for o in routs:
                        bad += entropy_uses(o.state.log, b3)
                    ctx.ob("N1", "%s.from_serialized" % cname, not bad, "from_serialized() draws no entropy" if not bad else
                           "from_serialized() uses an entropy function", (bad[0][2] if bad else None))
                    for o in session.rets(routs):
                        if isinstance(o.value, Obj):
                            stubs = [v for k, v in o.state.heap[o.value.oid].items() if k in cm.fields_new and cm.fields_new[k] == ent]
                            ok = len(stubs) == 1 and isinstance(stubs[0], FuncV) and _raises_only(stubs[0])
                            ctx.ob("N4", "%s restored entropy" % cname, ok, "restored instance holds an entropy stub that raises" if ok else
                                   "restored instance's entropy function is %s" % [show(v, maxdepth=2) for v in stubs])


def _raises_only(f):
    body = [st for st in (f.node.body if isinstance(f.node.body, list) else [])
            if not (isinstance(st, ast.Expr) and isinstance(st.value, ast.Constant))]
    return bool(body) and isinstance(body[0], ast.Raise)


def ambient(ctx, world, ev):
    """N3: ambient randomness only as os.urandom defaults of entropy parameters."""
    from .c16 import Analyzer, session_class_set
    an = Analyzer(world, session_class_set(world, ev))
    an.ext_refs()
    an.entropy_defaults()
    bad = [f for f in an.findings if f[0] == "W5" and ("random" in f[2] or "secrets" in f[2] or "time" in f[2] or "uuid" in f[2] or "urandom" in f[2])]
    for (rule, inst, detail, site) in bad:
        ctx.ob("N3", inst, False, detail, site)
    n = 0
    for (mod, qual, node) in world.functions():
        for d in node.args.defaults + [x for x in node.args.kw_defaults if x is not None]:
            if isinstance(d, ast.Attribute) and isinstance(d.value, ast.Name) and d.value.id == "os" and d.attr == "urandom":
                n += 1
    ctx.ob("N3", "ambient randomness", not bad, "os.urandom appears only as the default of %d entropy parameters; no random/secrets/time/uuid" % n)


def rejection_sampling(ctx, world, ev):
    ut = world.module("spake2.util")
    f = ev.module_global(ut, "unbiased_randrange", None)
    ctx.require(isinstance(f, FuncV), "anchor vanished: util.unbiased_randrange")
    site = (ut.relpath, f.node.lineno, "unbiased_randrange")
    loops = [n for n in ast.walk(f.node) if isinstance(n, (ast.While, ast.For))]
    if len(loops) == 0 and any(isinstance(n, ast.Call) and isinstance(n.func, ast.Name) and n.func.id == "next" for n in ast.walk(f.node)):
        ctx.require(False, "unbiased_randrange has no loop of its own: the retry loop is hidden in a lazily consumed generator "
                    "(next(...) over a candidate stream), which is outside the analysable subset - no verdict")
    def unbounded(lp):
        if isinstance(lp, ast.While):
            return isinstance(lp.test, ast.Constant) and lp.test.value in (True, 1)
        it = lp.iter                                   # for _ in itertools.count(...): never exhausted
        if isinstance(it, ast.Call) and not lp.orelse:
            d = it.func
            v = world.static_lookup(ut, d.value.id) if isinstance(d, ast.Attribute) and isinstance(d.value, ast.Name) else \
                world.static_lookup(ut, d.id) if isinstance(d, ast.Name) else None
            from ..terms import ExtV
            name = (v.name + "." + d.attr) if isinstance(d, ast.Attribute) and isinstance(v, ExtV) else (v.name if isinstance(v, ExtV) else None)
            return name == "itertools.count"
        return False
    # (how the loop is left - return, or break followed by a return - does not matter here: R1 requires the
    # acceptance condition on every returning path, so an exit for any other reason is reported there)
    ctx.ob("R0", "loop shape", len(loops) == 1 and unbounded(loops[0]),
           "one unbounded loop (`while True:` / `for _ in itertools.count()`)" if len(loops) == 1 else
           "unbiased_randrange has %d loops" % len(loops), site)
    if len(loops) != 1:
        return
    loop = loops[0]
    # loop-carried state: a name assigned in the body must not be read in the body before its assignment
    assigned, carried = set(), []
    comp_vars = {x.id for st in loop.body for c in ast.walk(st) if isinstance(c, ast.comprehension)
                 for x in ast.walk(c.target) if isinstance(x, ast.Name)}
    for st in loop.body:
        for n in ast.walk(st):
            if isinstance(n, ast.Name) and isinstance(n.ctx, ast.Load) and n.id not in assigned and n.id not in comp_vars:
                if any(isinstance(m, ast.Name) and isinstance(m.ctx, ast.Store) and m.id == n.id for s2 in loop.body for m in ast.walk(s2)):
                    carried.append(n.id)
        for n in ast.walk(st):
            if isinstance(n, ast.Name) and isinstance(n.ctx, ast.Store):
                assigned.add(n.id)
    ctx.ob("R3-fresh", "iterations independent", not carried, "no loop-carried variable: each iteration is a function of a fresh draw" if not carried else
           "loop-carried variable(s) %s: iterations are not independent" % sorted(set(carried)), site)
    e2 = Ev(world, loop_mode="once")
    e2.import_all()
    e2.policy.force_inline.add(f.qual)
    start, stop, ent = Sym("start", "int"), Sym("stop", "int"), Sym("entropy_f")
    outs = e2.run(f, [start, stop, ent], [], world.static.fork())
    rets = session.rets(outs)
    ctx.total(rets, outs, "R-total", "unbiased_randrange has no returning path")
    maxval = mk_app("Sub", (stop, start))
    bits = mk_app("Or", (App("bit_length", (maxval,)), Const(1)))
    nbytes_forms = width_forms(maxval)
    leftover = mk_app("Mod", (bits, Const(8)))
    lo, hi = loop.lineno, max(getattr(n, "lineno", loop.lineno) for n in ast.walk(loop))
    covered = set()
    for o in rets:
        conds = conds_of(o)
        v = o.value
        # R2: start + candidate
        cand = None
        if is_app(v, "Add") and start in v.args:
            cand = v.args[0] if v.args[1] == start else v.args[1]
        ok = cand is not None
        ctx.ob("R2", "return value", ok, "returns start + candidate (no modulo, no scaling)" if ok else
               "returned value is not start + candidate: %s" % show(v, maxdepth=5), site)
        if cand is None:
            continue
        # R1: accepted only under candidate < stop - start (strict, same bound)
        ok = (mk_app("Lt", (cand, maxval)), True) in conds or (mk_app("GtE", (cand, maxval)), False) in conds \
            or (mk_app("Gt", (maxval, cand)), True) in conds or (mk_app("LtE", (maxval, cand)), False) in conds
        ctx.ob("R1", "acceptance test", ok, "candidate returned only if candidate < stop - start (strict)" if ok else
               "acceptance condition is not 'candidate < stop - start': %s" % sorted(show(t, maxdepth=3) + "=" + str(p) for t, p in conds if cand in subterms(t)), site)
        # R1-exact: the only conditions an accepted iteration depends on are the acceptance test and
        # the length assertion of the draw: any other condition on the drawn bytes discards some
        # draws and biases (or excludes) values
        enter = [i for i, r in enumerate(o.state.log) if r[0] == "loop-enter"]
        extra = []
        for (t, p, site_) in o.state.pc:
            if not any(is_app(x, "call") and x.args and x.args[0] == ent for x in subterms(t)):
                continue
            if t in (mk_app("Lt", (cand, maxval)), mk_app("GtE", (cand, maxval)), mk_app("Gt", (maxval, cand)), mk_app("LtE", (maxval, cand))):
                continue
            if is_app(t, "Eq", "NotEq") and any(is_app(a, "len") for a in t.args):
                continue
            extra.append(show(t, maxdepth=4) + "=" + str(p))
        ctx.ob("R1-exact", "no other rejection", not extra,
               "an iteration is accepted on the sole condition candidate < stop - start" if not extra else
               "accepted iterations also depend on %s: some draws are discarded for another reason, so values are not equally likely" % extra, site)
        # R3/R6: candidate = be2int(bytes([mask & D[0]] + D[1:])) with D a fresh draw of num_bytes
        ok3, why3, mask, nb, mask_kind = False, "", None, None, "byte"

        def draw_of(D):
            dr = [x for x in subterms(D) if is_app(x, "call") and x.args[0] == ent]
            if len(dr) == 1 and D in (mk_app("list", (dr[0],)), mk_app("bytearray", (dr[0],)), mk_app("bytes", (dr[0],)), dr[0]):
                return dr[0]
            return None
        if is_app(cand, "BitAnd", "Mod") and len(cand.args) == 2:
            # the whole integer is masked: be2int(d) & (2^bits - 1)  /  be2int(d) % 2^bits  - the same value as
            # masking the most significant byte when d has ceil(bits/8) bytes (R4 checks both)
            for a, b in ((cand.args[0], cand.args[1]), (cand.args[1], cand.args[0])):
                if is_app(a, "be2int") and draw_of(a.args[0]) is not None and (cand.f == "BitAnd" or a is cand.args[0]):
                    mask, nb, ok3 = b, draw_of(a.args[0]).args[1], True
                    mask_kind = "int" if cand.f == "BitAnd" else "mod"
        if is_app(cand, "be2int"):
            lst = cand.args[0].args[0] if is_app(cand.args[0], "bytes") else cand.args[0]
            # normal form of "[mask & D[0]] + D[1:]" and of "D[0] = mask & D[0]": setitem(D, 0, mask & D[0])
            if is_app(lst, "setitem") and lst.args[1] == Const(0) and is_app(lst.args[2], "BitAnd"):
                D = lst.args[0]
                m0 = lst.args[2]
                for a, b in ((m0.args[0], m0.args[1]), (m0.args[1], m0.args[0])):
                    if is_app(b, "index") and b.args == (D, Const(0)):
                        mask = a
                        draw = [x for x in subterms(D) if is_app(x, "call") and x.args[0] == ent]
                        if len(draw) == 1 and D in (mk_app("list", (mk_app("iter", (draw[0],)),)), mk_app("list", (draw[0],)),
                                                     mk_app("bytearray", (draw[0],)), draw[0]):
                            nb = draw[0].args[1]
                            ok3 = True
        if not ok3:
            why3 = show(cand, maxdepth=6)
            lazy = [x for x in subterms(cand) if isinstance(x, App) and (x.f.startswith("generator:") or x.f in ("iter-unknown", "maplam", "filterlam", "zip", "iter-elem"))]
            ctx.require(not lazy, "the candidate is assembled from a lazily consumed stream (%s): outside the analysable subset - no verdict"
                        % show(lazy[0], maxdepth=3) if lazy else "")
        ctx.ob("R3", "candidate form", ok3,
               ("candidate = big-endian integer of [mask & d[0]] + d[1:] for one draw d = entropy_f(num_bytes): mask on the most significant byte"
                if mask_kind == "byte" else "candidate = big-endian integer of one draw d = entropy_f(num_bytes), reduced to its low bits (%s)" % mask_kind) if ok3 else
               "candidate is not the big-endian integer of a masked fresh draw: %s" % why3, site)
        if not ok3:
            continue
        idx = [i for i, r in enumerate(o.state.log) if r[0] == "call-unknown" and r[1] == ent]
        enter = [i for i, r in enumerate(o.state.log) if r[0] == "loop-enter"]
        ok = len(idx) == 1 and len(enter) == 1 and idx[0] > enter[0]
        ctx.ob("R3-fresh", "draw inside the loop", ok, "exactly one draw per iteration, made after the loop is entered" if ok else
               "%d draw(s), %s the loop is entered: the draw is not renewed on retry" % (len(idx), "before" if idx and enter and idx[0] < enter[0] else "not after"), site)
        # R4/R5: num_bytes = ceil(bits/8) and mask = 2^(bits mod 8) - 1 (0xff when bits mod 8 == 0), with
        # bits = bit_length(stop-start) or 1.  Known spellings are recognised symbolically; whatever the
        # spelling, the program's own expressions are folded for every bit length 0..BMAX, on the paths
        # whose bit-length-only conditions hold for that length (finite case split, form-independent).
        from ..terms import subst
        blt = App("bit_length", (maxval,))
        sym_n = nb in nbytes_forms
        nz = (leftover, True) in conds or (mk_app("NotEq", (leftover, Const(0))), True) in conds or (mk_app("Eq", (leftover, Const(0))), False) in conds
        z = (leftover, False) in conds or (mk_app("Eq", (leftover, Const(0))), True) in conds or (mk_app("NotEq", (leftover, Const(0))), False) in conds
        sym_mask = mask_kind == "byte" and (nz and mask == mk_app("Sub", (mk_app("LShift", (Const(1), leftover)), Const(1)))) or (mask_kind == "byte" and z and mask == Const(0xff))
        blconds = [(t, p) for (t, p) in conds if any(x == blt for x in subterms(t))]
        bad_n, bad_m, unfold = [], [], []
        shared = [x for t_ in (mask, nb) for x in subterms(t_) if is_app(x, "msc")]
        if shared:
            # a hand-written memo: decided when every store into the container made by the sampler is  C[k] = v  with v a
            # function of k alone (then a later lookup C[K] can only return F(K), whoever stored it)
            r_ = memo_resolve(world, e2, outs, shared[0], (mask, nb))
            if r_ is not None and r_[0] == "unsound":
                ctx.ob("R4", "cached mask", False, r_[1], r_[2] or site)
                continue
            if r_ is not None and r_[0] == "ok":
                mask, nb = r_[1]
                ctx.ob("R4", "cached mask", True, r_[2], site)
                shared = []
        if shared:
            # DESIGN 1.4: what the analysis cannot interpret is "no verdict", not a violation - the value read from a shared
            # mutable container (a hand-written cache) depends on the history of the process; C16/W1 reports the container
            raise AnalysisError("%s:%s the mask / draw length of the sampler is read from the shared mutable container %s: its value depends on "
                                "what earlier calls stored there - outside the analysable subset, no verdict (C16 reports the container)"
                                % (site[0] if site else "?", site[1] if site else "?", show(shared[0].args[0])))
        for b in range(0, BMAX + 1):
            sub = {blt: Const(b)}
            applies = True
            for (t, p) in blconds:
                try:
                    if bool(refmodel.eval_closed(_fold(subst(t, sub)))) != p:
                        applies = False
                        break
                except AnalysisError:
                    pass              # depends on something else as well: no restriction on b
            if not applies:
                continue
            covered.add(b)
            try:
                mv = refmodel.eval_closed(_fold(subst(mask, sub)))
                nv = refmodel.eval_closed(_fold(subst(nb, sub)))
            except AnalysisError as e:
                unfold.append((b, str(e)[:80]))
                continue
            bits = b or 1
            if nv != (bits + 7) // 8:
                bad_n.append((b, nv))
            want_m = ((1 << (bits % 8)) - 1 if bits % 8 else 0xff) if mask_kind == "byte" else \
                ((1 << bits) - 1 if mask_kind == "int" else (1 << bits))
            if mv != want_m:
                bad_m.append((b, mv))
        okn = not bad_n and not unfold
        ctx.ob("R4", "num_bytes", okn, ("num_bytes = ceil(bit_length(stop-start)/8)" if sym_n else
                                         "draw length %s folds to ceil(bits/8) for every bit length 0..%d" % (show(nb, maxdepth=4), BMAX)) if okn else
               "draw length is %s: wrong for bit lengths %s" % (show(nb, maxdepth=5), (bad_n or unfold)[:4]), site)
        okm = not bad_m and not unfold
        case = "bits%8 != 0" if nz else "bits%8 == 0" if z else "computed"
        ctx.ob("R4", "mask (%s)" % case, okm,
               ("mask = 2^(bits mod 8) - 1 when bits mod 8 != 0, else 0xff" if sym_mask else
                "mask %s folds to %s for every bit length 0..%d on this path"
                % (show(mask, maxdepth=4), {"byte": "2^(bits mod 8) - 1 / 0xff", "int": "2^bits - 1", "mod": "2^bits"}[mask_kind], BMAX)) if okm else
               "top-byte mask is %s: wrong for bit lengths %s" % (show(mask, maxdepth=5), (bad_m or unfold)[:4]), site)
        ctx.ob("R5", "case split over bit lengths 0..%d (%s)" % (BMAX, case), okn and okm,
               "for every bit length the candidate ranges over exactly [0, 2^bits): mask and length fold to 2^(bits%%8)-1 / ceil(bits/8)" if okn and okm else
               "mask/length wrong for bit lengths %s" % (bad_n + bad_m + unfold)[:4], site)
    missing = [b for b in range(0, BMAX + 1) if b not in covered]
    ctx.ob("R4", "all bit lengths handled", not missing, "every bit length 0..%d is handled by an accepting path" % BMAX if not missing else
           "no accepting path for bit lengths %s ..." % missing[:6], site)
    ok = len(e2.continues) >= 1
    ctx.ob("R1", "retry", ok, "a rejected candidate leads to a new iteration (retry), not to a fallback value" if ok else
           "no retry path: rejected candidates are not re-drawn", site)


def memo_resolve(world, e2, outs, msc, terms):
    """msc = the shared container some of `terms` look up.  -> ("unsound", detail, site) when a store made by the
    evaluated function puts a value under a key that does not determine it; ("ok", terms with each lookup C[K]
    replaced by F(K), detail) when every store is C[k] = F(k) and nothing else in the package writes C; None when
    the analysis cannot tell (other writers, no store seen)."""
    import ast
    from ..terms import subst
    stores = []
    for st_ in [o.state for o in outs] + [p.st for p in e2.continues]:
        for r in st_.log:
            if r[0] == "sub-store" and r[1] == msc:
                stores.append((r[2], r[3], r[4], [(t, pol) for (t, pol, _) in st_.pc]))
    if not stores:
        return None
    KAPPA = Sym("cache-key")

    def only_key(t):
        return not any((isinstance(x, Sym) and x != KAPPA) or is_app(x, "msc", "call") for x in subterms(t))
    cases = []
    for k, v, site, pc in stores:
        if isinstance(k, Const):
            return None
        vk = subst(v, {k: KAPPA})
        if not only_key(vk):
            free = sorted({x.n for x in subterms(vk) if isinstance(x, Sym) and x != KAPPA})
            return ("unsound", "the sampler caches %s under the key %s, but the cached value also depends on %s: a later call whose key "
                    "coincides reads a mask / length computed for a different range" % (show(v, maxdepth=4), show(k, maxdepth=4), free or "the cache itself"), site)
        # the conditions of the storing path that speak about the key alone select this case of a piecewise F
        cd = []
        for (t, pol) in pc:
            tk = subst(t, {k: KAPPA})
            if KAPPA in list(subterms(tk)) and only_key(tk) and (tk, pol) not in cd:
                cd.append((tk, pol))
        if (frozenset(cd), vk) not in [(frozenset(c_), v_) for c_, v_ in cases]:
            cases.append((cd, vk))
    if len({v_ for _, v_ in cases}) == 1:
        F = cases[0][1]
    else:
        F = cases[-1][1]
        for cd, v_ in reversed(cases[:-1]):
            if not cd:
                return None
            c = None
            for (t, pol) in cd:
                tt = t if pol else App("Not", (t,))
                c = tt if c is None else App("And", (c, tt))
            F = App("ifelse", (c, v_, F))
    fs = [F]
    # nothing else in the package may write the container
    name = None
    try:
        name = eval(msc.args[0].v)          # the key is the repr of a tuple of plain strings written by msc_wrap
    except Exception:
        return None
    if not (isinstance(name, tuple) and len(name) == 3 and name[0] == "module"):
        return None
    mod = world.module(name[1])
    sites = set()
    for n in ast.walk(mod.tree):
        tgt = None
        if isinstance(n, ast.Subscript) and isinstance(n.ctx, (ast.Store, ast.Del)) and isinstance(n.value, ast.Name) and n.value.id == name[2]:
            tgt = n
        if isinstance(n, ast.Call) and isinstance(n.func, ast.Attribute) and isinstance(n.func.value, ast.Name) and n.func.value.id == name[2] \
                and n.func.attr in ("update", "setdefault", "pop", "popitem", "clear", "__setitem__", "__delitem__"):
            tgt = n
        if tgt is not None:
            sites.add(tgt.lineno)
    seen = {s_[2][1] for s_ in stores if s_[2]}
    others = [m_ for m_ in world.mods.values() if m_ is not mod and any(isinstance(n, ast.Name) and n.id == name[2] for n in ast.walk(m_.tree))] \
        if hasattr(world, "mods") and isinstance(world.mods, dict) else []
    if not sites <= seen or others:
        return None
    out = []
    for t in terms:
        rep = {x: subst(fs[0], {KAPPA: x.args[1]}) for x in subterms(t) if is_app(x, "index") and x.args[0] == msc}
        t2 = subst(t, rep) if rep else t
        out.append(t2)
    return ("ok", tuple(out), "the mask / length is read from a memo whose every store is C[k] = F(k) for one F: a lookup returns F(key)")


BMAX = 4224


def _fold(t):
    """math.ceil / int / Div on constants."""
    from ..terms import subst
    return subst(t, {})


def random_scalars(ctx, world, ev):
    st, g, syms = gm.symbolic_int_group(world, ev)
    ent = Sym("entropy_f")
    ut = world.module("spake2.util")
    ur = ev.module_global(ut, "unbiased_randrange", None)
    e3 = Ev(world)
    e3.import_all()
    e3.next_oid = ev.next_oid
    e3.policy.force_opaque.add(ur.qual)        # the sampler itself is R0-R5's business, whatever its shape
    outs = e3.run_method(g, "random_scalar", [ent], st=st.fork())
    rets = session.rets(outs)
    want = App("fn:" + ur.qual, (Const(0), syms["q"], ent))
    for o in rets:                               # optional extra arguments (e.g. precomputed masks) are R's business too
        if isinstance(o.value, App) and o.value.f == want.f and o.value.args[:3] == want.args:
            want = o.value
    extra_pos, extra_kw = tuple(want.args[3:]), tuple(want.kw)
    if any(not isinstance(a, Const) for a in extra_pos) or any(not isinstance(v_, Const) for _, v_ in extra_kw):
        # the group hands the sampler more than (start, stop, f) - e.g. a precomputed size or mask.  Whatever these
        # arguments select inside the sampler (a memo entry, typically) must still be determined by the range: the
        # sampler is evaluated once more with the extra parameters arbitrary and its memo stores are re-examined
        e4 = Ev(world, loop_mode="once")
        e4.import_all()
        e4.policy.force_inline.add(ur.qual)
        start_, stop_ = Sym("start", "int"), Sym("stop", "int")
        try:
            outs4 = e4.run(ur, [start_, stop_, ent] + [a if isinstance(a, Const) else Sym("extra%d" % i, "int") for i, a in enumerate(extra_pos)],
                           [(k_, v_ if isinstance(v_, Const) else Sym("extra_" + k_, "int")) for k_, v_ in extra_kw], world.static.fork())
        except AnalysisError:
            outs4 = []
        for o4 in session.rets(outs4):
            for m_ in [x for x in subterms(o4.value) if is_app(x, "msc")][:1]:
                r_ = memo_resolve(world, e4, outs4, m_, (o4.value,))
                if r_ is not None and r_[0] == "unsound":
                    ctx.ob("N2", g.cls.name + ".random_scalar extra arguments", False,
                           "random_scalar passes %s to the sampler; with that argument %s" % (
                               ", ".join([show(a, maxdepth=3) for a in extra_pos] + ["%s=%s" % (k_, show(v_, maxdepth=3)) for k_, v_ in extra_kw]), r_[1]),
                           r_[2] or (g.cls.mod.relpath, 0, "random_scalar"))
    ok = len(outs) == 1 and len(rets) == 1 and rets[0].value == want
    ctx.ob("N2", g.cls.name + ".random_scalar", ok, "random_scalar(f) = unbiased_randrange(0, q, f)" if ok else
           "integer-group random_scalar is %s, expected unbiased_randrange(0, q, entropy_f)" % [show(o.value, maxdepth=5) for o in rets],
           (g.cls.mod.relpath, 0, "random_scalar"))
    _, G = gm.group_classes(world, ev)
    oo = session.rets(ev.run_method(G, "order", [], st=world.static.fork()))
    L = oo[0].value
    outs = ev.run_method(G, "random_scalar", [ent], st=world.static.fork())
    rets = session.rets(outs)
    want = mk_app("Mod", (mk_app("be2int", (App("call", (ent, Const(64))),)), L))
    ok = len(outs) == 1 and len(rets) == 1 and rets[0].value == want
    ctx.ob("N6", "Ed25519 random_scalar", ok, "random_scalar(f) = int(f(64)) mod L: 512 fresh bits reduced modulo the group order" if ok else
           "Ed25519 random_scalar is %s, expected be2int(entropy_f(64)) %% L" % [show(o.value, maxdepth=6) for o in rets],
           (rets[0].site if rets else None))


def check(ctx, world):
    ctx.explanation = (
        "N1 who-may-call: the effect logs of the abstract evaluation of constructor, start(), finish(), serialize() and "
        "from_serialized() of the three classes are searched for any use of the instance's entropy function (called, or "
        "passed on): exactly one use, in start(), as the sole argument of group.random_scalar. N3: no ambient randomness "
        "except os.urandom as a parameter default. N4: restored instances carry a raising stub. N2/N6: the two "
        "random_scalar implementations are unbiased_randrange(0, q, f) and be2int(f(64)) mod L. Rejection sampling: "
        "unbiased_randrange is evaluated for one symbolic iteration of its `while True` loop: R0 the loop is left only by "
        "return; R1 the return is guarded by candidate < stop-start (strict) and a rejected candidate retries; R2 the result "
        "is start + candidate; R3 candidate = be2int(bytes([mask & d[0]] + d[1:])) for exactly one draw d = f(num_bytes) made "
        "inside the loop, no loop-carried variable; R4 num_bytes = ceil(bits/8) and mask = 2^(bits%8)-1 or 0xff; R5 for every "
        "bit length 1..72 the program's own mask/length expressions fold to values for which the candidate ranges over exactly "
        "[0, 2^bits). Lemma: R1-R5 imply the output is exactly uniform on [start, stop) for uniform bytes (every value has the "
        "same number of accepted byte strings), never outside, acceptance probability >= 1/2.")
    ctx.min_obligations = 30
    ev = session.new_ev(world)
    who_may_call(ctx, world, ev)
    ambient(ctx, world, ev)
    random_scalars(ctx, world, ev)
    rejection_sampling(ctx, world, ev)
