"""C05 - inbound elements are decoded strictly (DESIGN 4.5).

Guard dominance: every normal-return path of each group's bytes_to_element(b)
carries D1 (exact length), D2 (canonical range), D3 (membership in the prime-order
subgroup), D4 (Ed25519: not the identity), and returns exactly the decoded value;
D5: finish() uses the peer's bytes only through that function (and raw, in the
transcript)."""
from ..terms import ty_of, Const, Sym, App, TupleV, Obj, mk_app, is_app, show, subterms
from ..loader import AnalysisError
from ..poly import Poly, term_poly
from .. import session, groupmodel as gm


def conds_of(o):
    return {(t, p) for (t, p, _) in o.state.pc}


def has_eq(conds, a, b):
    """a == b established on the path."""
    return (mk_app("Eq", (a, b)), True) in conds or (mk_app("NotEq", (a, b)), False) in conds


def has_ne(conds, a, b):
    return (mk_app("Eq", (a, b)), False) in conds or (mk_app("NotEq", (a, b)), True) in conds


def upper_bound(conds, val, bound):
    """'strict' if the path establishes val < bound, 'weak' for val <= bound, else None."""
    best = None
    forms = [("Lt", (val, bound), True, "strict"), ("GtE", (val, bound), False, "strict"),
             ("Gt", (bound, val), True, "strict"), ("LtE", (bound, val), False, "strict"),
             ("LtE", (val, bound), True, "weak"), ("Gt", (val, bound), False, "weak"),
             ("GtE", (bound, val), True, "weak"), ("Lt", (bound, val), False, "weak")]
    if isinstance(bound, Const) and isinstance(bound.v, int):
        b1 = Const(bound.v - 1)
        forms += [("LtE", (val, b1), True, "strict"), ("Gt", (val, b1), False, "strict"),
                  ("GtE", (b1, val), True, "strict"), ("Lt", (b1, val), False, "strict")]
    for (op, args, pol, kind) in forms:
        if (mk_app(op, args), pol) in conds:
            if kind == "strict":
                return "strict"
            best = "weak"
    return best


def site_of(o):
    return o.site


def integer_group(ctx, world, ev):
    st, g, syms = gm.symbolic_int_group(world, ev)
    b = Sym("b", "bytes")
    outs = ev.run_method(g, "bytes_to_element", [b], st=st.fork())
    rets = session.rets(outs)
    ctx.require(rets, "integer group: bytes_to_element(b) has no accepting path (a decoder that refuses everything is strict; C15 decides whether it inverts the encoder)")
    ctx.count("decoder_paths", len(outs))
    f = st.heap[g.oid]
    width = gm.attr_of(ev, g, "element_size_bytes", st)
    ctx.require(width is not None, "anchor vanished: integer group has no element_size_bytes")
    p, q = syms["p"], syms["q"]
    gname = g.cls.name
    fsite = (g.cls.mod.relpath, _lineno(g.cls, "bytes_to_element"), gname + ".bytes_to_element")
    for i, o in enumerate(rets):
        conds = conds_of(o)
        inst = "%s.bytes_to_element#path%d" % (gname, i)
        val = mk_app("be2int", (b,))
        ok = has_eq(conds, mk_app("len", (b,)), width)
        ctx.ob("D1", inst, ok, "accepting path guarded by len(b) == element_size_bytes" if ok else
               "accepting path has no guard len(b) == element_size_bytes: over-long/truncated strings are decoded", fsite)
        ub = upper_bound(conds, val, p)
        ctx.ob("D2", inst, ub is not None, "canonical range: integer value bounded by p (%s; i == p fails membership)" % ub if ub else
               "accepting path does not bound the decoded integer by p: i and i+p would both be accepted", fsite)
        ok = has_eq(conds, mk_app("pow", (val, q, p)), Const(1))
        ctx.ob("D3", inst, ok, "membership: pow(i, q, p) == 1 on the accepting path" if ok else
               "accepting path lacks the subgroup membership test pow(i, q, p) == 1", fsite)
        r = o.value
        okr = okg = gm.int_element_value(st, g, o.state, r) == val
        ctx.ob("Dret", inst, okr and okg, "returns the element holding exactly the decoded integer, in this group" if okr and okg else
               "returned element does not hold the decoded integer be2int(b) / the receiving group", fsite,
               witness=show(r))
    return g.cls


def _lineno(cls, meth):
    r = cls.lookup(meth)
    return r[1].lineno if r and r[0] == "func" else 0


def ed25519(ctx, world, ev):
    icls, G = gm.group_classes(world, ev)
    m, base = gm.ed_module_of(world, ev)
    qn, Q = gm.field_prime(world, ev)
    dn, d = gm.curve_d(world, ev)
    ctx.require(d is not None, "anchor vanished: curve constant d")
    b = Sym("b", "bytes")
    outs = ev.run_method(G, "bytes_to_element", [b], st=world.static.fork())
    rets = session.rets(outs)
    ctx.require(rets, "Ed25519: bytes_to_element(b) has no accepting path (a decoder that refuses everything is strict; C15 decides whether it inverts the encoder)")
    ctx.count("decoder_paths", len(outs))
    width = gm.attr_of(ev, G, "element_size_bytes", world.static)
    ctx.require(isinstance(width, Const), "anchor vanished: Ed25519 group element_size_bytes")
    order_outs = session.rets(ev.run_method(G, "order", [], st=world.static.fork()))
    ctx.require(len(order_outs) == 1 and isinstance(order_outs[0].value, Const), "anchor vanished: Ed25519 group order()")
    L = order_outs[0].value
    forms = gm.formula_functions(world, ev)
    complete = {k for k, v in forms.items() if v.get("kind") == "add-complete"}
    dedicated = {k for k, v in forms.items() if v.get("kind") == "add-dedicated"}
    doubles = {k for k, v in forms.items() if v.get("kind") == "double"}
    zero_bytes = Const(bytes([1] + [0] * 31))
    le = mk_app("be2int", (mk_app("rev", (b,)),))
    le32 = mk_app("be2int", (mk_app("rev", (mk_app("slice", (b, Const(None), Const(32), Const(None))),)),))
    clamp = Const((1 << 255) - 1)
    fsite = (m.relpath, 0, "bytes_to_element")
    for i, o in enumerate(rets):
        conds = conds_of(o)
        inst = "Ed25519.bytes_to_element#path%d" % i
        rs = [rec[1] for rec in o.state.log if rec[0] == "return" and rec[1][0] == m.relpath]
        fsite = max(rs, key=lambda x: x[1]) if rs else fsite
        r = o.value
        ctx.require(isinstance(r, Obj), "Ed25519 bytes_to_element returns a non-object")
        coords = None
        for k, v in o.state.heap[r.oid].items():
            if isinstance(v, TupleV) and len(v.items) == 4:
                coords = v
        ctx.require(coords is not None, "Ed25519 element has no 4-tuple coordinate field")
        X, Y, Z, T = coords.items

        def strip(t):
            return t.args[0] if is_app(t, "Mod") and t.args[1] == Const(Q) else t
        x, y = strip(X), strip(Y)
        # ---- the y coordinate is the little-endian integer of b with bit 255 cleared
        yforms = [mk_app("BitAnd", (e, clamp)) for e in (le, le32)] + [mk_app("Mod", (e, Const(1 << 255))) for e in (le, le32)]
        oky = y in yforms
        ctx.ob("Dret-y", inst, oky, "y = little-endian integer of b with the sign bit cleared" if oky else
               "returned y coordinate is not the masked little-endian integer of the input: %s" % show(y, maxdepth=5), fsite)
        # ---- D1 length
        ok = has_eq(conds, mk_app("len", (b,)), width)
        ctx.ob("D1", inst, ok, "accepting path guarded by len(b) == %d" % width.v if ok else
               "accepting path has no length guard: bytes past %d are ignored / short strings are decoded (F1)" % width.v, fsite)
        # ---- D2a y < Q
        ub = upper_bound(conds, y, Const(Q))
        ctx.ob("D2-y", inst, ub is not None, "canonical range: y bounded by the field prime (%s)" % ub if ub else
               "accepting path does not reject y >= Q: non-canonical encodings (y and y+Q) decode to the same point", fsite)
        # ---- D2b sign bit on x == 0
        flip = is_app(x, "Sub") and x.args[0] == Const(Q)
        if flip:
            x0 = x.args[1]
            ok = has_ne(conds, x0, Const(0)) or has_ne(conds, x, Const(Q)) or upper_bound(conds, x, Const(Q)) == "strict"
            if not ok:
                # the flip is taken because the root is odd (an odd number is not 0): directly, or as
                # "parity(root) != sign" on a path where the sign bit is known to be 0
                from ..terms import subst
                zeros = {t: Const(0) for (t, p) in conds if p is False and ty_of(t) == "int"}
                zeros.update({(t.args[0] if t.args[1] == Const(0) else t.args[1]): Const(0) for (t, p) in conds
                              if is_app(t, "NotEq") and p is False and Const(0) in t.args})
                zeros.update({(t.args[0] if t.args[1] == Const(0) else t.args[1]): Const(0) for (t, p) in conds
                              if is_app(t, "Eq") and p is True and Const(0) in t.args})
                for (t, p) in conds:
                    t2 = subst(t, zeros) if zeros else t
                    if gm.odd_fact(t, p, x0) is True or gm.odd_fact(t2, p, x0) is True:
                        ok = True
            ctx.ob("D2-sign", inst, ok, "sign-flip path excludes x == 0" if ok else
                   "sign-flip path accepts x == 0: the encoding with the sign bit set on x = 0 is a second encoding of the same point", fsite)
        # ---- D3a on-curve test is the curve equation
        atoms = {}
        px, py = term_poly(x, Q, atoms), term_poly(y, Q, atoms)
        curve = -(px * px) + py * py - 1 - Poly.const(Q, d) * px * px * py * py
        found = False
        for (t, pol) in conds:
            e = None
            if is_app(t, "Eq", "NotEq") and Const(0) in t.args:
                other = t.args[0] if t.args[1] == Const(0) else t.args[1]
                if is_app(other, "Mod") and other.args[1] == Const(Q) and (pol == (t.f == "Eq")):
                    e = other.args[0]
            if e is None:
                continue
            try:
                pe = term_poly(e, Q, dict(atoms))
            except AnalysisError:
                continue
            c = (-pe.t.get((), 0)) % Q
            if c and (pe - curve * c).is_zero():
                found = True
        for (t, pol) in conds:
            if isinstance(t, App) and t.f.startswith("fn:") and pol is True and len(t.args) == 1 and isinstance(t.args[0], TupleV) \
                    and len(t.args[0].items) == 2:
                cx, cy = t.args[0].items
                try:
                    same = (term_poly(cx, Q, dict(atoms)) - px).is_zero() and (term_poly(cy, Q, dict(atoms)) - py).is_zero()
                except AnalysisError:
                    same = False
                cf = gm.func_by_qual(world, t.f[3:])
                if same and cf is not None and gm.oncurve_test_ok(world, ev, cf)[0]:
                    found = True
        if not found:
            # x*x == xx (mod Q) where xx = (y^2 - 1)/(d y^2 + 1) is the square returned by the verified root helper:
            # equivalent to the curve equation because d y^2 + 1 is a unit for every y (C12 P4)
            xr = x.args[1] if is_app(x, "Sub") and x.args[0] == Const(Q) else x
            rc_ = gm.root_call(world, xr)
            if rc_ is not None and rc_[2] == 0 and gm.sqrt_helper_ok(world, ev, rc_[0], 0)[0]:
                xx_ = mk_app("proj", (xr.args[0], Const(1)))
                for (t, pol) in conds:
                    if is_app(t, "Eq", "NotEq") and Const(0) in t.args and (pol == (t.f == "Eq")):
                        other = t.args[0] if t.args[1] == Const(0) else t.args[1]
                        if is_app(other, "Mod") and other.args[1] == Const(Q):
                            at2 = dict(atoms)
                            at2["xx__"] = xx_
                            try:
                                pe = term_poly(other.args[0], Q, at2)
                                pxx = Poly.var(Q, "xx__")
                                if (pe - (px * px - pxx)).is_zero() or (pe + (px * px - pxx)).is_zero():
                                    found = True
                            except AnalysisError:
                                pass
        ctx.ob("D3-curve", inst, found, "on-curve guard is the curve equation -x^2 + y^2 = 1 + d x^2 y^2 on the decoded (x, y)" if found else
               "no guard on the accepting path is the curve equation of the decoded coordinates", fsite)
        # ---- D3b L-torsion through the complete ladder on this point
        okm, why = False, "no identity test of L*P on the accepting path"
        for (t, pol) in conds:
            if not (isinstance(t, App) and t.f.startswith("fn:") and pol is True and len(t.args) == 1):
                continue
            f = gm.func_by_qual(world, t.f[3:])
            if f is None:
                continue
            okid, _ = gm.identity_test_ok(world, ev, f)
            call = gm.unproj(t.args[0])
            lc = gm.ladder_call(world, ev, call) if okid else None
            if lc is None:
                continue
            uses = lc["uses"]
            if uses & dedicated:
                why = "membership test multiplies with the dedicated (non-unified) addition, which is wrong for points outside the subgroup"
                continue
            if not (uses & complete and uses & doubles):
                why = "membership ladder does not use the complete addition and the doubling formula"
                continue
            if lc["pt"] != coords:
                why = "membership test is applied to a point other than the decoded one"
                continue
            if lc["n"] != L:
                why = "membership test multiplies by %s, not by the group order L" % show(lc["n"])
                continue
            okm, why = True, "is_identity(L * P) with the complete ladder on the decoded point"
        ctx.ob("D3-order", inst, okm, why, fsite)
        # the identity test must see the identity: a coordinate it compares unreduced has to arrive normalised
        for (t, pol) in conds:
            for (i_, ok_, detail_, site_) in gm.identity_repr_obligations(world, ev, t):
                ctx.ob("D3-repr", inst + " " + i_, ok_, detail_, site_)
        # ---- D4 identity rejected
        ok4 = False
        if has_ne(conds, b, zero_bytes):
            ok4 = True
        for (t, pol) in conds:
            if isinstance(t, App) and t.f.startswith("fn:") and pol is False and len(t.args) == 1 and t.args[0] == coords:
                f = gm.func_by_qual(world, t.f[3:])
                if f is not None and gm.identity_test_ok(world, ev, f)[0]:
                    ok4 = True
        ctx.ob("D4", inst, ok4, "identity rejected (comparison with the canonical identity encoding, unique given D2)" if ok4 else
               "accepting path does not exclude the identity element", fsite)
        # ---- returned representation
        okz = Z == Const(1)
        try:
            at2 = dict(atoms)
            okt = (term_poly(T, Q, at2) - px * py).is_zero()
        except AnalysisError:
            okt = False
        okc = r.cls is base.cls
        ctx.ob("Dret", inst, okz and okt and okc, "returns the subgroup element class with (x, y, 1, x*y)" if okz and okt and okc else
               "returned element is not (x, y, 1, xy) of the decoded point in the subgroup element class %s" % base.cls.name, fsite)


def finish_use(ctx, world, ev):
    """D5: the peer bytes reach the key only through group.bytes_to_element (and raw in the transcript)."""
    for cname in session.PUBLIC_CLASSES:
        for cm in session.models(world, ev, cname):
            n = 0
            for outs in cm.finish:
                for o in session.rets(outs):
                    n += 1
                    payload = mk_app("slice", (cm.msg, Const(1), Const(None), Const(None)))
                    bad = []
                    dec = []

                    def has_msg(t):
                        return any(x == cm.msg for x in subterms(t))
                    kpart = o.value
                    if is_app(kpart, "H") and is_app(kpart.args[0], "cat"):
                        kpart = kpart.args[0].args[-1]     # the shared-element field; the other slots are C17's
                    for t in subterms(kpart):
                        if not isinstance(t, App) or t == payload:
                            continue
                        for a in t.args:
                            if a == payload:
                                if t.f == ".bytes_to_element":
                                    dec.append(t)
                                else:
                                    bad.append("%s(payload)" % t.f)
                            elif has_msg(a) and not isinstance(a, App):
                                bad.append("%s(%s)" % (t.f, show(a, maxdepth=2)))
                            elif has_msg(a) and isinstance(a, App) and a.f == "slice" and a != payload:
                                bad.append("%s(%s)" % (t.f, show(a, maxdepth=3)))
                    for t in subterms(kpart):
                        if is_app(t, ".bytes_to_element") and t not in dec:
                            bad.append("decoder applied to %s" % show(t.args[1], maxdepth=3) if len(t.args) > 1 else "decoder")
                    ok = not bad and len({d._key for d in dec}) == 1
                    ctx.ob("D5", "%s.finish" % cname, ok,
                           "peer bytes reach K only through group.bytes_to_element(payload)" if ok else
                           "peer bytes are also consumed by %s / %d decoders" % (sorted(set(bad)), len(dec)), o.site,
                           witness=show(o.value, maxdepth=8))
            ctx.require(n >= 1, "%s.finish has no key-returning path" % cname)


def check(ctx, world):
    ctx.explanation = (
        "Guard dominance by exhaustive path enumeration of the abstract evaluator: bytes_to_element(b) of the "
        "integer-group class (on an instance over symbolic p, q, g - any group) and of the Ed25519 group is "
        "evaluated on a symbolic byte string; every accepting path must carry D1 len(b) == element size, D2 the "
        "canonical-range comparison (integer < p; y < 2^255-19 and no sign bit on x = 0), D3 subgroup membership "
        "(pow(i,q,p) == 1; the on-curve guard must be the curve equation of the decoded coordinates - checked as a "
        "polynomial identity - and is_identity(L*P) computed by the complete-addition ladder on the decoded point "
        "with the folded group order), D4 identity rejection (Ed25519), and return exactly the decoded value. "
        "D5: in finish() of the three classes the peer bytes flow into the key only through group.bytes_to_element "
        "and raw into the transcript. Formula functions and the identity predicate are recognised semantically "
        "(polynomial classification), not by name. D-reencode: the encoder/decoder agreement obligations of C15 "
        "(K3, K5) - an accepted string is the encoding of the element it decodes to.")
    ctx.min_obligations = 20
    ev = session.new_ev(world)
    integer_group(ctx, world, ev)
    ed25519(ctx, world, ev)
    finish_use(ctx, world, ev)
    # "every accepted string re-encodes to itself": the decoder is the inverse of the element encoder
    # (C15's K3/K5 encoder-decoder agreement: big-endian value / y with the parity of x in bit 255,
    # the recovered root and the sign rule), re-run here
    from .common import include
    include(ctx, world, "c15", "D-reencode", keep=lambda o: o.rule in ("K3-encoder", "K3-decoder", "K5-encoder", "K5-decoder", "K5-root"))
