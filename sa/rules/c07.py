"""C07 - an instance is single-use over every call history (DESIGN 4.7).

The entry points consult only a few instance fields, so the history quantifier
collapses to a finite abstract automaton.  It is *extracted* here: the abstract
evaluator runs start()/finish(msg)/serialize() from every reachable abstract
instance state (fresh, and restored by from_serialized) until no new state
signature appears, and every transition is compared with the specification
automaton.  Plus writer enumeration for the flags and the secret scalar.
"""
import ast

from ..terms import Const, Sym, App, Obj, subterms, show, is_app
from ..evalr import exc_name
from ..loader import AnalysisError, stmt_text
from .. import session

MAX_DEPTH = 6
MAX_NODES = 400


class Spec(object):
    __slots__ = ("started", "msg_out", "key_out", "restored")

    def __init__(self, started=False, msg_out=False, key_out=False, restored=False):
        self.started, self.msg_out, self.key_out, self.restored = started, msg_out, key_out, restored

    def copy(self, **kw):
        s = Spec(self.started, self.msg_out, self.key_out, self.restored)
        for k, v in kw.items():
            setattr(s, k, v)
        return s

    def sig(self):
        return (self.started, self.msg_out, self.key_out, self.restored)

    def __repr__(self):
        return "started=%d msg_out=%d key_out=%d restored=%d" % self.sig()


def _canon(t, ren):
    """Printable key of a field value with message symbols renamed by first appearance."""
    s = show(t, maxdepth=30)
    for x in sorted({y.n for y in subterms(t) if isinstance(y, Sym) and y.n.startswith("msg")}):
        ren.setdefault(x, "msg%d" % len(ren))
    for old, new in sorted(ren.items(), key=lambda kv: -len(kv[0])):
        s = s.replace("$" + old, "$@" + new)
    return s


def field_sig(st, obj):
    ren = {}
    return tuple((k, _canon(v, ren)) for k, v in sorted(st.heap[obj.oid].items()))


def scalar_fields(cm):
    """Fields written by start() whose value is drawn from the entropy function."""
    names = set()
    for s in cm.started:
        for k, v in s.state.heap[cm.obj.oid].items():
            if k in cm.fields_new and cm.fields_new[k] == v:
                continue
            if any(isinstance(x, App) and x.f == ".random_scalar" for x in subterms(v)) or \
                    any(isinstance(x, App) and x.f == "call" and isinstance(x.args[0], Sym) and x.args[0].n.startswith("entropy_f") for x in subterms(v)):
                names.add(k)     # every field derived from the entropy draw (scalar, element, message)
    return names


def entropy_uses(log, mark):
    n = 0
    for rec in log[mark:]:
        if rec[0] == "method-call" and rec[2] == "random_scalar":
            n += 1
        if rec[0] == "call-unknown" and isinstance(rec[1], Sym) and rec[1].n.startswith("entropy_f"):
            n += 1
    return n


def stores_since(log, mark, obj):
    return [r for r in log[mark:] if r[0] == "store" and r[1] == obj]


def explore(ctx, world, ev, cm, init_name, st0, obj, spec0, scal):
    """BFS over abstract instance states; one obligation per transition."""
    cname = cm.name
    seen = set()
    work = [(st0, spec0, init_name, 0)]
    nodes = 0
    nmsg = [0]
    while work:
        st, spec, hist, depth = work.pop(0)
        sig = (spec.sig(), field_sig(st, obj))
        if sig in seen:
            continue
        seen.add(sig)
        nodes += 1
        if nodes > MAX_NODES:
            raise AnalysisError("C07 exploration of %s exceeds %d abstract states (unbounded instance state?)" % (cname, MAX_NODES))
        if depth >= MAX_DEPTH:
            ctx.note("%s: depth bound %d reached at %s" % (cname, MAX_DEPTH, hist))
            continue
        before = dict(st.heap[obj.oid])
        for op in ("start", "finish", "serialize"):
            s1 = st.fork()
            mark = len(s1.log)
            if op == "finish":
                nmsg[0] += 1
                args = [Sym("msg%d" % nmsg[0], "bytes")]
            else:
                args = []
            outs = ev.run_method(obj, op, args, st=s1)
            ctx.count("transitions_explored", len(outs))
            inst = "%s: %s/%s" % (cname, hist, op)
            rets = [o for o in outs if o.kind == "return"]
            rais = [o for o in outs if o.kind == "raise"]
            # ---------------- specification automaton
            if op == "start":
                if spec.msg_out or spec.restored or spec.started:
                    ok = not rets and all(o.exc == "OnlyCallStartOnce" for o in rais) and bool(rais)
                    ctx.ob("T1", inst, ok,
                           "start() on a started/restored instance: every path raises OnlyCallStartOnce" if ok else
                           "start() %s on an instance that already started (outcomes: %s)"
                           % ("returns a message again" if rets else "raises something else", _outs(outs)),
                           site=_site(rets or rais))
                    for o in rais:
                        w = stores_since(o.state.log, mark, obj)
                        ctx.ob("T1-nostore", inst, not w, "no field is written before the refusal" if not w else
                               "field(s) %s written although start() refuses" % sorted({r[2] for r in w}), site=o.site)
                else:
                    ctx.ob("T2", inst, all(_flag_set(o, obj, "start", cm) for o in rets) and bool(rets),
                           "every returning path of the first start() leaves the instance marked started", site=_site(rets))
            elif op == "finish":
                if spec.key_out:
                    ok = not rets and all(o.exc == "OnlyCallFinishOnce" for o in rais) and bool(rais)
                    ctx.ob("T3", inst, ok,
                           "finish() after a key was returned: every path raises OnlyCallFinishOnce" if ok else
                           "finish() %s although a key was already returned (outcomes: %s)"
                           % ("returns a key again" if rets else "raises something else", _outs(outs)), site=_site(rets or rais))
                elif not spec.started:
                    ok = not rets and bool(rais)
                    ctx.ob("T8", inst, ok, "finish() before start(): every path raises (%s)" % _outs(outs) if ok else
                           "finish() returns a key on an instance that never started", site=_site(rets or rais))
            else:  # serialize
                if not spec.started:
                    ok = not rets and all(o.exc == "SerializedTooEarly" for o in rais) and bool(rais)
                    ctx.ob("T4", inst, ok, "serialize() before start(): SerializedTooEarly" if ok else
                           "serialize() before start(): outcomes %s" % _outs(outs), site=_site(rets or rais))
                else:
                    ok = bool(rets) and not rais
                    ctx.ob("T4-ok", inst, ok, "serialize() on a started instance returns" if ok else
                           "serialize() on a started instance: outcomes %s" % _outs(outs), site=_site(rais or rets))
                for o in outs:
                    w = stores_since(o.state.log, mark, obj)
                    ctx.ob("T4-pure", inst, not w, "serialize() writes no instance field" if not w else
                           "serialize() writes instance field(s) %s" % sorted({r[2] for r in w}), site=(w[0][4] if w else o.site))
            # ---------------- secret scalar never changes, entropy only in the first start()
            for o in outs:
                after = o.state.heap[obj.oid]
                for f in scal:
                    if f in before:
                        ok = after.get(f) == before[f]
                        ctx.ob("T7", inst + "#" + f, ok, "secret scalar field unchanged" if ok else
                               "secret scalar field %s changes from %s to %s" % (f, show(before[f], maxdepth=4), show(after.get(f), maxdepth=4) if f in after else "<deleted>"),
                               site=o.site)
                n = entropy_uses(o.state.log, mark)
                fresh_start = op == "start" and not (spec.started or spec.msg_out or spec.restored)
                if n and not fresh_start:
                    ctx.ob("T7-entropy", inst, False, "%s() draws entropy (%d uses) outside the first start()" % (op, n), site=o.site)
            # ---------------- successors
            for o in outs:
                ns = spec
                if op == "start" and o.kind == "return":
                    ns = spec.copy(started=True, msg_out=True)
                elif op == "start" and o.kind == "raise" and not (spec.started or spec.restored):
                    # a first start() that raised: the flag may or may not be set; follow the code
                    ns = spec.copy(started=_flag_value(o, obj, cm) is True)
                elif op == "finish" and o.kind == "return":
                    ns = spec.copy(key_out=True)
                tag = "ret" if o.kind == "return" else o.exc
                work.append((o.state, ns, "%s/%s#%s" % (hist, op, tag), depth + 1))
    ctx.count("abstract_states", nodes)
    return nodes


def _outs(outs):
    return ", ".join(sorted({("return" if o.kind == "return" else "raise " + str(o.exc)) for o in outs})) or "none"


def _site(outs):
    for o in outs:
        if o.site:
            return o.site
    return None


def _flag_value(o, obj, cm):
    f = cm.start_flag
    if f is None:
        return None
    v = o.state.heap[obj.oid].get(f)
    return v.v if isinstance(v, Const) else None


def _flag_set(o, obj, which, cm):
    f = cm.start_flag if which == "start" else cm.finish_flag
    if f is None:
        return True      # no flag identified: decided behaviourally by T1/T3
    v = o.state.heap[obj.oid].get(f)
    return isinstance(v, Const) and v.v is True


def find_flags(ctx, world, ev, cm):
    """The start/finish guard flags = the boolean fields whose symbolic value decides the
    OnlyCallStartOnce / OnlyCallFinishOnce refusal."""
    st = cm.st_new.fork()
    f = st.heap[cm.obj.oid]
    symf = {}
    for k, v in list(f.items()):
        if isinstance(v, Const) and isinstance(v.v, bool):
            s = Sym("fld:" + k, "bool")
            symf[s] = k
            f[k] = s
    flags = {}
    for op, exc in (("start", "OnlyCallStartOnce"), ("finish", "OnlyCallFinishOnce")):
        args = [Sym("msg", "bytes")] if op == "finish" else []
        outs = ev.run_method(cm.obj, op, args, st=st.fork())
        for o in outs:
            if o.kind == "raise" and o.exc == exc:
                conds = [(t, p) for (t, p, _) in o.state.pc if t in symf and p is True]
                if len({t for t, _ in conds}) == 1:
                    flags[op] = symf[conds[0][0]]
    # No flag found is not an error of the analysis: a guard may be written differently or be
    # missing; the explored automaton (T1/T3) decides the behaviour either way.
    cm.start_flag, cm.finish_flag = flags.get("start"), flags.get("finish")
    return flags


def writers(ctx, world, cm, scal):
    """T6/T7: every syntactic writer of the flags / the scalar among the class's methods."""
    flagnames = {cm.start_flag, cm.finish_flag} - {None}
    nw = 0
    for c in cm.cls.mro():
        for fn in c.node.body:
            if not isinstance(fn, ast.FunctionDef):
                continue
            for n in ast.walk(fn):
                tg = []
                if isinstance(n, ast.Assign):
                    tg = [(t, n.value) for t in n.targets]
                elif isinstance(n, (ast.AugAssign, ast.AnnAssign)):
                    tg = [(n.target, getattr(n, "value", None))]
                elif isinstance(n, ast.Delete):
                    tg = [(t, None) for t in n.targets]
                elif isinstance(n, ast.Call) and isinstance(n.func, ast.Name) and n.func.id == "setattr" and len(n.args) == 3 \
                        and isinstance(n.args[1], ast.Constant):
                    tg = [(ast.Attribute(value=n.args[0], attr=n.args[1].value, ctx=ast.Store()), n.args[2])]
                for t, v in tg:
                    if not isinstance(t, ast.Attribute):
                        continue
                    site = (c.mod.relpath, n.lineno, c.name + "." + fn.name)
                    inst = "%s:%s.%s:%s" % (cm.name, c.name, fn.name, stmt_text(n))
                    if t.attr in flagnames:
                        nw += 1
                        isconst = isinstance(v, ast.Constant) and isinstance(v.value, bool)
                        if fn.name == "__init__":
                            ok = isconst and v.value is False
                            ctx.ob("T6", inst, ok, "constructor initialises the flag to False" if ok else
                                   "constructor sets flag %s to %s" % (t.attr, ast.unparse(v) if v is not None else "<del>"), site)
                        else:
                            ok = isconst and v.value is True
                            ctx.ob("T6", inst, ok, "flag only ever set to True after construction" if ok else
                                   "flag %s is reset/changed to %s outside the constructor: a used instance becomes usable again"
                                   % (t.attr, ast.unparse(v) if v is not None else "<deleted>"), site)
                    if t.attr in scal and v is not None and any(isinstance(c, ast.Attribute) and c.attr == "random_scalar" for c in ast.walk(v)):
                        nw += 1
                        is_start = fn.name == "start"
                        is_cls = any(isinstance(d, ast.Name) and d.id == "classmethod" for d in fn.decorator_list)
                        ok = is_start or is_cls
                        ctx.ob("T7-writer", inst, ok,
                               "secret scalar written by start() / by the restoring classmethod on the instance it creates" if ok else
                               "secret scalar field %s is also written by %s.%s" % (t.attr, c.name, fn.name), site)
    ctx.count("flag_and_scalar_writers", nw)
    return nw


def check(ctx, world):
    ctx.explanation = (
        "Typestate extraction. For each public class the abstract evaluator runs start(), finish(msg_k) and "
        "serialize() from every reachable abstract instance state - the fresh instance and the instance returned "
        "by from_serialized(serialize()) - breadth-first until no new (specification state, field signature) pair "
        "appears (bounded depth %d). Every transition is one obligation against the specification automaton: "
        "start() returns only on a never-started, non-restored instance and otherwise raises OnlyCallStartOnce "
        "without writing a field (T1,T2); finish() raises OnlyCallFinishOnce once a key was returned (T3) and raises "
        "before start() (T8); serialize() raises SerializedTooEarly before start(), otherwise returns and writes no "
        "field (T4); the field holding the entropy-drawn scalar is never changed by any transition and entropy is "
        "drawn only by the first start() (T7). Plus the syntactic writers of the two guard flags and of the scalar "
        "field in the class hierarchy (T6: no reset; T7-writer). The guard flags and the scalar field are found "
        "from the code (the boolean field that decides the refusal; the field assigned from random_scalar)." % MAX_DEPTH)
    ctx.min_obligations = 90
    ev = session.new_ev(world)
    for cname in session.PUBLIC_CLASSES:
        for cm in session.models(world, ev, cname):
            check_model(ctx, world, ev, cname, cm)


def check_model(ctx, world, ev, cname, cm):
    if True:
        find_flags(ctx, world, ev, cm)
        ctx.require(len(cm.started) >= 1, "%s.start() has no returning path from a fresh instance" % cname)
        scal = scalar_fields(cm)
        ctx.require(scal, "anchor vanished: %s.start() stores no field drawn from group.random_scalar(entropy_f)" % cname)
        ctx.note("%s: start flag=%s finish flag=%s scalar field(s)=%s" % (cname, cm.start_flag, cm.finish_flag, sorted(scal)))
        explore(ctx, world, ev, cm, "fresh", cm.st_new, cm.obj, Spec(), scal)
        # restored instances (T5): diagonal restore of every serialize() output
        nrest = 0
        for sers in cm.serialize:
            for so in session.rets(sers):
                outs = session.restore(world, ev, cm.cls, so.value, so.state.fork(), cm.params)
                for o in session.rets(outs):
                    nrest += 1
                    ctx.require(isinstance(o.value, Obj), "%s.from_serialized does not return an instance" % cname)
                    ok = _flag_set(o, o.value, "start", cm)
                    ctx.ob("T5", "%s: from_serialized" % cname, ok,
                           "restored instance is created already started" if ok else
                           "from_serialized() returns an instance whose start flag %s is not True: start() could run again" % cm.start_flag,
                           site=o.site)
                    explore(ctx, world, ev, cm, "restored", o.state, o.value,
                            Spec(started=True, msg_out=True, restored=True), scal)
        ctx.require(nrest >= 1, "%s: from_serialized(serialize()) has no returning path (C08/C09 decide why)" % cname)
        writers(ctx, world, cm, scal)
