"""C06 - side confusion and reflection are always refused (DESIGN 4.6).

S2 is decided exhaustively over the real finite domain of the side byte: finish() is
evaluated with the inbound message cat(<byte>, payload) for each of the 256 byte
values and with the empty message, for every class, on the started fresh instance
and on the restored instance.  S4: every key-returning path carries the negated
reflection comparison and a ReflectionThwarted path exists that differs from it in
exactly that one condition."""
import ast
from ..terms import Const, Sym, App, Obj, mk_app, is_app, show, subterms
from .. import session, groupmodel as gm

EXPECT_SIDE = {"SPAKE2_A": b"A", "SPAKE2_B": b"B", "SPAKE2_Symmetric": b"S"}
PEER = {"SPAKE2_A": b"B", "SPAKE2_B": b"A", "SPAKE2_Symmetric": b"S"}
OFFSIDES = {("SPAKE2_A", b"A"), ("SPAKE2_B", b"B"), ("SPAKE2_Symmetric", b"A"), ("SPAKE2_Symmetric", b"B")}


def outcomes_str(outs):
    return ", ".join(sorted({("key" if o.kind == "return" else str(o.exc)) for o in outs})) or "none"


def side_partition(ctx, ev, cname, obj, st, label, payload):
    """finish(cat(byte, payload)) for all 256 bytes + the empty message."""
    classes = {}
    for v in list(range(256)) + [None]:
        if v is None:
            msg = Const(b"")
            side = b""
        else:
            side = bytes([v])
            msg = mk_app("cat", (Const(side), payload))
        outs = ev.run_method(obj, "finish", [msg], st=st.fork())
        ctx.count("finish_evaluations")
        rets = [o for o in outs if o.kind == "return"]
        sig = (tuple(sorted({("key" if o.kind == "return" else str(o.exc)) for o in outs})))
        classes.setdefault(sig, []).append(side)
        inst = "%s[%s] side=%r" % (cname, label, side)
        if v is not None and side == PEER[cname]:
            ok = bool(rets)
            ctx.ob("S2-peer", inst, ok, "the expected peer label is accepted (outcomes: %s)" % outcomes_str(outs) if ok else
                   "a message from the expected peer side is never accepted (outcomes: %s)" % outcomes_str(outs))
            continue
        ok = not rets and bool(outs)
        if (cname, side) in OFFSIDES:
            ok = ok and all(o.exc == "OffSides" for o in outs)
            want = "raises OffSides"
        else:
            want = "raises"
        # only A/B/S/empty and failures are individually recorded; other bytes are summarised below
        if side in (b"A", b"B", b"S", b"") or not ok:
            ctx.ob("S2", inst, ok, "%s (outcomes: %s)" % (want, outcomes_str(outs)) if ok else
                   "finish() %s for a message labelled %r, expected: %s"
                   % ("returns a key" if rets else "raises " + outcomes_str(outs), side, want),
                   site=(rets[0].site if rets else outs[0].site if outs else None))
    others = [s for sig, ss in classes.items() for s in ss if s not in (b"A", b"B", b"S", b"")]
    ctx.ob("S2-other", "%s[%s] 253 other side bytes" % (cname, label), len(others) == 253,
           "all 253 other byte values were evaluated; behaviour classes: %s"
           % "; ".join("%s x%d" % ("/".join(sig), len(ss)) for sig, ss in sorted(classes.items())))
    return classes


RAW_COMPARISON = set()


def reflection(ctx, ev, cname, obj, st, label, payload, own_out):
    msg = mk_app("cat", (Const(PEER[cname]), payload))
    outs = ev.run_method(obj, "finish", [msg], st=st.fork())
    rets = [o for o in outs if o.kind == "return"]
    refl = [o for o in outs if o.kind == "raise" and o.exc == "ReflectionThwarted"]
    inst = "%s[%s]" % (cname, label)
    base = len(st.pc)
    dec_bytes = None
    accepted = []
    for t in subterms(mk_app("tuple", [o.value for o in rets])) if rets else []:
        if is_app(t, ".bytes_to_element"):     # (what exactly is decoded is C05 D5's obligation)
            accepted = [payload, mk_app(".to_bytes", (t,)), t] + list(t.args[1:])
    if not rets:
        ctx.ob("S4", inst, False, "no key-returning path to examine")
        return
    for o in rets:
        conds = [(t, p) for (t, p, _) in o.state.pc[base:]]
        hit = None
        for (t, p) in conds:
            if is_app(t, "Eq", "NotEq") and (p is False) == (t.f == "Eq"):
                a, b = t.args
                for x, y in ((a, b), (b, a)):
                    if x == own_out and y in accepted:
                        hit = (t, p)
        ok = hit is not None
        if ok and payload in hit[0].args:
            RAW_COMPARISON.add(True)      # raw bytes compared: equivalent only under canonical decoding
        ctx.ob("S4", inst, ok, "key-returning path is guarded by 'received element != own outbound element'" if ok else
               "a key-returning path of finish() does not compare the received element with the instance's own outbound message",
               site=o.site, witness=[show(t, maxdepth=5) + "=" + str(p) for t, p in conds])
        if not ok:
            continue
        # the refusal must depend on nothing but what precedes the comparison on this path
        prefix = conds[:conds.index(hit)]
        twin = False
        for r in refl:
            rc = [(t, p) for (t, p, _) in r.state.pc[base:]]
            if rc == prefix + [(hit[0], not hit[1])]:
                twin = True
        ctx.ob("S4-unconditional", inst, twin,
               "ReflectionThwarted is raised under exactly the complementary condition (no other conjunct)" if twin else
               "the reflection refusal depends on additional conditions (side, class, parameter set ...)", site=o.site)


def check(ctx, world):
    ctx.explanation = (
        "S1: start() returns cat(side constant, outbound) with side = A/B/S per class. S2: finish() is evaluated "
        "by the abstract evaluator on cat(byte, payload) for every one of the 256 byte values and on the empty "
        "message - the complete finite domain of the side byte - for the three classes, on the started fresh "
        "instance and on the instance restored by from_serialized(serialize()): a key path exists only for the "
        "expected peer byte; own-side and A/B-on-Symmetric raise OffSides; everything else raises. S4: on every key-returning path the path condition "
        "contains 'own outbound element != received element', and a ReflectionThwarted path exists whose condition "
        "differs in exactly that atom (the refusal has no other conjunct); S5: same on restored instances.")
    ctx.min_obligations = 36
    RAW_COMPARISON.clear()
    ev = session.new_ev(world)
    for cname in session.PUBLIC_CLASSES:
        for cm in session.models(world, ev, cname):
            ctx.require(cm.started, "%s.start() has no returning path" % cname)
            for s in cm.started:
                v = s.value
                side = EXPECT_SIDE[cname]
                ok = is_app(v, "cat") and v.args[0] == Const(side) and len(v.args) == 2
                ctx.ob("S1", cname, ok, "start() returns %r + outbound element bytes" % side if ok else
                       "start() does not return the side byte %r followed by the outbound message: %s" % (side, show(v, maxdepth=4)))
                if not ok:
                    continue
                own_out = v.args[1]
                payload = Sym("payload", "bytes")
                side_partition(ctx, ev, cname, cm.obj, s.state, "fresh", payload)
                reflection(ctx, ev, cname, cm.obj, s.state, "fresh", payload, own_out)
                # restored twin
                for so in session.rets(ev.run_method(cm.obj, "serialize", [], st=s.state.fork())):
                    for ro in session.rets(session.restore(world, ev, cm.cls, so.value, so.state.fork(), cm.params)):
                        if not isinstance(ro.value, Obj):
                            continue
                        side_partition(ctx, ev, cname, ro.value, ro.state, "restored", payload)
                        # the restored instance's own outbound message, as it would compute it
                        # the restored instance's own outbound message = the field that holds the
                        # outbound message on the fresh instance (C08 proves the two values equal)
                        own2 = None
                        for k, fv in s.state.heap[cm.obj.oid].items():
                            if fv == own_out and k in ro.state.heap[ro.value.oid]:
                                own2 = ro.state.heap[ro.value.oid][k]
                        if own2 is None:
                            # ... or a read-only property that yields it (e.g. re-encoding a stored element)
                            for c in cm.cls.mro():
                                for stn in c.node.body:
                                    if isinstance(stn, ast.FunctionDef) and any(isinstance(d, ast.Name) and d.id == "property" for d in stn.decorator_list):
                                        if gm.attr_of(ev, cm.obj, stn.name, s.state) == own_out and own2 is None:
                                            own2 = gm.attr_of(ev, ro.value, stn.name, ro.state)
                        ctx.require(own2 is not None, "%s: restored instance has no field holding its outbound message" % cname)
                        same = session.norm_codec(own2) == session.norm_codec(own_out)
                        ctx.ob("S5", "%s[restored]" % cname, same,
                               "the restored instance compares against the message that was originally sent" if same else
                               "the restored instance's outbound message %s differs from the one originally sent: reflection of the real message goes undetected"
                               % show(own2, maxdepth=4))
                        reflection(ctx, ev, cname, ro.value, ro.state, "restored", payload, own2)

    if RAW_COMPARISON:
        # S4-canonical: comparing the *raw* inbound bytes with the own message refuses a reflected
        # element only if every element has exactly one accepted encoding (C05 D1/D2, both groups)
        from .common import include
        include(ctx, world, "c05", "S4-canonical", keep=lambda o: o.rule in ("D1", "D2", "D2-y", "D2-sign"))
