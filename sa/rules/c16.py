"""C16 - sessions are pure and isolated under any interleaving (DESIGN 4.16).

Ownership/effect analysis over every function body of the package:
  W1  a store / mutation targets only `self` of a session class (or of any __init__)
      or an object allocated in the same function;
  W2  no assignment to a `global`;
  W3  no store to a class object or module object after import;
  W4  no mutated mutable default argument;
  W5  closed world of external names (pure stdlib/cryptography allowlist); ambient
      randomness (os.urandom) only as the default of an entropy parameter;
  W7  instances of non-session classes (elements, groups, parameter sets) are written
      only by their own constructor;
  W9  the message returned by start() and the key returned by finish() are terms over
      the session's own inputs only.
=> after import no shared object is ever written, so outputs are functions of the
constructor arguments, the entropy bytes and the inbound message for every interleaving.
"""
import ast
import builtins

from ..terms import ClassV, FuncV, ModV, ExtV, Sym, subterms, show
from ..loader import stmt_text, World
from .. import session

MUT_BUILTIN_ONLY = {"append", "extend", "insert", "setdefault", "popitem", "clear", "sort", "reverse",
                    "discard", "__setitem__", "__delitem__", "appendleft", "extendleft", "popleft",
                    "move_to_end", "difference_update", "intersection_update", "symmetric_difference_update",
                    "__setattr__", "__delattr__"}
MUT_AMBIGUOUS = {"add", "update", "pop", "remove"}

EXT_ALLOW_PREFIX = (
    "binascii", "hashlib", "hmac", "math", "itertools", "struct", "operator", "functools", "typing",
    "abc", "collections", "copy", "six", "__future__", "warnings", "codecs", "base64", "string", "enum",
    "dataclasses", "numbers", "logging", "cryptography.hazmat.primitives", "cryptography.hazmat.backends",
    "cryptography.exceptions", "json.dumps", "json.loads", "json.JSONDecodeError", "sys.version_info",
    "sys.maxsize", "sys.byteorder", "spake2._version",
)
EXT_MODULE_ONLY_OK = ("json", "sys", "os", "cryptography", "cryptography.hazmat")   # bare module reference, judged by attribute
BUILTIN_DENY = {"open", "input", "id", "hash", "exec", "eval", "compile", "globals", "locals", "vars",
                "__import__", "breakpoint", "exit", "quit", "memoryview", "delattr", "help"}
FRESH_BUILTIN_CALLS = {"list", "dict", "set", "bytearray", "object", "frozenset", "tuple", "sorted", "reversed"}
FRESH_EXT_PREFIX = ("hashlib.", "hmac.", "cryptography.hazmat.primitives", "json.loads", "collections.",
                    "copy.copy", "copy.deepcopy", "itertools.", "struct.")


def dotted(n):
    parts = []
    while isinstance(n, ast.Attribute):
        parts.append(n.attr)
        n = n.value
    if isinstance(n, ast.Name):
        parts.append(n.id)
        return list(reversed(parts))
    return None


_RF_CACHE = {}
SESSION_WRAPPERS = {}      # id(FunctionDef node of a decorator's wrapper) -> session class it stands in for


def find_session_wrappers(world, ev, session_classes):
    """Methods of session classes that carry user decorators: the decorated value (a wrapper
    closure) is evaluated once; its function node is treated as a method of that class."""
    SESSION_WRAPPERS.clear()
    for c in session_classes:
        for st in c.node.body:
            if isinstance(st, ast.FunctionDef) and any(not (isinstance(d, ast.Name) and d.id in ("classmethod", "staticmethod", "property"))
                                                       for d in st.decorator_list):
                try:
                    got = ev.getattr(c, st.name, world.static.fork(), ("<rule>", 0, st.name))
                except Exception:
                    continue
                for _, v in got:
                    from ..terms import Bound
                    f = v.func if isinstance(v, Bound) else v
                    if isinstance(f, FuncV) and f.node is not st:
                        SESSION_WRAPPERS[id(f.node)] = c


def returns_fresh(world, f, depth=0):
    """Every `return` of f yields a container allocated by that call (list/dict literal,
    comprehension, list()/dict()/... of something, concatenation of such, or a call of another
    function with the same property)."""
    k = f._key
    if k in _RF_CACHE:
        return _RF_CACHE[k]
    _RF_CACHE[k] = False
    if depth > 4:
        return False
    rets = [n for n in ast.walk(f.node) if isinstance(n, ast.Return)]
    nested = [n for n in ast.walk(f.node) if isinstance(n, (ast.FunctionDef, ast.Lambda)) and n is not f.node]
    if nested or not rets or any(r.value is None for r in rets):
        return False

    params = {a.arg for a in f.node.args.posonlyargs + f.node.args.args + f.node.args.kwonlyargs}
    assigned = {}
    for n in ast.walk(f.node):
        for t, v in (_assign_pairs(n) if isinstance(n, ast.stmt) else ()):
            if isinstance(t, ast.Name):
                assigned.setdefault(t.id, []).append(v)

    def fresh(e, d=0):
        if isinstance(e, (ast.List, ast.Dict, ast.Set, ast.ListComp, ast.DictComp, ast.SetComp)):
            return True
        if isinstance(e, ast.Name) and d < 4 and e.id not in params and assigned.get(e.id) \
                and not any(isinstance(g, ast.Global) and e.id in g.names for g in ast.walk(f.node)):
            for u in ast.walk(f.node):              # ... and not handed to anything that could keep it
                if isinstance(u, ast.Name) and u.id == e.id and isinstance(u.ctx, ast.Load):
                    up = getattr(u, "_parent", None)
                    if isinstance(up, (ast.List, ast.Tuple, ast.Set, ast.Dict, ast.Starred, ast.keyword, ast.Yield)):
                        return False
                    if isinstance(up, ast.Call) and u in up.args and isinstance(up.func, ast.Attribute):
                        return False
                    if isinstance(up, (ast.Assign, ast.AnnAssign)) and up.value is u:
                        return False
            return all(v is not None and fresh(v, d + 1) for v in assigned[e.id])     # a local bound only to fresh objects
        if isinstance(e, ast.BinOp) and isinstance(e.op, ast.Add):
            return fresh(e.left, d) or fresh(e.right, d)
        if isinstance(e, ast.Call) and isinstance(e.func, ast.Name):
            if e.func.id in FRESH_BUILTIN_CALLS and world.static_lookup(f.mod, e.func.id) is None:
                return True
            v = world.static_lookup(f.mod, e.func.id)
            if isinstance(v, FuncV) and v._key != k:
                return returns_fresh(world, v, depth + 1)
        return False
    r = all(fresh(x.value) for x in rets)
    _RF_CACHE[k] = r
    return r


class FuncInfo(object):
    def __init__(self, world, mod, qual, node, session_classes):
        self.world, self.mod, self.qual, self.node = world, mod, qual, node
        parent = getattr(node, "_parent", None)
        self.owner = mod.env.get(parent.name) if isinstance(parent, ast.ClassDef) and isinstance(mod.env.get(parent.name), ClassV) else None
        decos = {d.id for d in node.decorator_list if isinstance(d, ast.Name)}
        params = [a.arg for a in node.args.posonlyargs + node.args.args]
        self.params = set(params + [a.arg for a in node.args.kwonlyargs]
                          + ([node.args.vararg.arg] if node.args.vararg else [])
                          + ([node.args.kwarg.arg] if node.args.kwarg else []))
        self.self_name = params[0] if self.owner and params and not decos & {"staticmethod", "classmethod"} else None
        self.cls_name = params[0] if self.owner and params and "classmethod" in decos else None
        self.is_session = self.owner is not None and self.owner in session_classes
        wrapped_owner = SESSION_WRAPPERS.get(id(node))
        if wrapped_owner is not None and params:
            # the function a user decorator returns in place of a session-class method:
            # its first parameter is the session instance
            self.owner = wrapped_owner
            self.self_name = params[0]
            self.is_session = True
        # (__post_init__ is the tail of the constructor a dataclass synthesises: same standing as __init__)
        self.is_init = node.name in ("__init__", "__post_init__") and self.self_name is not None
        self.own_stmts = list(self._own(node))
        self.locals_assigned = {}
        for n in self.own_stmts:
            for t, v in _assign_pairs(n):
                if isinstance(t, ast.Name):
                    self.locals_assigned.setdefault(t.id, []).append(v)
        self.globals_decl = {nm for n in self.own_stmts if isinstance(n, ast.Global) for nm in n.names}
        self.local_names = set(self.locals_assigned) | self.params
        for n in self.own_nodes():
            if isinstance(n, ast.Name) and isinstance(n.ctx, ast.Store):
                self.local_names.add(n.id)
            elif isinstance(n, (ast.FunctionDef, ast.ClassDef)) and n is not node:
                self.local_names.add(n.name)
            elif isinstance(n, ast.ExceptHandler) and n.name:
                self.local_names.add(n.name)
            elif isinstance(n, (ast.Import, ast.ImportFrom)):
                for a in n.names:
                    self.local_names.add((a.asname or a.name).split(".")[0])

    def _own(self, node):
        """Statements of this function, not of nested functions/classes."""
        stack = list(node.body)
        while stack:
            n = stack.pop()
            yield n
            for c in ast.iter_child_nodes(n):
                if isinstance(c, ast.stmt) and not isinstance(c, (ast.FunctionDef, ast.AsyncFunctionDef, ast.ClassDef)):
                    stack.append(c)
                elif isinstance(c, ast.ExceptHandler):
                    stack.extend(c.body)

    def own_nodes(self):
        """All ast nodes of this function's own body (nested defs excluded, lambdas included)."""
        stack = list(self.node.body)
        while stack:
            n = stack.pop()
            yield n
            if isinstance(n, (ast.FunctionDef, ast.AsyncFunctionDef, ast.ClassDef)):
                continue        # a nested def: the name binding only, its body is analysed on its own
            for c in ast.iter_child_nodes(n):
                if isinstance(c, (ast.FunctionDef, ast.AsyncFunctionDef, ast.ClassDef)):
                    yield c     # the def itself (name binding), not its body
                    continue
                stack.append(c)

    # ---- freshness
    def is_fresh_expr(self, e, depth=0):
        if depth > 4:
            return False
        if isinstance(e, (ast.List, ast.Dict, ast.Set, ast.ListComp, ast.DictComp, ast.SetComp)):
            return True
        if isinstance(e, ast.Name):
            return self.is_fresh_name(e.id, depth + 1)
        if isinstance(e, ast.Call):
            f = e.func
            if isinstance(f, ast.Name):
                if f.id == self.cls_name:
                    return True
                if f.id in self.local_names:
                    return False
                v = self.world.static_lookup(self.mod, f.id)
                if isinstance(v, ClassV):
                    return True
                if isinstance(v, FuncV) and returns_fresh(self.world, v):
                    return True        # a package function whose every return value is freshly allocated
                if v is None and f.id in FRESH_BUILTIN_CALLS:
                    return True
                if isinstance(v, ExtV) and v.name.startswith(FRESH_EXT_PREFIX):
                    return True
                return False
            d = dotted(f)
            if d and d[0] not in self.local_names:
                v = self.world.static_lookup(self.mod, d[0])
                if isinstance(v, ExtV):
                    name = ".".join([v.name] + d[1:])
                    return name.startswith(FRESH_EXT_PREFIX)
                if isinstance(v, ModV) and len(d) == 2:
                    c = self.world.static_lookup(self.world.mods[v.name], d[1])
                    return isinstance(c, ClassV) or (isinstance(c, FuncV) and returns_fresh(self.world, c))
            # method call on a fresh hash object etc: x.copy()
            if isinstance(f, ast.Attribute) and f.attr in ("copy",):
                return True
        return False

    def is_fresh_name(self, name, depth=0):
        if name in self.params or name in self.globals_decl:
            return False
        vals = self.locals_assigned.get(name)
        if not vals:
            return False
        return all(v is not None and self.is_fresh_expr(v, depth) for v in vals)


def _assign_pairs(n):
    """(target, value-or-None) pairs of a statement; None = value is not a plain expression."""
    if isinstance(n, ast.Assign):
        for t in n.targets:
            if isinstance(t, (ast.Tuple, ast.List)):
                for e in t.elts:
                    yield e, None
            else:
                yield t, n.value
    elif isinstance(n, ast.AnnAssign) and n.value is not None:
        yield n.target, n.value
    elif isinstance(n, ast.AugAssign):
        yield n.target, None
    elif isinstance(n, (ast.For,)):
        yield n.target, None
    elif isinstance(n, ast.With):
        for it in n.items:
            if it.optional_vars is not None:
                yield it.optional_vars, None


class Analyzer(object):
    def __init__(self, world, session_classes):
        self.world = world
        self.session_classes = session_classes
        self.findings = []      # (rule, instance, detail, site)
        self.stats = {"functions_analysed": 0, "stores_self_session": 0, "stores_self_init": 0, "stores_fresh": 0,
                      "stores_toplevel": 0, "mutator_calls_judged": 0, "ext_refs": 0, "package_method_calls_named_like_mutators": 0,
                      "calls_of_functions_with_urandom_default": 0}
        self.pkg_methods = set()
        for c in world.classes():
            for st in c.node.body:
                if isinstance(st, ast.FunctionDef):
                    self.pkg_methods.add(st.name)
        # module-level containers
        self.mod_containers = {}
        for m in world.mods.values():
            for st in m.tree.body:
                if isinstance(st, ast.Assign) and isinstance(st.value, (ast.List, ast.Dict, ast.Set, ast.ListComp, ast.DictComp, ast.SetComp)) \
                        or (isinstance(st, ast.Assign) and isinstance(st.value, ast.Call) and isinstance(st.value.func, ast.Name)
                            and st.value.func.id in ("list", "dict", "set", "bytearray", "defaultdict", "OrderedDict", "deque")):
                    for t in st.targets:
                        if isinstance(t, ast.Name):
                            self.mod_containers[(m.name, t.id)] = st

    def report(self, rule, fi_or_mod, node, detail):
        if isinstance(fi_or_mod, FuncInfo):
            mod, qual = fi_or_mod.mod, fi_or_mod.qual
        else:
            mod, qual = fi_or_mod, "<module>"
        inst = "%s:%s:%s" % (mod.name, qual, stmt_text(node))
        self.findings.append((rule, inst, detail, (mod.relpath, getattr(node, "lineno", 0), qual)))

    # ---- attribute ownership: is self.<attr> a container created by this instance?
    def instance_owned_attr(self, cls, attr):
        for c in cls.mro():
            for st in c.node.body:
                if isinstance(st, (ast.Assign, ast.AnnAssign)):
                    tg = st.targets if isinstance(st, ast.Assign) else [st.target]
                    if any(isinstance(t, ast.Name) and t.id == attr for t in tg):
                        return False, "class-level attribute %s.%s is shared by all instances" % (c.name, attr)
        found = False
        for c in cls.mro():
            for st in c.node.body:
                if not isinstance(st, ast.FunctionDef):
                    continue
                fi = FuncInfo(self.world, c.mod, c.name + "." + st.name, st, self.session_classes)
                if fi.self_name is None:
                    continue
                for n in fi.own_stmts:
                    for t, v in _assign_pairs(n):
                        if isinstance(t, ast.Attribute) and isinstance(t.value, ast.Name) and t.value.id == fi.self_name and t.attr == attr:
                            found = True
                            if v is None or not fi.is_fresh_expr(v):
                                return False, "self.%s is bound to an object not created by the instance (%s)" % (attr, stmt_text(n))
        if not found:
            return False, "self.%s is never assigned by the instance's class" % attr
        return True, ""

    def param_owned_by_every_caller(self, fi, pname):
        """Ownership transfer: the module-level function `fi` may mutate its parameter when it is
        called only by name from inside the package, it is never used as a value, and at every call
        site the argument is an object the caller allocated itself (a fresh expression or a local
        bound only to fresh expressions) that the caller does not store anywhere.  Then the object is
        reachable from one activation only and its mutation is not observable by any other session."""
        if fi.owner is not None or isinstance(fi.node, ast.Lambda) or isinstance(getattr(fi.node, "_parent", None), (ast.FunctionDef, ast.ClassDef)):
            return False, ""
        a = fi.node.args
        if a.vararg or a.kwarg:
            return False, ""
        pos = [x.arg for x in a.posonlyargs + a.args]
        sites = 0
        for (mod, qual, node) in self.world.functions():
            cfi = None
            for n in ast.walk(node):
                if not (isinstance(n, ast.Name) and n.id == fi.node.name and isinstance(n.ctx, ast.Load)):
                    continue
                v = self.world.static_lookup(mod, n.id)
                if not (isinstance(v, FuncV) and v.node is fi.node):
                    continue
                call = getattr(n, "_parent", None)
                if not (isinstance(call, ast.Call) and call.func is n):
                    return False, "; the function is also used as a value in %s.%s" % (mod.name, qual)
                if any(isinstance(x, ast.Starred) for x in call.args) or any(k.arg is None for k in call.keywords):
                    return False, "; called with * / ** arguments in %s.%s" % (mod.name, qual)
                arg = None
                if pname in pos and pos.index(pname) < len(call.args):
                    arg = call.args[pos.index(pname)]
                for k in call.keywords:
                    if k.arg == pname:
                        arg = k.value
                if arg is None:
                    return False, "; %s.%s passes no explicit argument for it" % (mod.name, qual)
                if cfi is None:
                    cfi = FuncInfo(self.world, mod, qual, node, self.session_classes)
                if not cfi.is_fresh_expr(arg):
                    return False, "; %s.%s passes an object it did not allocate" % (mod.name, qual)
                if isinstance(arg, ast.Name):
                    # the caller's local must not be stored into anything that outlives the call
                    for u in ast.walk(node):
                        if isinstance(u, ast.Name) and u.id == arg.id and isinstance(u.ctx, ast.Load):
                            up = getattr(u, "_parent", None)
                            if isinstance(up, (ast.Assign, ast.AnnAssign)) and up.value is u and not all(isinstance(t, ast.Name) for t in getattr(up, "targets", [up.target] if hasattr(up, "target") else [])):
                                return False, "; %s.%s also stores that object" % (mod.name, qual)
                sites += 1
        # module-level code calling it (import time) is not a session
        if sites == 0:
            return False, ""
        return True, ""

    def judge_base(self, fi, base):
        """-> (ok, why).  `base` is the expression denoting the object being written."""
        if isinstance(base, ast.Attribute) and base.attr == "__dict__":
            return self.judge_base(fi, base.value)
        if isinstance(base, ast.Name):
            nm = base.id
            if nm == fi.self_name:
                if fi.is_session:
                    return True, "self-session"
                if fi.is_init:
                    return True, "self-init"
                return False, ("W7", "instance of non-session class %s is written outside its constructor "
                               "(such objects are shared between sessions)" % (fi.owner.name if fi.owner else "?"))
            if nm == fi.cls_name:
                return False, ("W3", "store to the class object '%s'" % nm)
            if nm in fi.globals_decl:
                return False, ("W2", "write through global '%s'" % nm)
            if nm in fi.params:
                ok, why = self.param_owned_by_every_caller(fi, nm)
                if ok:
                    return True, "fresh"     # every caller hands over an object it has just allocated and shares with nobody
                return False, ("W1", "mutation of parameter '%s' (an object owned by the caller%s)" % (nm, why))
            if nm in fi.locals_assigned or nm in fi.local_names:
                if fi.is_fresh_name(nm):
                    return True, "fresh"
                return False, ("W1", "'%s' is not an object allocated in this function" % nm)
            v = self.world.static_lookup(fi.mod, nm)
            if isinstance(v, ClassV):
                return False, ("W3", "store to class object %s" % v.qual)
            if isinstance(v, ModV):
                return False, ("W3", "store to module object %s" % v.name)
            return False, ("W1", "write to module-level / enclosing-scope object '%s'" % nm)
        if isinstance(base, ast.Attribute) and isinstance(base.value, ast.Name) and base.value.id == fi.self_name \
                and (fi.is_session or fi.is_init):
            ok, why = self.instance_owned_attr(fi.owner, base.attr)
            if ok:
                return True, "self-owned-container"
            return False, ("W1", why)
        if isinstance(base, ast.Attribute) and base.attr == "__class__":
            return False, ("W3", "store to a class object via __class__")
        if isinstance(base, ast.Call) and isinstance(base.func, ast.Name) and base.func.id == "type":
            return False, ("W3", "store to a class object via type()")
        if isinstance(base, ast.Call) and fi.is_fresh_expr(base):
            return True, "fresh"
        if isinstance(base, ast.Subscript):
            return self.judge_base(fi, base.value)
        try:
            txt = ast.unparse(base)
        except Exception:
            txt = type(base).__name__
        return False, ("W1", "write through '%s', an object this function did not allocate" % txt[:60])

    def receiver_is_container(self, fi, recv):
        """Is the receiver known to be a builtin container (so an ambiguous name is a mutator)?"""
        if isinstance(recv, ast.Name):
            if recv.id in fi.locals_assigned:
                vals = fi.locals_assigned[recv.id]
                return any(isinstance(v, (ast.List, ast.Dict, ast.Set, ast.ListComp, ast.DictComp, ast.SetComp))
                           or (isinstance(v, ast.Call) and isinstance(v.func, ast.Name) and v.func.id in ("list", "dict", "set", "bytearray"))
                           or (isinstance(v, ast.Call) and fi.is_fresh_expr(v) and not self._is_pkg_ctor(fi, v))
                           for v in vals if v is not None)
            if recv.id not in fi.local_names:
                v = self.world.static_lookup(fi.mod, recv.id)
                if isinstance(v, tuple) and v[0] == "assign":
                    return (v[1].name, v[2]) in self.mod_containers
            return False
        if isinstance(recv, ast.Attribute) and recv.attr == "__dict__":
            return True
        if isinstance(recv, ast.Attribute) and isinstance(recv.value, ast.Name) and recv.value.id == fi.self_name and fi.owner:
            # self.attr bound to a literal container somewhere in the class, or a class-level container
            for c in fi.owner.mro():
                for n in ast.walk(c.node):
                    for t, v in _assign_pairs(n) if isinstance(n, ast.stmt) else ():
                        tgt_attr = (isinstance(t, ast.Attribute) and t.attr == recv.attr) or (isinstance(t, ast.Name) and t.id == recv.attr and getattr(n, "_parent", None) is c.node)
                        if tgt_attr and isinstance(v, (ast.List, ast.Dict, ast.Set, ast.ListComp, ast.DictComp, ast.SetComp, ast.Call)):
                            if isinstance(v, ast.Call):
                                if isinstance(v.func, ast.Name) and v.func.id in ("list", "dict", "set", "bytearray", "defaultdict", "OrderedDict", "deque"):
                                    return True
                            else:
                                return True
            return False
        if isinstance(recv, ast.Attribute):
            # module.attr container
            d = dotted(recv)
            if d and len(d) == 2 and d[0] not in fi.local_names:
                v = self.world.static_lookup(fi.mod, d[0])
                if isinstance(v, ModV):
                    return (v.name, d[1]) in self.mod_containers
        return False

    def _is_pkg_ctor(self, fi, call):
        f = call.func
        if isinstance(f, ast.Name):
            return isinstance(self.world.static_lookup(fi.mod, f.id), ClassV) or f.id == fi.cls_name
        return False

    # ---- per function
    def analyse_function(self, fi):
        self.stats["functions_analysed"] += 1
        for n in fi.own_stmts:
            targets = []
            if isinstance(n, (ast.Assign, ast.AugAssign, ast.AnnAssign, ast.For, ast.With)):
                targets = [t for t, _ in _assign_pairs(n)]
            elif isinstance(n, ast.Delete):
                targets = list(n.targets)
            for t in targets:
                self.judge_target(fi, n, t)
            if isinstance(n, ast.Global):
                pass
        # global assignment (W2)
        for n in fi.own_stmts:
            for t, _ in _assign_pairs(n):
                if isinstance(t, ast.Name) and t.id in fi.globals_decl:
                    self.report("W2", fi, n, "assignment to module-level name '%s' declared global: module state written after import" % t.id)
        # mutator calls / setattr
        for n in fi.own_nodes():
            if isinstance(n, ast.Call):
                self.judge_call(fi, n)
        # mutable default arguments that are mutated (W4) are reported by W1 on the parameter;
        # add the default-specific message
        a = fi.node.args
        names = [x.arg for x in a.args]
        for nm, d in list(zip(names[len(names) - len(a.defaults):], a.defaults)) + \
                [(x.arg, d) for x, d in zip(a.kwonlyargs, a.kw_defaults) if d is not None]:
            if isinstance(d, (ast.List, ast.Dict, ast.Set)) or (isinstance(d, ast.Call) and isinstance(d.func, ast.Name) and d.func.id in ("list", "dict", "set")):
                if self._param_mutated(fi, nm):
                    self.report("W4", fi, fi.node, "mutable default argument '%s' is mutated: state shared by every call" % nm)

    def _param_mutated(self, fi, nm):
        for n in fi.own_nodes():
            if isinstance(n, ast.Subscript) and isinstance(n.ctx, (ast.Store, ast.Del)) and isinstance(n.value, ast.Name) and n.value.id == nm:
                return True
            if isinstance(n, ast.Call) and isinstance(n.func, ast.Attribute) and isinstance(n.func.value, ast.Name) \
                    and n.func.value.id == nm and n.func.attr in MUT_BUILTIN_ONLY | MUT_AMBIGUOUS:
                return True
        return False

    _ITER_BUILTINS = ("iter", "zip", "map", "filter", "enumerate", "reversed")

    def _is_iterator_expr(self, fi, e):
        if e is None:
            return False
        if isinstance(e, ast.GeneratorExp):
            return True
        if isinstance(e, ast.Call):
            d = dotted(e.func)
            if d and len(d) == 1 and d[0] in self._ITER_BUILTINS and d[0] not in fi.local_names and self.world.static_lookup(fi.mod, d[0]) is None:
                return True
            if d:
                v = self.world.static_lookup(fi.mod, d[0])
                if isinstance(v, ExtV) and ".".join([v.name] + d[1:]).startswith("itertools."):
                    return True
                if isinstance(v, FuncV) and len(d) == 1 and any(isinstance(x, (ast.Yield, ast.YieldFrom)) for x in ast.walk(v.node)):
                    return True              # a call of a package generator function
        return False

    def judge_target(self, fi, stmt, t):
        if isinstance(t, (ast.Tuple, ast.List)):
            for e in t.elts:
                self.judge_target(fi, stmt, e)
            return
        if isinstance(t, ast.Starred):
            return self.judge_target(fi, stmt, t.value)
        if isinstance(t, ast.Name):
            return
        if isinstance(t, (ast.Attribute, ast.Subscript)):
            ok, why = self.judge_base(fi, t.value)
            if ok and why == "self-init" and not fi.is_session and isinstance(stmt, (ast.Assign, ast.AnnAssign)) \
                    and self._is_iterator_expr(fi, getattr(stmt, "value", None)):
                # a single-pass iterator kept on an object that sessions share: every consumer advances it,
                # so what one session sees depends on how many others ran before (a hidden write)
                self.report("W1", fi, stmt, "a single-pass iterator (%s) is stored on an instance of the shared class %s: consuming it "
                            "mutates state shared between sessions" % (ast.unparse(stmt.value)[:50], fi.owner.name if fi.owner else "?"))
                return
            if ok:
                key = {"self-session": "stores_self_session", "self-init": "stores_self_init"}.get(why, "stores_fresh")
                self.stats[key] += 1
            else:
                self.report(why[0], fi, stmt, why[1])

    def judge_call(self, fi, n):
        f = n.func
        if isinstance(f, ast.Name) and f.id in ("setattr", "delattr") and f.id not in fi.local_names and n.args:
            ok, why = self.judge_base(fi, n.args[0])
            if not ok:
                self.report(why[0], fi, n, why[1] + " (via %s)" % f.id)
            return
        if not isinstance(f, ast.Attribute):
            return
        name = f.attr
        if name in ("__setattr__", "__delattr__") and isinstance(f.value, ast.Name) and f.value.id == "object" \
                and "object" not in fi.local_names and n.args:
            # object.__setattr__(o, name, v): the frozen-dataclass spelling of a store on o
            ok, why = self.judge_base(fi, n.args[0])
            if not ok:
                self.report(why[0], fi, n, why[1] + " (via object.%s)" % name)
            return
        if name not in MUT_BUILTIN_ONLY and name not in MUT_AMBIGUOUS:
            return
        recv = f.value
        if name in MUT_AMBIGUOUS and not self.receiver_is_container(fi, recv):
            if name in self.pkg_methods:
                self.stats["package_method_calls_named_like_mutators"] += 1
                return        # the package's own method of that name; its body is analysed on its own
            # unknown receiver with an ambiguous name: hash objects (update) etc.
            ok, why = self.judge_base(fi, recv)
            if ok:
                self.stats["mutator_calls_judged"] += 1
                return
            if isinstance(recv, ast.Name) and recv.id in fi.params:
                self.report("W1", fi, n, "call of mutator .%s() on parameter '%s'" % (name, recv.id))
            return
        if name in MUT_BUILTIN_ONLY and name in self.pkg_methods and not self.receiver_is_container(fi, recv):
            self.stats["package_method_calls_named_like_mutators"] += 1
            return
        ok, why = self.judge_base(fi, recv)
        self.stats["mutator_calls_judged"] += 1
        if not ok:
            self.report(why[0], fi, n, why[1] + " (mutating call .%s())" % name)

    # ---- W5 external names
    def ext_refs(self):
        for m in self.world.mods.values():
            scopes = [(None, m.tree)]
            funcs = {id(node): FuncInfo(self.world, mod, qual, node, self.session_classes)
                     for (mod, qual, node) in self.world.functions() if mod is m}
            default_nodes = set()
            for (mod, qual, node) in self.world.functions():
                if mod is m:
                    for d in node.args.defaults + [x for x in node.args.kw_defaults if x is not None]:
                        for x in ast.walk(d):
                            default_nodes.add(id(x))
            for n in ast.walk(m.tree):
                if isinstance(n, ast.Attribute) and isinstance(getattr(n, "_parent", None), ast.Attribute) and getattr(n._parent, "value", None) is n:
                    continue    # inner part of a longer dotted chain
                if isinstance(n, ast.Name) and isinstance(getattr(n, "_parent", None), ast.Attribute) and n._parent.value is n:
                    continue
                if not isinstance(n, (ast.Name, ast.Attribute)) or not isinstance(n.ctx, ast.Load):
                    continue
                d = dotted(n)
                if not d:
                    continue
                fi = self._enclosing(n, funcs)
                if fi is not None and d[0] in fi.local_names:
                    continue
                # names local to an enclosing function chain
                p = fi
                shadow = False
                while p is not None:
                    if d[0] in p.local_names:
                        shadow = True
                        break
                    p = self._enclosing(p.node, funcs)
                if shadow:
                    continue
                v = self.world.static_lookup(m, d[0])
                where = fi if fi is not None else m
                if v is None:
                    if len(d) == 1 and d[0] == "memoryview" and self._readonly_view(n, fi):
                        continue
                    if len(d) == 1 and hasattr(builtins, d[0]) and d[0] in BUILTIN_DENY:
                        self.stats["ext_refs"] += 1
                        self.report("W5", where, n, "builtin '%s' is an unvetted effect/ambient-state source" % d[0])
                    continue
                if not isinstance(v, ExtV):
                    continue
                self.stats["ext_refs"] += 1
                name = ".".join([v.name] + d[1:])
                if name == "os.urandom":
                    if id(n) in default_nodes:
                        continue
                    self.report("W5", where, n, "ambient randomness os.urandom used outside an entropy_f default: "
                                "output is no longer a function of the session's entropy function")
                    continue
                if name in EXT_MODULE_ONLY_OK or any(name == p or name.startswith(p + ".") for p in EXT_ALLOW_PREFIX):
                    continue
                self.report("W5", where, n, "reference to external name '%s' outside the vetted pure allowlist "
                            "(ambient state / unvetted effect)" % name)

    @staticmethod
    def _readonly_view(n, fi):
        """memoryview(x) used only to *inspect* a buffer: called directly, bound to one local (or used
        in place), and that local only read through attributes / .tobytes() / len() / bytes() - never
        subscripted for a store, passed on, returned or stored.  Such a view aliases nothing observable."""
        call = getattr(n, "_parent", None)
        if not (isinstance(call, ast.Call) and call.func is n and len(call.args) == 1 and not call.keywords) or fi is None:
            return False
        par = getattr(call, "_parent", None)
        if isinstance(par, ast.Attribute) and isinstance(par.ctx, ast.Load):
            return True                       # memoryview(x).nbytes / .tobytes()
        if isinstance(par, ast.Call) and call in par.args and ast.unparse(par.func) in ("int.from_bytes", "bytes", "binascii.hexlify", "len"):
            return True                       # int.from_bytes(memoryview(x), ...): read once by a pure conversion
        if isinstance(par, ast.withitem) and par.context_expr is call and isinstance(par.optional_vars, ast.Name):
            bound = par.optional_vars                  # with memoryview(x) as view:
        elif isinstance(par, ast.Assign) and len(par.targets) == 1 and isinstance(par.targets[0], ast.Name) and par.value is call:
            bound = par.targets[0]
        else:
            return False
        name = bound.id
        for u in ast.walk(fi.node):
            if isinstance(u, ast.Name) and u.id == name and u is not bound:
                up = getattr(u, "_parent", None)
                if isinstance(u.ctx, ast.Load) and isinstance(up, ast.Attribute) and up.value is u and isinstance(up.ctx, ast.Load):
                    continue
                if isinstance(u.ctx, ast.Load) and isinstance(up, ast.Call) and isinstance(up.func, ast.Name) and up.func.id in ("len", "bytes") \
                        and up.args == [u]:
                    continue
                if isinstance(u.ctx, ast.Load) and isinstance(up, ast.Call) and u in up.args and ast.unparse(up.func) in ("int.from_bytes", "bytes", "binascii.hexlify"):
                    continue                           # read by a pure conversion
                return False
        return True

    def _enclosing(self, n, funcs):
        p = getattr(n, "_parent", None)
        while p is not None:
            if id(p) in funcs:
                # default values and decorators belong to the enclosing scope
                return funcs[id(p)]
            p = getattr(p, "_parent", None)
        return None

    def entropy_defaults(self):
        """W5b: a package function whose parameter defaults to os.urandom must be given that
        argument at every call inside the package: an omitted argument silently replaces the
        session's entropy function by ambient randomness."""
        targets = {}      # function name -> (param index, param name, qual)
        for (mod, qual, node) in self.world.functions():
            a = node.args
            names = [x.arg for x in a.args]
            for nm, d in zip(names[len(names) - len(a.defaults):], a.defaults):
                dd = dotted(d)
                if dd and len(dd) == 2 and dd[1] == "urandom":
                    v = self.world.static_lookup(mod, dd[0])
                    if isinstance(v, ExtV) and v.name == "os":
                        is_method = isinstance(getattr(node, "_parent", None), ast.ClassDef)
                        idx = names.index(nm) - (1 if is_method else 0)
                        targets.setdefault(node.name, []).append((idx, nm, mod.name + "." + qual, is_method))
        n_sites = 0
        for (mod, qual, node) in self.world.functions():
            fi = None
            for c in ast.walk(node):
                if not isinstance(c, ast.Call):
                    continue
                fname = c.func.id if isinstance(c.func, ast.Name) else c.func.attr if isinstance(c.func, ast.Attribute) else None
                cands = targets.get(fname)
                if fname == "__init__" and isinstance(c.func, ast.Attribute):
                    cands = targets.get("__init__")
                    # Base.__init__(self, ...): explicit self shifts positions by one
                    shift = 1
                else:
                    shift = 0
                if not cands:
                    # constructor call ClassName(...) / klass(...)
                    if isinstance(c.func, ast.Name):
                        v = self.world.static_lookup(mod, c.func.id)
                        if isinstance(v, ClassV):
                            r = v.lookup("__init__")
                            if r and r[0] == "func":
                                cands = [t for t in targets.get("__init__", []) if t[2].endswith(r[2].name + ".__init__")]
                    if not cands:
                        continue
                if isinstance(c.func, ast.Name) and fname in targets:
                    v = self.world.static_lookup(mod, fname)
                    if not isinstance(v, FuncV):
                        continue
                if any(k.arg is None for k in c.keywords) or any(isinstance(a_, ast.Starred) for a_ in c.args):
                    continue
                n_sites += 1
                for (idx, nm, tq, is_method) in cands:
                    given = len(c.args) - shift > idx or any(k.arg == nm for k in c.keywords)
                    if not given:
                        self.findings.append(("W5", "%s:%s:%s" % (mod.name, qual, stmt_text(c)),
                                              "call of %s without its '%s' argument: the default os.urandom replaces the session's entropy function" % (tq, nm),
                                              (mod.relpath, c.lineno, qual)))
                        break
        self.stats["calls_of_functions_with_urandom_default"] = n_sites

    def toplevel(self):
        """W6: module top-level stores are import-time initialisation (counted, exempt)."""
        for m in self.world.mods.values():
            for st in m.tree.body:
                for n in ast.walk(st):
                    if isinstance(n, (ast.FunctionDef, ast.ClassDef)):
                        break
                if isinstance(st, (ast.Assign, ast.AugAssign)):
                    for t, _ in _assign_pairs(st):
                        if isinstance(t, (ast.Attribute, ast.Subscript)):
                            self.stats["stores_toplevel"] += 1


def session_class_set(world, ev):
    s = set()
    for nm in session.PUBLIC_CLASSES:
        c = session.public_class(world, ev, nm)
        s.update(c.mro())
    return s


def run_analyzer(world, session_classes):
    _RF_CACHE.clear()
    an = Analyzer(world, session_classes)
    for (mod, qual, node) in world.functions():
        an.analyse_function(FuncInfo(world, mod, qual, node, session_classes))
    an.ext_refs()
    an.entropy_defaults()
    an.toplevel()
    return an


FIXTURE = {
    "spake2": "from .spake2 import SPAKE2_A, SPAKE2_B, SPAKE2_Symmetric\n",
    "spake2.spake2": '''
import time, os
CACHE = {}
COUNT = 0
class P:
    def __init__(self, g):
        self.g = g
    def poke(self):
        self.seen = 1            # W7
class _Base:
    shared = []
    def __init__(self, pw, params, entropy_f=os.urandom):
        self.pw = pw; self.params = params; self.mine = {}
    def start(self):
        global COUNT
        COUNT = COUNT + 1        # W2
        CACHE[self.pw] = 1       # W1 module container
        self.params.cache = 2    # W1 foreign attribute
        self.shared.append(1)    # W1 class-level container
        self.mine["k"] = 1       # ok
        _Base.side = 3           # W3
        t = time.time()          # W5
        r = os.urandom(4)        # W5 ambient randomness
        x = []
        x.append(t)              # ok fresh
        return b""
    def finish(self, m, memo={}):
        memo[m] = 1              # W4 + W1
        return b""
class SPAKE2_A(_Base): pass
class SPAKE2_B(_Base): pass
class SPAKE2_Symmetric(_Base): pass
''',
}
FIXTURE_EXPECT = {"W1": 4, "W2": 1, "W3": 1, "W4": 1, "W5": 2, "W7": 1}


def positive_control(ctx):
    w = World(sources=FIXTURE)
    sess = set()
    for nm in session.PUBLIC_CLASSES:
        sess.update(w.mods["spake2.spake2"].env[nm].mro())
    an = run_analyzer(w, sess)
    got = {}
    for (rule, inst, detail, site) in an.findings:
        got[rule] = got.get(rule, 0) + 1
    for rule, n in sorted(FIXTURE_EXPECT.items()):
        ctx.require(got.get(rule, 0) >= n,
                    "positive control lost: rule %s reports %d findings on the built-in fixture, expected >= %d (got %r)"
                    % (rule, got.get(rule, 0), n, got))
    ctx.count("positive_control_findings", sum(got.values()))


def check(ctx, world):
    ctx.explanation = (
        "Ownership/effect analysis over every function body of src/spake2 (tests and _version excluded): "
        "each attribute/subscript store, del, augmented assignment, setattr and mutating-method call is "
        "resolved to the object it writes and must target `self` of a session class (or of a constructor) or an "
        "object allocated in the same function; no global assignment, no store to class/module objects after "
        "import, no mutated mutable default; every reference to a name outside the package must be on a vetted "
        "pure allowlist (os.urandom only as an entropy_f default). Plus: the start() message and finish() key "
        "terms of the three public classes mention only the session's own inputs. Consequence: no shared "
        "mutable location exists after import, so outputs are functions of constructor arguments, entropy bytes "
        "and the inbound message for every interleaving and any number of threads. A built-in fixture with one "
        "violation per rule must be reported on every run (positive control for zero-count rules).")
    ctx.min_obligations = 60
    positive_control(ctx)
    ev = session.new_ev(world)
    sess = session_class_set(world, ev)
    find_session_wrappers(world, ev, sess)
    an = run_analyzer(world, sess)
    bad = {}
    for (rule, inst, detail, site) in an.findings:
        bad[(rule, inst)] = (detail, site)
    # one obligation per analysed function and rule family (so evidence shows what was covered)
    per_func = {}
    for (rule, inst, detail, site) in an.findings:
        per_func.setdefault(site[2] + "@" + site[0], []).append((rule, inst, detail, site))
    for (mod, qual, node) in world.functions():
        k = qual + "@" + mod.relpath
        fl = per_func.pop(k, [])
        if not fl:
            ctx.ob("W1-W4,W7", "%s:%s" % (mod.name, qual), True,
                   "all writes target the session's self, a constructor's self or locally allocated objects",
                   (mod.relpath, node.lineno, qual))
        for (rule, inst, detail, site) in fl:
            ctx.ob(rule, inst, False, detail, site)
    for k, fl in per_func.items():     # module-level findings (W5 at top level)
        for (rule, inst, detail, site) in fl:
            ctx.ob(rule, inst, False, detail, site)
    ctx.ob("W5", "external-names", not any(r == "W5" for (r, _, _, _) in an.findings),
           "%d references to names outside the package, all on the pure allowlist" % an.stats["ext_refs"])
    for k, v in an.stats.items():
        ctx.count(k, v)
    ctx.count("session_classes", len(sess))

    # ---- W9: outputs are terms over the session's own inputs
    for cname in session.PUBLIC_CLASSES:
        for cm in session.models(world, ev, cname):
            w9(ctx, cname, cm)


def w9(ctx, cname, cm):
    if True:
        allowed = {"pw", "G", "entropy_f", "msg"} | {v.n for v in cm.syms.values() if isinstance(v, Sym)}
        for s in cm.started:
            extra = [x for x in session.free_syms(s.value) if x not in allowed]
            ctx.ob("W9", "%s.start" % cname, not extra and not _ambient(s.value),
                   "message term mentions only constructor inputs and entropy" if not extra else "foreign symbols %r" % extra,
                   witness=show(s.value))
        for outs in cm.finish:
            for o in session.rets(outs):
                extra = [x for x in session.free_syms(o.value) if x not in allowed]
                amb = _ambient(o.value)
                ctx.ob("W9", "%s.finish" % cname, not extra and not amb,
                       "key term mentions only constructor inputs, entropy and the inbound message" if not (extra or amb)
                       else "foreign symbols %r / ambient calls %r" % (extra, amb), witness=show(o.value))
        ctx.count("session_paths", len(cm.start) + sum(len(x) for x in cm.finish))


def _ambient(t):
    bad = []
    from ..terms import App
    for x in subterms(t):
        if isinstance(x, App) and (x.f.split(".")[0] in ("time", "random", "secrets", "os", "uuid", "threading", "datetime", "socket")
                                   or x.f in ("id", "hash", "open")):
            bad.append(x.f)
        if isinstance(x, ExtV) and x.name.split(".")[0] in ("time", "random", "secrets", "os", "uuid"):
            bad.append(x.name)
    return sorted(set(bad))
