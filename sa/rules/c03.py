"""C03 - messages and keys conform to the published SPAKE2 definition (DESIGN 4.3).

A conjunction: the property's clauses are the obligations of the rule sets that own
them (algebra C01, message form C04, transcript C17, derivations C14, codecs C15,
constants C18, restored instances C08) plus the wire facts below."""
from ..terms import Const, Obj, App, mk_app, is_app, show, subterms
from ..poly import Poly
from ..linform import Interp, Lin, P521, encoded_element
from .. import session, groupmodel as gm
from .common import include
from . import c18

SIDE = {"SPAKE2_A": b"A", "SPAKE2_B": b"B", "SPAKE2_Symmetric": b"S"}
ROLE = {"SPAKE2_A": ("M", "N"), "SPAKE2_B": ("N", "M"), "SPAKE2_Symmetric": ("S", "S")}


def published_forms(ctx, cname, cm):
    """out = x*G + w*Blind and K = x*(In - w*Unblind) with the published x, w, Blind, Unblind, In."""
    pf = cm.st_new.heap[cm.params.oid]
    G = pf["group"]
    ip = Interp()
    ip.atom_e(mk_app("getattr", (G, Const("Base"))), "G")
    blind, unblind = ROLE[cname]
    nblind = ip.atom_e(pf[blind])
    nunblind = ip.atom_e(pf[unblind])
    ip.atom_s(mk_app(".random_scalar", (G, cm.syms["entropy_f"])), "x")
    ip.atom_s(mk_app(".password_to_scalar", (G, cm.syms["password"])), "w")
    nin = ip.atom_e(mk_app(".bytes_to_element", (G, session.payload_of(cm.msg))), "In")
    X, W = Poly.var(P521, "x"), Poly.var(P521, "w")
    for s, outs in zip(cm.started, cm.finish):
        _, out = session.outbound_of(cm, s)
        E = encoded_element(out) if out is not None else None
        ok = E is not None and ip.elem(E) == Lin({"G": X}) + Lin({nblind: W})
        ctx.ob("Out-form", cname, ok, "message element = x*G + w*%s, x = random_scalar(entropy_f), w = password_to_scalar(password)" % blind if ok else
               "message element is %s, published: x*G + w*%s" % (ip.elem(E).show(ip.names()) if E is not None else show(out, maxdepth=3), blind), s.site)
        for o in session.rets(outs):
            v = o.value
            K = v.args[0].args[-1] if is_app(v, "H") and is_app(v.args[0], "cat") else None
            Ke = encoded_element(K) if K is not None else None
            decs = {t._key: t for t in subterms(Ke) if is_app(t, ".bytes_to_element")} if Ke is not None else {}
            if len(decs) == 1:          # what exactly is decoded is C05 D5's obligation
                nin = ip.atom_e(list(decs.values())[0], "In")
            ok = Ke is not None and ip.elem(Ke) == Lin({nin: X}) + Lin({nunblind: -(X * W)})
            ctx.ob("K-form", cname, ok, "K = encode(x*(In - w*%s)) with In = bytes_to_element(payload)" % unblind if ok else
                   "shared element is %s, published: x*(In - w*%s)" % (ip.elem(Ke).show(ip.names()) if Ke is not None else None, unblind), o.site)


def defaults(ctx, world, ev):
    """S-defaults: an identity argument that is omitted means the empty string (released API: a peer that omits
    idA/idB/idSymmetric interoperates with one that passes b"").  Decided by constructing each class twice on the
    same state - identities omitted, identities b"" - and comparing the two instances field by field."""
    for cname in session.PUBLIC_CLASSES:
        cls = session.public_class(world, ev, cname)
        st0, params = session.build_params(world, ev, world.static.fork())
        kw, syms = session.ctor_args(cls, params)
        ids = [n for (n, v) in kw if n.startswith("id")]
        first = ev.next_oid[0]
        ra = session.rets(ev.run(cls, [], [(n, v) for (n, v) in kw if n not in ids], st0.fork()))
        rb = session.rets(ev.run(cls, [], [(n, Const(b"") if n in ids else v) for (n, v) in kw], st0.fork()))
        init = cls.lookup("__init__")
        site = (init[2].mod.relpath, init[1].lineno, cname + ".__init__") if init and init[0] == "func" else None
        if len(ra) != 1 or len(rb) != 1:
            ctx.ob("S-defaults", cname, False, "%s cannot be constructed without identity arguments (%d / %d construction paths)" % (cname, len(ra), len(rb)), site)
            continue

        def same(sa_, a, sb_, b, depth=0):
            if isinstance(a, Obj) and isinstance(b, Obj) and a.oid >= first and b.oid >= first and depth < 4:
                fa, fb = sa_.heap[a.oid], sb_.heap[b.oid]
                return a.cls is b.cls and set(fa) == set(fb) and all(same(sa_, fa[k], sb_, fb[k], depth + 1) for k in fa)
            return a == b
        diff = []
        fa, fb = ra[0].state.heap[ra[0].value.oid], rb[0].state.heap[rb[0].value.oid]
        for k in sorted(set(fa) | set(fb)):
            if k not in fa or k not in fb or not same(ra[0].state, fa[k], rb[0].state, fb[k]):
                diff.append("%s: %s / %s" % (k, show(fa.get(k), maxdepth=3) if k in fa else "-", show(fb.get(k), maxdepth=3) if k in fb else "-"))
        ctx.ob("S-defaults", cname, not diff, "omitting %s gives the same instance as passing b\"\"" % "/".join(ids) if not diff else
               "an omitted identity is not the empty string (field: omitted / b\"\"): %s" % diff, site)


def check(ctx, world):
    ctx.explanation = (
        "Comparison of normal forms and folded constant values with the released 0.7+ wire format. Own facts: the start() "
        "message is cat(side, element.to_bytes()) with side = A/B/S; for each shipped parameter set 1 + element_size_bytes = "
        "33/129/257/385 with element_size_bytes the folded value held by the group object. Included rule sets (re-run on this "
        "tree, obligations listed under their prefix): C04 I2 (message = x*G + w*Blind with x exactly the sampled scalar), K-form (K = x*(In - w*Unblind), below), C17 (transcript layout and slot binding), C14 (HKDF derivations, seeds, M/N/S reproduced), C15 "
        "(fixed-width codecs, endianness), C18 (group and curve constants equal the released ones), C08 (restored instances "
        "produce the same terms). Only byte-affecting edits change a normal form or a folded value.")
    ctx.min_obligations = 150
    ev = session.new_ev(world)
    for cname in session.PUBLIC_CLASSES:
        for cm in session.models(world, ev, cname):
            for s in cm.started:
                v = s.value
                ok = is_app(v, "cat") and len(v.args) == 2 and v.args[0] == Const(SIDE[cname]) and is_app(v.args[1], ".to_bytes")
                ctx.ob("S1", cname, ok, "start() = %r + element.to_bytes()" % SIDE[cname] if ok else
                       "start() message is %s" % show(v, maxdepth=4), s.site)
            published_forms(ctx, cname, cm)
    defaults(ctx, world, ev)
    sp = gm.shipped_params(world, ev)
    S = c18.spec()["message_lengths"]
    for label, (pobj, g) in sorted(sp.items()):
        w = gm.attr_of(ev, g, "element_size_bytes", world.static)
        ok = isinstance(w, Const) and w.v + 1 == S[label]
        ctx.ob("S-length", label, ok, "message length 1 + %s = %d bytes" % (show(w), S[label]) if ok else
               "element_size_bytes of %s is %s; released message length is %d" % (label, show(w), S[label]))
    include(ctx, world, "c04", "C04", keep=lambda o: o.rule in ("I2-enc", "I2-form", "I2-published", "I3"))
    include(ctx, world, "c17", "C17")
    include(ctx, world, "c14", "C14")
    include(ctx, world, "c15", "C15", keep=lambda o: not o.rule.endswith("-width") or o.rule in ("K1-width", "K4-width"))
    include(ctx, world, "c18", "C18", keep=lambda o: not o.rule.startswith("D-") and o.rule != "N-ctor-assert")
    include(ctx, world, "c08", "C08", keep=lambda o: o.rule in ("Z4", "Z3-total"))
    # "for restored instances": a restored instance computes the published key for the session its state describes only if
    # the reader takes every field from the value stored under its own key, whatever the order of the stored object's members
    include(ctx, world, "c10", "C10", keep=lambda o: o.rule in ("R-order", "R-order-field"))
    # the element operations the protocol uses compute the group operation and handle the identity
    # (otherwise encode(x*(In - w*N)) is not the published K for the inputs that reach those cases)
    include(ctx, world, "c13", "C13", keep=lambda o: o.rule in ("G1-add", "G1-scalarmult", "G1-zero", "G3-sum", "G3-modL", "G3-identity", "G6", "G7", "G7-repr")
            or o.rule.startswith("G5/") or (o.rule == "G3-closure" and (o.instance.startswith("add(") or o.instance.startswith("scalarmult("))))
    include(ctx, world, "c12", "C12", keep=lambda o: o.rule.endswith("-law") or o.rule.endswith("-denominator") or o.rule == "P4")
    # B3 of C02: the password reaches the scalar unmodified (a wire-visible derivation)
    include(ctx, world, "c02", "C02", keep=lambda o: o.rule.startswith("B3"))
