"""C13 - group elements obey the group axioms through the element API (DESIGN 4.13).

G1 integer-group term forms; G2 value equality resolves to package definitions that
compare values; G3 Ed25519 element-kind closure table by abstract evaluation;
G4 negate is multiplication by -1 (mod L); G5/G8 preconditions of the fast ladder
(shared with C12 P6); G6 ladder induction step; G7 identity detection."""
import ast

from ..terms import Const, Sym, App, TupleV, Obj, FuncV, ClassV, mk_app, is_app, show, subterms
from ..loader import AnalysisError
from ..poly import Poly, term_poly
from ..evalr import Ev, Policy
from .c05 import has_eq
from .. import session, groupmodel as gm


# ----------------------------------------------------------------------------- integer groups

def integer(ctx, world, ev):
    st, g, syms = gm.symbolic_int_group(world, ev)
    p, q, gg = syms["p"], syms["q"], syms["g"]
    f = st.heap[g.oid]
    zero, base = f.get("Zero"), f.get("Base")
    ctx.require(isinstance(zero, Obj) and isinstance(base, Obj), "anchor vanished: integer group Zero/Base elements")
    ecls = base.cls
    gname = g.cls.name

    def val(s, o):
        return [v for k, v in s.heap[o.oid].items() if v != g]

    def fields(s, o):
        return ", ".join("%s=%s" % (k, "<group>" if v == g else show(v, maxdepth=3)) for k, v in sorted(s.heap[o.oid].items()))

    def holds(s, o, value):
        """o has exactly Base's fields: the group where Base holds the group, `value` where Base holds g"""
        return dict(s.heap[o.oid]) == {k: (g if v == g else value) for k, v in st.heap[base.oid].items()}

    ok = val(st, zero) == [Const(1)] and holds(st, zero, Const(1))
    ctx.ob("G1-zero", gname + ".Zero", ok, "identity element is the residue 1" if ok else "Zero is not the residue 1: %s" % fields(st, zero))
    ok = val(st, base) == [gg]
    ctx.ob("G1-base", gname + ".Base", ok, "Base is the generator g" if ok else "Base is not the constructor's g: %s" % val(st, base))

    def mk(s, sym):
        e = ev.new_obj(ecls, s)
        for k, v in st.heap[base.oid].items():
            s.heap[e.oid][k] = g if v == g else sym
        return e
    s1 = st.fork()
    a, b, n = Sym("a", "int"), Sym("b", "int"), Sym("n", "int")
    e1, e2 = mk(s1, a), mk(s1, b)
    # add
    outs = ev.run_method(e1, "add", [e2], st=s1.fork())
    rets = session.rets(outs)
    want = mk_app("Mod", (mk_app("Mult", (a, b)), p))
    ok = len(rets) == 1 and len(outs) == 1 and isinstance(rets[0].value, Obj) and rets[0].value.cls is ecls \
        and val(rets[0].state, rets[0].value) == [want] and holds(rets[0].state, rets[0].value, want) \
        and rets[0].value not in (e1, e2)
    ctx.ob("G1-add", gname + " add", ok, "e1.add(e2) is a fresh element of the same group holding (a*b) % p; total on elements" if ok else
           "e1.add(e2) is not a fresh element holding (a*b) mod p on exactly one non-raising path: %s"
           % [(o.kind, o.exc or (fields(o.state, o.value) if isinstance(o.value, Obj) else show(o.value))) for o in outs],
           _msite(ecls, "add"))
    # scalarmult
    outs = ev.run_method(e1, "scalarmult", [n], st=s1.fork())
    rets = session.rets(outs)
    wants = [mk_app("pow", (a, mk_app("Mod", (n, q)), p)), mk_app("pow", (a, n, p))]
    ok = len(rets) == 1 and len(outs) == 1 and isinstance(rets[0].value, Obj) and rets[0].value.cls is ecls \
        and len(val(rets[0].state, rets[0].value)) == 1 and val(rets[0].state, rets[0].value)[0] in wants \
        and holds(rets[0].state, rets[0].value, val(rets[0].state, rets[0].value)[0])
    ctx.ob("G1-scalarmult", gname + " scalarmult", ok,
           "e.scalarmult(n) is a fresh element holding pow(a, n mod q, p) for every integer n (no sign/range condition)" if ok else
           "e.scalarmult(n) is not pow(a, n mod q, p) on exactly one non-raising path: %s"
           % [(o.kind, o.exc or (fields(o.state, o.value) if isinstance(o.value, Obj) else show(o.value))) for o in outs],
           _msite(ecls, "scalarmult"))
    # the order the group reports is the q its arithmetic reduces by ("depends only on n mod q")
    if g.cls.lookup("order"):
        outs = ev.run_method(g, "order", [], st=st.fork())
        ok = len(outs) == 1 and outs[0].kind == "return" and outs[0].value == q
        ctx.ob("G1-order", gname + ".order", ok, "order() is the q that scalarmult reduces by" if ok else
               "order() returns %s, scalar multiplication reduces by q" % [show(o.value, maxdepth=3) for o in outs], _msite(g.cls, "order"))
    # equality
    equality(ctx, world, ev, ecls, s1, e1, e2, a, b, "integer")
    return ecls


def _msite(cls, name):
    r = cls.lookup(name)
    if r and r[0] == "func":
        return (r[2].mod.relpath, r[1].lineno, r[2].name + "." + name)
    return (cls.mod.relpath, cls.node.lineno, cls.name)


def equality(ctx, world, ev, ecls, st, e1, e2, a, b, label):
    """G2: == and != resolve to package definitions that compare the value."""
    for dn, op in (("__eq__", "Eq"), ("__ne__", "NotEq")):
        r = ecls.lookup(dn)
        inst = "%s.%s" % (ecls.name, dn)
        derived = dn == "__ne__" and (r is None or r[0] != "func") and (ecls.lookup("__eq__") or (None,))[0] == "func"
        if derived:
            pass     # Python 3: without a __ne__ of its own, != is the negation of the class's __eq__ (evaluated below)
        elif r is None or r[0] != "func":
            ctx.ob("G2", inst, False,
                   "%s defines no %s: '%s' on elements is object identity, not value equality (the interface promises e1 == e2)"
                   % (ecls.name, dn, "==" if op == "Eq" else "!="), (ecls.mod.relpath, ecls.node.lineno, ecls.name))
            continue
        pol = Policy(world)
        tb = ecls.lookup("to_bytes")
        if tb and tb[0] == "func" and label != "integer":
            pol.force_opaque.add(FuncV(tb[1], tb[2].mod, owner=tb[2]).qual)
        e3 = Ev(world, policy=pol)
        e3.next_oid = ev.next_oid
        outs = []
        try:
            for s, t in e3.compare(op, e1, e2, st.fork(), ("<rule>", 0, dn)):
                outs.append(t)
        except AnalysisError as e:
            # `def __ne__(self, o): return not self != o` - the operator re-enters its own definition with the
            # same operands: every use raises RecursionError
            fn = r[1] if r and r[0] == "func" else None
            again = fn is not None and "call depth budget exceeded" in str(e) and any(
                isinstance(c, ast.Compare) and len(c.ops) == 1 and type(c.ops[0]).__name__ == op
                and {getattr(c.left, "id", None), getattr(c.comparators[0], "id", None)} == {a_.arg for a_ in fn.args.args[:2]}
                for c in ast.walk(fn))
            if not again:
                raise
            ctx.ob("G2", inst, False, "%s applies '%s' to its own two operands again: the comparison never returns (RecursionError on every use)"
                   % (dn, "==" if op == "Eq" else "!="), _msite(ecls, dn))
            continue
        raised = list(e3.raised)
        ok = bool(outs) and not raised
        for t in outs:
            good = a is not None and t == mk_app(op, (a, b))
            if is_app(t, op) and len(t.args) == 2:
                x, y = t.args
                if isinstance(x, App) and isinstance(y, App) and x.f == y.f and x.f.startswith("fn:") \
                        and {x.args, y.args} == {(e1,), (e2,)}:
                    good = True      # compares the canonical encodings of the two operands
            ok = ok and good
        ctx.ob("G2", inst, ok, "%s compares values (%s)" % (dn + (" (derived by Python 3 from __eq__)" if derived else ""),
                                                         ", ".join(show(t, maxdepth=3) for t in outs)) if ok else
               "%s does not reduce to a comparison of the two elements' values: %s%s"
               % (dn, [show(t, maxdepth=4) for t in outs], " raises %s" % [exc for (_, exc, _) in raised] if raised else ""),
               _msite(ecls, dn))


# ----------------------------------------------------------------------------- Ed25519 kinds

def coord_field(st, obj):
    for k, v in st.heap[obj.oid].items():
        if isinstance(v, TupleV) and len(v.items) == 4:
            return k
    raise AnalysisError("anchor vanished: Ed25519 element has no 4-tuple coordinate field")


def ed25519(ctx, world, ev):
    _, G = gm.group_classes(world, ev)
    m, base = gm.ed_module_of(world, ev)
    zero = world.static.heap[G.oid].get("Zero")
    ctx.require(isinstance(zero, Obj), "anchor vanished: Ed25519 group Zero")
    ecls = base.cls
    cf = coord_field(world.static, base)
    qn, Q = gm.field_prime(world, ev)
    oo = session.rets(ev.run_method(G, "order", [], st=world.static.fork()))
    ctx.require(len(oo) == 1 and isinstance(oo[0].value, Const), "anchor vanished: Ed25519 group order()")
    L = oo[0].value.v
    forms = gm.formula_functions(world, ev)

    st = world.static.fork()

    def mk(tag):
        e = ev.new_obj(ecls, st)
        st.heap[e.oid][cf] = TupleV([Sym(c + tag, "int") for c in "XYZT"])
        return e
    e1, e2 = mk("1"), mk("2")
    kinds = {"Elem": e1, "Zero": zero}
    other = {"Elem": e2, "Zero": zero}

    def kind_of(o, v):
        if v == zero:
            return "Zero"
        if isinstance(v, Obj) and v.cls is ecls:
            return "Elem"
        if isinstance(v, Obj):
            return "Unknown(%s)" % v.cls.name
        return "non-element(%s)" % show(v, maxdepth=2)

    n = Sym("n", "int")
    table = []
    for op in ("add", "subtract"):
        for ka in ("Elem", "Zero"):
            for kb in ("Elem", "Zero"):
                table.append((op, ka, kb))
    for op, ka, kb in table:
        recv, arg = kinds[ka], other[kb]
        inst = "%s(%s, %s)" % (op, ka, kb)
        if not _has(recv, op):
            ctx.note("%s: %s not offered by %s" % (inst, op, recv.cls.name))
            continue
        outs = ev.run_method(recv, op, [arg], st=st.fork())
        rets = session.rets(outs)
        ks = sorted({kind_of(o, o.value) for o in rets})
        ok = bool(rets) and set(ks) <= {"Elem", "Zero"} and len(rets) == len(outs)
        ctx.ob("G3-closure", inst, ok, "result kinds %s; no raising path" % ks if ok else
               "result kinds %s%s: an operation on subgroup operands must return a subgroup element or Zero "
               "(an unknown-group element refuses negative scalars and is not decodable as an element)"
               % (ks, "; raises %s" % sorted({o.exc for o in outs if o.kind == "raise"}) if len(rets) != len(outs) else ""),
               _msite(recv.cls, op))
        if op == "add" and ka == "Zero":
            ok = bool(rets) and all(o.value == arg for o in rets)
            ctx.ob("G3-identity", inst, ok, "Zero.add(e) returns e" if ok else "Zero.add(e) does not return e", _msite(recv.cls, op))
        if op == "add" and ka == "Elem" and kb == "Elem":
            # G7: identity detection returns the Zero singleton
            idp = [o for o in rets if any(p is True and isinstance(t, App) and t.f.startswith("fn:")
                                          and gm.func_by_qual(world, t.f[3:]) is not None
                                          and gm.identity_test_ok(world, ev, gm.func_by_qual(world, t.f[3:]))[0]
                                          for (t, p, _) in o.state.pc)]
            ok = bool(idp) and all(o.value == zero for o in idp) and all(o.value != zero for o in rets if o not in idp)
            # the identity test must see the identity: a coordinate it compares unreduced has to arrive normalised
            seen = set()
            for o in rets:
                for (t, p, _) in o.state.pc:
                    for (i_, ok_, detail_, site_) in gm.identity_repr_obligations(world, ev, t):
                        if i_ not in seen:
                            seen.add(i_)
                            ctx.ob("G7-repr", inst + " " + i_, ok_, detail_, site_)
            ctx.ob("G7", inst, ok, "the sum is tested for the identity and then (and only then) the Zero singleton is returned" if ok else
                   "addition does not return the Zero singleton exactly when the sum is the identity", _msite(recv.cls, op))
            # the sum's coordinates are complete_add(self, other)
            for o in rets:
                if o.value == zero or not isinstance(o.value, Obj):
                    continue
                c = gm.unproj(o.state.heap[o.value.oid].get(cf))
                kind = forms.get(c.f[3:], {}).get("kind") if c is not None and c.f.startswith("fn:") else None
                ok = kind == "add-complete" and {c.args[0], c.args[1]} == {st.heap[e1.oid][cf], st.heap[e2.oid][cf]}
                ctx.ob("G3-sum", inst, ok, "sum coordinates = complete_add(self, other)" if ok else
                       "sum coordinates are not the complete addition of the two operands (%s)" % (show(c, maxdepth=2) if c is not None else None),
                       _msite(recv.cls, op))
    for k in ("Elem", "Zero"):
        recv = kinds[k]
        inst = "scalarmult(%s, n)" % k
        outs = ev.run_method(recv, "scalarmult", [n], st=st.fork())
        rets = session.rets(outs)
        ks = sorted({kind_of(o, o.value) for o in rets})
        ok = bool(rets) and set(ks) <= {"Elem", "Zero"} and len(rets) == len(outs)
        if k == "Zero":
            ok = ok and ks == ["Zero"]
        ctx.ob("G3-closure", inst, ok, "result kinds %s for every integer n; no raising path" % ks if ok else
               "result kinds %s, raising paths %s: scalarmult must accept every integer and stay in the subgroup"
               % (ks, sorted({o.exc for o in outs if o.kind == "raise"})), _msite(recv.cls, "scalarmult"))
        if k == "Elem":
            # s % L == 0 -> Zero ; else fast/any ladder on self with s % L
            red = mk_app("Mod", (n, Const(L)))
            zp = [o for o in rets if o.value == zero]
            ok = bool(zp) and all(has_eq({(t, p) for (t, p, _) in o.state.pc}, red, Const(0)) for o in zp)
            ctx.ob("G3-modL", inst, ok, "n = 0 (mod L) gives Zero" if ok else "scalarmult does not map n = 0 (mod L) to Zero", _msite(recv.cls, "scalarmult"))
            for o in rets:
                if o.value == zero or not isinstance(o.value, Obj):
                    continue
                c = gm.unproj(o.state.heap[o.value.oid].get(cf))
                lc = gm.ladder_call(world, ev, c)
                ok = lc is not None and lc["pt"] == st.heap[e1.oid][cf] and lc["n"] == red
                ctx.ob("G3-modL", inst + " value", ok, "result = ladder(self, n mod L): depends only on n mod L" if ok else
                       "result is not ladder(self, n mod L): %s" % (show(c, maxdepth=3) if c is not None else None), _msite(recv.cls, "scalarmult"))
        if _has(recv, "negate"):
            inst = "negate(%s)" % k
            outs = ev.run_method(recv, "negate", [], st=st.fork())
            rets = session.rets(outs)
            ks = sorted({kind_of(o, o.value) for o in rets})
            ok = bool(rets) and len(rets) == len(outs) and (ks == ["Zero"] if k == "Zero" else set(ks) <= {"Elem", "Zero"})
            ctx.ob("G3-closure", inst, ok, "result kinds %s" % ks if ok else "result kinds %s / raises" % ks, _msite(recv.cls, "negate"))
            if k == "Elem":
                for o in rets:
                    if not isinstance(o.value, Obj) or o.value == zero:
                        continue
                    coords = o.state.heap[o.value.oid].get(cf)
                    c = gm.unproj(coords)
                    mine = st.heap[e1.oid][cf]
                    lc = gm.ladder_call(world, ev, c)
                    if lc is not None and lc["pt"] == mine and isinstance(lc["n"], Const):
                        k_ = lc["n"].v
                        ok = isinstance(k_, int) and (k_ + 1) % L == 0
                        ctx.ob("G4", "negate(Elem)", ok, "negate multiplies by %s = -1 (mod L)" % show(lc["n"]) if ok else
                               "negate multiplies by the constant L%+d, i.e. by %d (mod L), not by -1: P.add(P.negate()) is not Zero"
                               % (k_ - L, k_ % L if k_ % L < L // 2 else k_ % L - L), _msite(recv.cls, "negate"))
                    elif isinstance(coords, TupleV) and len(coords.items) == 4:
                        atoms = {}
                        try:
                            ps = [term_poly(t, Q, atoms) for t in coords.items]
                            pm = [term_poly(t, Q, atoms) for t in mine.items]
                            ok = (ps[0] + pm[0]).is_zero() and (ps[1] - pm[1]).is_zero() and (ps[2] - pm[2]).is_zero() and (ps[3] + pm[3]).is_zero()
                        except AnalysisError:
                            ok = False
                        ctx.ob("G4", "negate(Elem)", ok, "negate is the coordinate map (-X, Y, Z, -T)" if ok else
                               "negate is neither multiplication by -1 (mod L) nor the map (-X, Y, Z, -T)", _msite(recv.cls, "negate"))
                    else:
                        ctx.ob("G4", "negate(Elem)", False, "negate result not understood: %s" % show(coords, maxdepth=3), _msite(recv.cls, "negate"))
    # equality on the 4 kind pairs
    for ka in ("Elem", "Zero"):
        for kb in ("Elem", "Zero"):
            for op in ("Eq", "NotEq"):
                a, b = kinds[ka], other[kb]
                if a == b:
                    continue
                e3 = Ev(world)
                e3.next_oid = ev.next_oid
                pol = e3.policy
                tb = a.cls.lookup("to_bytes")
                if tb and tb[0] == "func":
                    pol.force_opaque.add(FuncV(tb[1], tb[2].mod, owner=tb[2]).qual)
                try:
                    res = e3.compare(op, a, b, st.fork(), ("<rule>", 0, op))
                except AnalysisError as e:
                    if "call depth budget exceeded" in str(e) and ("__ne__" in str(e) or "__eq__" in str(e)):
                        continue          # a comparison operator that re-enters itself: reported by G2 below
                    raise
                ok = bool(res) and not e3.raised
                ctx.ob("G3-eq", "%s(%s, %s)" % (op, ka, kb), ok, "comparison never raises on these kinds" if ok else
                       "comparison raises %s" % [x for (_, x, _) in e3.raised])
    equality(ctx, world, ev, ecls, st, e1, e2, None, None, "ed25519")
    ladders(ctx, world, ev, m, forms)


def _has(obj, name):
    r = obj.cls.lookup(name)
    return r is not None and r[0] == "func"


# ----------------------------------------------------------------------------- ladders (G6)

def _run_ladder(e2, f, pt, n, extra, world):
    """call f(pt, n, extra...) binding keyword-only function parameters by name"""
    npos = len(f.node.args.args)
    vals = [pt, n] + list(extra)
    names = [a.arg for a in f.node.args.kwonlyargs]
    return e2.run(f, vals[:npos], list(zip(names, vals[npos:])), world.static.fork())


def loop_ladder(ctx, world, ev, m, forms, f, extra, site):
    """Iterative double-and-add, left to right: acc = identity; for each binary digit of n, most
    significant first: acc = 2*acc (+ P when the digit is 1).  One symbolic iteration with the
    accumulator an arbitrary multiple k*P shows every way round the loop maps k to 2k or 2k+1
    according to the digit (Horner step); with the digits being those of n the result is n*P."""
    label = f.qual + ("[%s]" % ", ".join(x.node.name for x in extra) if extra else "")
    e2 = Ev(world, loop_mode="once")
    e2.import_all()
    e2.policy.force_inline.add(f.qual)
    pt = TupleV([Sym(c, "int") for c in ("PX", "PY", "PZ", "PT")])
    n = Sym("n", "int")
    outs = _run_ladder(e2, f, pt, n, extra, world)
    rets = session.rets(outs)
    entries = [c for (_, c) in e2.loop_entries]
    if len(entries) == 1 and len(entries[0]) == 3:
        return rtl_ladder(ctx, world, ev, forms, f, extra, site, label, e2, outs, pt, n)
    conts = list(e2.continues)
    peel = None          # (list local, why-not or None): an inline digit peel in front of the ladder loop
    if len(entries) == 2:
        def loop_of(p):
            ls = [x[1] for x in p.st.log if x[0] == "loop-enter"]
            return ls[-1] if ls else None
        s1, c1 = e2.loop_entries[0]
        lists = [k for k, v in c1.items() if isinstance(v, TupleV) and v.kind == "list" and not v.items]
        rems = [k for k, v in c1.items() if v == n]
        if len(c1) == 2 and len(lists) == 1 and len(rems) == 1:
            # while r: L.append(r & 1); r >>= 1   -  n = r * 2^len(L) + value(L) is kept, the loop ends at r = 0
            L, r = lists[0], rems[0]
            sL = App("star", (Sym("loop:" + L, "list"),))
            rr = Sym("loop:" + r, "int")
            nz = lambda conds, t, want: (t, want) in conds or (mk_app("NotEq", (t, Const(0))), want) in conds or \
                (mk_app("Eq", (t, Const(0))), not want) in conds or (mk_app("Lt", (Const(0), t)), want) in conds
            mine = [p for p in conts if loop_of(p) == s1]
            why = None if mine else "no way round the digit loop"
            for p in mine:
                conds = {(t, pol) for (t, pol, _) in p.st.pc}
                nl, nr = p.val["locals"].get(L), p.val["locals"].get(r)
                okl = isinstance(nl, TupleV) and len(nl.items) == 2 and nl.items[0] == sL and \
                    nl.items[1] in (mk_app("BitAnd", (rr, Const(1))), mk_app("Mod", (rr, Const(2))))
                okr = nr in (mk_app("RShift", (rr, Const(1))), mk_app("FloorDiv", (rr, Const(2))))
                if not (okl and okr and nz(conds, rr, True)):
                    why = "an iteration of the digit loop is not  L.append(r & 1); r >>= 1  under r != 0"
            peel = (L, rr, why, nz)
            conts = [p for p in conts if loop_of(p) != s1]
            entries = entries[1:]
    okshape = len(entries) == 1 and len(entries[0]) == 1
    acc_name = list(entries[0])[0] if okshape else None
    ctx.ob("G6", label + " accumulator", okshape, "one loop with one carried local (the accumulator %s)" % acc_name if okshape else
           "the loop carries %s: not a single-accumulator double-and-add" % [sorted(c) for c in entries], site)
    if not okshape:
        return
    acc0 = entries[0][acc_name]

    def is_identity(v):
        return isinstance(v, TupleV) and len(v.items) == 4 and v.items[0] == Const(0) and v.items[3] == Const(0) \
            and v.items[1] == v.items[2] and isinstance(v.items[1], Const) and v.items[1].v % (2 ** 255 - 19) != 0
    ctx.ob("G6", label + " start", is_identity(acc0), "the accumulator starts as the identity" if is_identity(acc0) else
           "the accumulator starts as %s, not the identity" % show(acc0, maxdepth=3), site)
    REC = Sym("loop:" + acc_name, None)

    def lin(t):
        if t == pt:
            return (0, 1)
        if isinstance(t, Sym) and t.n == REC.n:
            return (1, 0)
        c = gm.unproj(t)
        if c is None:
            return None
        kind = forms.get(c.f[3:], {}).get("kind") if isinstance(c, App) and c.f.startswith("fn:") else None
        if kind == "double" and len(c.args) == 1:
            x = lin(c.args[0])
            return None if x is None else (2 * x[0], 2 * x[1])
        if kind in ("add-complete", "add-dedicated") and len(c.args) == 2:
            x, y = lin(c.args[0]), lin(c.args[1])
            return None if x is None or y is None else (x[0] + y[0], x[1] + y[1])
        return None
    # the digit source: most significant first binary digits of n
    its = []
    for o in list(rets) + [Outcome_like(p) for p in conts]:
        for t in [x for (c, _, _) in o.state.pc for x in subterms(c)]:
            if is_app(t, "iter-elem") and t not in its:
                its.append(t)
    # accepted digit sources (most significant first) and the term that is true exactly for a 1 digit
    okd, is_one, is_zero, how = False, (lambda conds: False), (lambda conds: False), ""
    if len(its) == 1:
        it, src = its[0], its[0].args[0]
        bl = App("bit_length", (n,))
        if src == mk_app("slice", (mk_app("bin", (n,)), Const(2), Const(None), Const(None))) or src == mk_app("format", (n, Const("b"))):
            one, zero = mk_app("Eq", (it, Const("1"))), mk_app("Eq", (it, Const("0")))
            okd, how = True, "bin(n)[2:], the binary digits of n, most significant first"
            is_one = lambda conds: (one, True) in conds or (zero, False) in conds
            is_zero = lambda conds: (one, False) in conds or (zero, True) in conds
        elif src in (mk_app("reversed", (mk_app("range", (bl,)),)),
                     mk_app("range", (mk_app("Sub", (bl, Const(1))), Const(-1), Const(-1)))):
            bits = [mk_app("BitAnd", (mk_app("RShift", (n, it)), Const(1))), mk_app("BitAnd", (n, mk_app("LShift", (Const(1), it))))]
            okd, how = True, "bit positions bit_length(n)-1 .. 0 with the test (n >> i) & 1"

            def _truth(conds, want):
                for b in bits:
                    for t, pol in ((b, want), (mk_app("NotEq", (b, Const(0))), want), (mk_app("Eq", (b, Const(0))), not want)):
                        if (t, pol) in conds:
                            return True
                    if b is bits[0] and (mk_app("Eq", (b, Const(1))), want) in conds:
                        return True
                return False
            is_one = lambda conds: _truth(conds, True)
            is_zero = lambda conds: _truth(conds, False)
        elif is_app(src, "reversed") and len(src.args) == 1 and isinstance(src.args[0], TupleV) and len(src.args[0].items) == 1 \
                and is_app(src.args[0].items[0], "star") and isinstance(src.args[0].items[0].args[0], App) \
                and src.args[0].items[0].args[0].f.startswith("fn:") and src.args[0].items[0].args[0].args == (n,) \
                and gm.func_by_qual(world, src.args[0].items[0].args[0].f[3:]) is not None:
            dg = gm.func_by_qual(world, src.args[0].items[0].args[0].f[3:])      # reversed([*digits_lsb_first(n)])
            okd, how = gm.lsb_digits_generator_ok(world, ev, dg)
            how = "reversed(list(%s(n))): %s" % (dg.node.name, how)

            def _t3(conds, want):
                return (it, want) in conds or (mk_app("NotEq", (it, Const(0))), want) in conds or (mk_app("Eq", (it, Const(0))), not want) in conds \
                    or (mk_app("Eq", (it, Const(1))), want) in conds
            is_one = lambda conds: _t3(conds, True)
            is_zero = lambda conds: _t3(conds, False)
        elif peel is not None and src == mk_app("reversed", (TupleV([App("star", (Sym("loop:" + peel[0], "list"),))], "list"),)):
            # for digit in reversed(L) after the inline peel; every path into the loop has left the peel at r = 0
            L, rr, why, nz = peel
            left = all(nz({(t, pol) for (t, pol, _) in p.st.pc}, rr, False) for p in conts) and \
                all(nz({(t, pol) for (t, pol, _) in o.state.pc}, rr, False) for o in rets)
            okd = why is None and left
            how = "reversed(%s) after  while r: %s.append(r & 1); r >>= 1  from r = n: the binary digits of n, most significant first" % (L, L) \
                if okd else (why or "the ladder loop is reached with digits still to peel")

            def _t4(conds, want):
                return (it, want) in conds or (mk_app("NotEq", (it, Const(0))), want) in conds or (mk_app("Eq", (it, Const(0))), not want) in conds \
                    or (mk_app("Eq", (it, Const(1))), want) in conds
            is_one = lambda conds: _t4(conds, True)
            is_zero = lambda conds: _t4(conds, False)
        elif isinstance(src, App) and src.f.startswith("fn:") and src.args == (n,) and not src.kw \
                and gm.func_by_qual(world, src.f[3:]) is not None:
            dg = gm.func_by_qual(world, src.f[3:])
            okd, how = gm.msb_digits_function_ok(world, ev, dg)
            how = "%s(n): %s" % (dg.node.name, how)

            def _t2(conds, want):
                return (it, want) in conds or (mk_app("NotEq", (it, Const(0))), want) in conds or (mk_app("Eq", (it, Const(0))), not want) in conds \
                    or (mk_app("Eq", (it, Const(1))), want) in conds
            is_one = lambda conds: _t2(conds, True)
            is_zero = lambda conds: _t2(conds, False)
    ctx.ob("G6", label + " digits", okd, "the loop runs over %s" % how if okd else
           "the loop does not run over the binary digits of n (most significant first): %s" % [show(i.args[0], maxdepth=4) for i in its], site)
    step1 = step0 = False
    bad = []
    for p in conts:
        conds = {(t, pol) for (t, pol, _) in p.st.pc}
        l = lin(p.val["locals"].get(acc_name))
        is1, is0 = is_one(conds), is_zero(conds)
        if is1 and l == (2, 1):
            step1 = True
        elif is0 and l == (2, 0):
            step0 = True
        else:
            bad.append("%s*acc + %s*P under %s" % (l[0] if l else "?", l[1] if l else "?", "digit 1" if is1 else "digit 0" if is0 else "an unrecognised condition"))
    exits = []
    for o in rets:
        v = o.value
        exits.append(is_identity(v) or (isinstance(v, Sym) and v.n == REC.n) or lin(v) == (1, 0))
    ok = okd and step1 and step0 and not bad and bool(exits) and all(exits)
    ctx.ob("G6", label, ok,
           "Horner step: every iteration maps acc = k*P to (2k + digit)*P, the function returns the accumulator => f(P, n) = n*P for n >= 0" if ok else
           "iterative ladder is not double-and-add over the digits of n (digit-1 step: %s, digit-0 step: %s, other steps: %s, returns the accumulator/identity: %s)"
           % (step1, step0, bad, exits), site)


def rtl_ladder(ctx, world, ev, forms, f, extra, site, label, e2, outs, pt, n):
    """Iterative double-and-add, right to left: result = identity, addend = P; while r != 0:
    if r & 1: result += addend; addend = 2*addend; r >>= 1.  Invariant: result + r*addend = n*P.
    With result = k*P, addend = m*P and r = 2r' + b it is kept exactly when every way round the loop
    gives result' = (k + b*m)*P, addend' = 2m*P and r' = r >> 1 (b the low bit of r): checked on one
    symbolic iteration; the loop ends when r = 0, where the invariant says result = n*P."""
    carried = e2.loop_entries[0][1]
    is_id = lambda v: isinstance(v, TupleV) and len(v.items) == 4 and v.items[0] == Const(0) and v.items[3] == Const(0) \
        and v.items[1] == v.items[2] and isinstance(v.items[1], Const) and v.items[1].v % (2 ** 255 - 19) != 0
    res = [k for k, v in carried.items() if is_id(v)]
    add = [k for k, v in carried.items() if v == pt]
    rem = [k for k, v in carried.items() if v == n]
    okshape = len(res) == 1 and len(add) == 1 and len(rem) == 1
    ctx.ob("G6", label + " accumulator", okshape, "the loop carries a result starting at the identity, an addend starting at P and the remaining scalar" if okshape else
           "the loop carries %s: not (result = identity, addend = P, remaining scalar = n)" % sorted(carried), site)
    if not okshape:
        return
    R, A, r = Sym("loop:" + res[0], None), Sym("loop:" + add[0], None), Sym("loop:" + rem[0], "int")

    def lin(t):          # -> (coefficient of result, coefficient of addend)
        if isinstance(t, Sym) and t.n == R.n:
            return (1, 0)
        if isinstance(t, Sym) and t.n == A.n:
            return (0, 1)
        c = gm.unproj(t)
        if c is None:
            return None
        kind = forms.get(c.f[3:], {}).get("kind") if isinstance(c, App) and c.f.startswith("fn:") else None
        if kind == "double" and len(c.args) == 1:
            x = lin(c.args[0])
            return None if x is None else (2 * x[0], 2 * x[1])
        if kind in ("add-complete", "add-dedicated") and len(c.args) == 2:
            x, y = lin(c.args[0]), lin(c.args[1])
            return None if x is None or y is None else (x[0] + y[0], x[1] + y[1])
        return None
    nonzero = lambda conds, t, want: (t, want) in conds or (mk_app("NotEq", (t, Const(0))), want) in conds or \
        (mk_app("Eq", (t, Const(0))), not want) in conds or (mk_app("Lt", (Const(0), t)), want) in conds
    step1 = step0 = False
    bad = []
    for p in e2.continues:
        conds = {(t, pol) for (t, pol, _) in p.st.pc}
        lr, la, nr = lin(p.val["locals"].get(res[0])), lin(p.val["locals"].get(add[0])), p.val["locals"].get(rem[0])
        odd = [o_ for o_ in (gm.odd_fact(t, pol, r) for (t, pol) in conds) if o_ is not None]
        okr = nr in (mk_app("RShift", (r, Const(1))), mk_app("FloorDiv", (r, Const(2))))
        if not (okr and la == (0, 2) and nonzero(conds, r, True) and len(set(odd)) == 1):
            bad.append("result %s, addend %s, remaining %s" % (lr, la, show(nr, maxdepth=3) if nr is not None else None))
        elif odd[0] and lr == (1, 1):
            step1 = True
        elif not odd[0] and lr == (1, 0):
            step0 = True
        else:
            bad.append("low bit %s: result %s" % (odd[0], lr))
    exits = []
    for o in session.rets(outs):
        conds = {(t, pol) for (t, pol, _) in o.state.pc}
        v = o.value
        exits.append((is_id(v) and nonzero(conds, n, False)) or (isinstance(v, Sym) and v.n == R.n and nonzero(conds, r, False)))
    ok = step1 and step0 and not bad and bool(exits) and all(exits)
    ctx.ob("G6", label, ok,
           "invariant result + r*addend = n*P: every iteration gives result + (r & 1)*addend, 2*addend, r >> 1; the result is returned when r = 0 => f(P, n) = n*P for n >= 0" if ok else
           "right-to-left ladder does not keep result + r*addend = n*P (low-bit-1 step: %s, low-bit-0 step: %s, other: %s, returns the result at r = 0: %s)"
           % (step1, step0, bad, exits), site)


class Outcome_like(object):
    def __init__(self, p):
        self.state = p.st


def ladders(ctx, world, ev, m, forms):
    n_l = 0
    for (f, extra) in gm.ladder_instances(world, ev, m):
        name = f.node.name
        n_l += 1
        site = (m.relpath, f.node.lineno, name)
        if ev.policy.classify(f) == "loop":
            loop_ladder(ctx, world, ev, m, forms, f, extra, site)
            continue
        e2 = Ev(world)
        e2.import_all()
        e2.unfold_once.add(f.qual)
        pt = TupleV([Sym(c, "int") for c in ("PX", "PY", "PZ", "PT")])
        n = Sym("n", "int")
        outs = _run_ladder(e2, f, pt, n, extra, world)
        label = f.qual + ("[%s]" % ", ".join(x.node.name for x in extra) if extra else "")
        rets = session.rets(outs)
        rec = None

        def lin(t):
            """multiple of P represented by a coordinate tuple, given REC = k*P -> (a, b) meaning a*k + b"""
            if t == pt:
                return (0, 1)
            c = gm.unproj(t)
            if c is None:
                return None
            if c.f == "fn:" + f.qual:
                nonlocal rec
                rec = c
                return (1, 0)
            kind = forms.get(c.f[3:], {}).get("kind")
            if kind == "double" and len(c.args) == 1:
                x = lin(c.args[0])
                return None if x is None else (2 * x[0], 2 * x[1])
            if kind in ("add-complete", "add-dedicated") and len(c.args) == 2:
                x, y = lin(c.args[0]), lin(c.args[1])
                return None if x is None or y is None else (x[0] + y[0], x[1] + y[1])
            return None
        base_ok = step_odd = step_even = False
        bit = mk_app("BitAnd", (n, Const(1)))
        for o in rets:
            conds = {(t, p) for (t, p, _) in o.state.pc}
            if (mk_app("Eq", (n, Const(0))), True) in conds:
                v = o.value
                base_ok = isinstance(v, TupleV) and len(v.items) == 4 and v.items[0] == Const(0) and v.items[3] == Const(0) \
                    and v.items[1] == v.items[2] and isinstance(v.items[1], Const) and v.items[1].v % (2 ** 255 - 19) != 0
                continue
            l = lin(o.value)
            odd = (bit, True) in conds or (mk_app("Eq", (bit, Const(0))), False) in conds or (mk_app("NotEq", (bit, Const(0))), True) in conds
            even = (bit, False) in conds or (mk_app("Eq", (bit, Const(0))), True) in conds or (mk_app("NotEq", (bit, Const(0))), False) in conds
            if odd and l == (2, 1):
                step_odd = True
            elif even and l == (2, 0):
                step_even = True
            else:
                ctx.ob("G6", label + " step", False, "a path of the ladder body returns %s*f(P, n>>1) + %s*P under conditions %s"
                       % (l[0] if l else "?", l[1] if l else "?", sorted(show(t, maxdepth=3) + "=" + str(p) for t, p in conds)), site)
        rec_ok = rec is not None and rec.args == (pt, mk_app("RShift", (n, Const(1)))) + tuple(extra)
        ok = base_ok and step_odd and step_even and rec_ok
        ctx.ob("G6", label, ok,
               "induction step: f(P, n) = 2*f(P, n>>1) + (n&1)*P, f(P, 0) = identity => f(P, n) = n*P for n >= 0" if ok else
               "ladder does not satisfy the double-and-add induction step (base case ok: %s, odd step: %s, even step: %s, recursion on (P, n>>1): %s)"
               % (base_ok, step_odd, step_even, rec_ok), site)
    ctx.ob("G6-present", "ladders", n_l >= 1, "%d double-and-add ladder(s) analysed" % n_l)
    for (inst, ok, detail, site) in gm.formula_growth_obligations(world, ev):
        ctx.ob("G6-size", inst, ok, detail, site)


def check(ctx, world):
    ctx.explanation = (
        "Integer groups (instance over symbolic p, q, g): add is a fresh element holding (a*b)%p, scalarmult a fresh "
        "element holding pow(a, n mod q, p) for every integer n, Zero holds 1, Base holds g - the group axioms then hold "
        "in Z/p by arithmetic. Value equality: __eq__/__ne__ of every element class resolve to package definitions that "
        "reduce to a comparison of the operands' values/encodings. Ed25519: the abstract evaluator runs add, subtract, "
        "scalarmult, negate, == and != on the element kinds {subgroup element with symbolic coordinates, the Zero "
        "singleton}; every result must again be a subgroup element or Zero (closure table), Zero.add(e) returns e, the "
        "sum is complete_add(self, other) with the identity mapped to the Zero singleton, scalarmult depends on n mod L "
        "and accepts every integer, negate multiplies by a constant = -1 (mod L) or maps (X,Y,Z,T) to (-X,Y,Z,-T). Each "
        "double-and-add ladder is unfolded once and checked against its induction step f(P,n) = 2 f(P,n>>1) + (n&1) P.")
    ctx.min_obligations = 32
    ev = session.new_ev(world)
    integer(ctx, world, ev)
    ed25519(ctx, world, ev)
    # G5/G8: preconditions of the dedicated-addition ladder are obligations P6 of C12; re-stated here
    from . import c12
    from ..report import Ctx
    sub = Ctx("C12", ctx.tier, "proof")
    c12.check(sub, world)
    for o in sub.obs:
        if o.rule.startswith("P6") or o.rule == "P7":
            ctx.ob("G5/" + o.rule, o.instance, o.ok, o.detail, o.site, o.witness)
    # G2-encoding: value equality and "every result is encodable" rest on the element encoder being a function of the
    # point, not of its representation: == compares encodings, so an encoder that is not total / not canonical on some
    # representation an operation can return (unreduced or negative coordinates, a projective shortcut) makes equal
    # points compare unequal or a point compare equal to its inverse.  Those are the encoder obligations of C15.
    from .common import include
    include(ctx, world, "c15", "G2-encoding", keep=lambda o: o.rule in ("K3-encoder", "K5-encoder", "K5-encoder-reduced", "K5-encoder-total", "K3-encoder-total", "K5-encoder-inv"))
