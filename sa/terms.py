"""Abstract values (terms) of the static evaluator and their normal forms.

Terms are immutable and compared by structural key.  Nothing in this module looks
at the repository; it only defines the value language and the rewrite table of
accepted idioms (DESIGN 3.3).  Every rewrite carries a one-line justification.
"""
import operator

__all__ = ["V", "Const", "Sym", "App", "TupleV", "DictV", "Obj", "ClassV", "FuncV",
           "Bound", "ModV", "ExtV", "IterV", "mk_app", "show", "ty_of", "subterms", "subst",
           "is_app", "TRUE", "FALSE", "NONE", "canon_id"]


_INTERN = {}


class V(object):
    __slots__ = ("_key", "_hash")

    def key(self):
        return self._key

    def __eq__(self, other):
        return isinstance(other, V) and self._key == other._key

    def __ne__(self, other):
        return not self == other

    def __hash__(self):
        return self._hash

    def _setkey(self, k):
        # keys are interned: a term's key is a small integer standing for its structure (children
        # appear in k by their own integers), so equality, hashing and ordering cost O(1) however
        # deeply terms share subterms (nested tuple keys made them exponential in the sharing depth)
        i = _INTERN.get(k)
        if i is None:
            i = len(_INTERN) + 1
            _INTERN[k] = i
        self._key = i
        self._hash = i


class Const(V):
    __slots__ = ("v",)

    def __init__(self, v):
        self.v = v
        self._setkey(("C", type(v).__name__, v if not isinstance(v, float) else repr(v)))

    def __repr__(self):
        return "Const(%s)" % show(self)


class Sym(V):
    """A symbolic input.  `ty` is an optional declared Python type name."""
    __slots__ = ("n", "ty")

    def __init__(self, n, ty=None):
        self.n = n
        self.ty = ty
        self._setkey(("S", n))

    def __repr__(self):
        return "$" + self.n


class App(V):
    """Uninterpreted application f(args, kw).  Build with mk_app (normalising)."""
    __slots__ = ("f", "args", "kw")

    def __init__(self, f, args=(), kw=()):
        self.f = f
        self.args = tuple(args)
        self.kw = tuple(sorted(kw))
        self._setkey(("A", f, tuple(a._key for a in self.args),
                      tuple((k, v._key) for k, v in self.kw)))

    def __repr__(self):
        return show(self)


class TupleV(V):
    __slots__ = ("items", "kind")

    def __init__(self, items, kind="tuple"):
        self.items = tuple(items)
        self.kind = kind
        self._setkey(("T", kind, tuple(i._key for i in self.items)))

    def __repr__(self):
        return show(self)


class DictV(V):
    """Dict with constant keys (insertion order kept, key order irrelevant for equality)."""
    __slots__ = ("items",)

    def __init__(self, items):
        self.items = dict(items)
        self._setkey(("D", tuple(sorted(((repr(k), v._key) for k, v in self.items.items())))))

    def __repr__(self):
        return show(self)


class Obj(V):
    """Reference to an abstract heap object; fields live in State.heap[oid]."""
    __slots__ = ("oid", "cls")

    def __init__(self, oid, cls):
        self.oid = oid
        self.cls = cls
        self._setkey(("O", oid))

    def __repr__(self):
        return "<%s#%d>" % (self.cls.name, self.oid)


class ClassV(V):
    __slots__ = ("node", "mod", "name", "bases", "extbases", "qual")

    def __init__(self, node, mod):
        self.node = node
        self.mod = mod
        self.name = node.name
        self.bases = []      # ClassV bases (package)
        self.extbases = []   # names of external bases
        self.qual = mod.name + "." + node.name
        self._setkey(("K", self.qual))

    def __repr__(self):
        return "class " + self.qual

    def mro(self):
        out = [self]
        for b in self.bases:
            for c in b.mro():
                if c not in out:
                    out.append(c)
        return out

    def is_exception(self):
        for c in self.mro():
            for e in c.extbases:
                if e.endswith("Exception") or e.endswith("Error") or e == "BaseException":
                    return True
        return False

    def lookup(self, name):
        """-> ('func', FunctionDef, owner) | ('attr', expr, owner) | None"""
        import ast
        for c in self.mro():
            for st in c.node.body:
                if isinstance(st, (ast.FunctionDef,)) and st.name == name:
                    return ("func", st, c)
                if isinstance(st, ast.Assign):
                    for t in st.targets:
                        if isinstance(t, ast.Name) and t.id == name:
                            return ("attr", st.value, c)
                        # a, b = x, y  at class level: the matching element of a literal right-hand side
                        if isinstance(t, (ast.Tuple, ast.List)) and isinstance(st.value, (ast.Tuple, ast.List)) \
                                and len(t.elts) == len(st.value.elts):
                            for te, ve in zip(t.elts, st.value.elts):
                                if isinstance(te, ast.Name) and te.id == name and not isinstance(ve, ast.Starred):
                                    return ("attr", ve, c)
                if isinstance(st, ast.AnnAssign) and isinstance(st.target, ast.Name) \
                        and st.target.id == name and st.value is not None:
                    return ("attr", st.value, c)
        return None


class FuncV(V):
    __slots__ = ("node", "mod", "closure", "owner", "qual")

    def __init__(self, node, mod, closure=None, owner=None):
        self.node = node
        self.mod = mod
        self.closure = closure
        self.owner = owner
        nm = getattr(node, "name", "<lambda>")
        self.qual = (owner.qual if owner is not None else mod.name) + "." + nm
        self._setkey(("F", self.qual, node.lineno, node.col_offset))

    def __repr__(self):
        return "func " + self.qual


class IterV(V):
    """A single-pass iterator object (zip/map/enumerate/reversed/generator): the items still to be
    delivered live in State.heap[oid]['items']; consuming it empties that field."""
    __slots__ = ("oid",)

    def __init__(self, oid):
        self.oid = oid
        self._setkey(("I", oid))

    def __repr__(self):
        return "<iterator#%d>" % self.oid


class Bound(V):
    __slots__ = ("func", "recv")

    def __init__(self, func, recv):
        self.func = func
        self.recv = recv
        self._setkey(("B", func._key, recv._key))

    def __repr__(self):
        return "bound(%r, %r)" % (self.func, self.recv)


class ModV(V):
    __slots__ = ("name",)

    def __init__(self, name):
        self.name = name
        self._setkey(("M", name))

    def __repr__(self):
        return "mod " + self.name


class ExtV(V):
    """A name from outside the analysed package (stdlib, builtins, third party)."""
    __slots__ = ("name",)

    def __init__(self, name):
        self.name = name
        self._setkey(("X", name))

    def __repr__(self):
        return "ext " + self.name


TRUE = Const(True)
FALSE = Const(False)
NONE = Const(None)


def is_app(t, *names):
    return isinstance(t, App) and (not names or t.f in names)


# ----------------------------------------------------------------------------
# light type inference on terms (only what the idioms of the package need)

_APP_TY = {
    ".to_bytes": "bytes", ".scalar_to_bytes": "bytes", "int2be": "bytes", ".derive": "bytes", ".digest": "bytes",
    "H": "bytes", "hexb": "bytes", "hexs": "str", "cat": "bytes", "rev": None,
    "be2int": "int", "len": "int", "json.dumps": "str", "bit_length": "int",
    "Add": None, "Mod": "int", "pow": "int", "str": "str", "int": "int",
    "bool": "bool", "Not": "bool", "Eq": "bool", "NotEq": "bool", "Lt": "bool",
    "LtE": "bool", "Gt": "bool", "GtE": "bool", "In": "bool", "NotIn": "bool",
    "Is": "bool", "IsNot": "bool", "isinstance": "bool", "And": "bool", "Or": "bool",
    "fmt": "str", "fstring": "str", ".derive": "bytes", "unhex": "bytes", "int2be": "bytes", "hexw": "str", "bytes": "bytes",
}


def ty_of(t):
    """Python type name of a term if known, else None."""
    if isinstance(t, Const):
        return type(t.v).__name__
    if isinstance(t, Sym):
        return t.ty
    if isinstance(t, TupleV):
        return t.kind
    if isinstance(t, DictV):
        return "dict"
    if isinstance(t, App):
        if t.f == "Mod" and len(t.args) == 2 and ty_of(t.args[0]) == "int" and ty_of(t.args[1]) == "int":
            return "int"
        if t.f in ("Or", "And", "min2", "max2") and len(t.args) == 2 and ty_of(t.args[0]) == ty_of(t.args[1]) and ty_of(t.args[0]) is not None:
            return ty_of(t.args[0])               # `a or b` / `a and b` yield one of their operands
        if t.f in ("Add", "Sub", "Mult", "FloorDiv", "LShift", "RShift", "BitAnd", "BitOr",
                   "BitXor", "USub", "Pow"):
            tys = [ty_of(a) for a in t.args]
            if all(x == "int" for x in tys):
                return "int"
            if t.f == "Add" and tys and all(x == tys[0] for x in tys):
                return tys[0]
            return None
        if t.f == "rev" or t.f == "slice" or t.f == "setitem":
            return ty_of(t.args[0])
        if t.f in ("list", "bytearray") and len(t.args) == 1:
            return t.f
        if t.f == ".encode":
            return "bytes"
        if t.f == ".decode":
            return "str"
        if t.f == "call" and t.args and isinstance(t.args[0], Sym) and t.args[0].n.startswith("entropy_f"):
            return "bytes"                     # A5: an entropy source returns bytes (os.urandom's contract)
        return _APP_TY.get(t.f)
    return None


# ----------------------------------------------------------------------------
# constant folding helpers

_BINOPS = {"Add": operator.add, "Sub": operator.sub, "Mult": operator.mul,
           "Mod": operator.mod, "FloorDiv": operator.floordiv, "Pow": operator.pow,
           "LShift": operator.lshift, "RShift": operator.rshift, "BitAnd": operator.and_,
           "BitOr": operator.or_, "BitXor": operator.xor, "Div": operator.truediv}
_CMPOPS = {"Eq": operator.eq, "NotEq": operator.ne, "Lt": operator.lt, "LtE": operator.le,
           "Gt": operator.gt, "GtE": operator.ge}
_COMMUTATIVE = ("Mult", "BitAnd", "BitOr", "BitXor")   # Add only for ints (bytes concat is not)


def _fold_binop(op, a, b):
    if op == "Pow" and isinstance(b, int) and (b < 0 or b > 4096):
        raise ValueError("pow too large to fold")
    if op == "LShift" and isinstance(b, int) and b > 1 << 16:
        raise ValueError("shift too large")
    if op == "Mult" and (isinstance(a, (bytes, str, list, tuple)) or isinstance(b, (bytes, str, list, tuple))):
        n = b if isinstance(b, int) else a
        if isinstance(n, int) and n > 1 << 16:
            raise ValueError("repeat too large")
    return _BINOPS[op](a, b)


# keyword -> positional for the documented group interface (groups.py docstring): calling
# g.arbitrary_element(seed=s) and g.arbitrary_element(s) is the same call.
_IFACE_KW = {".arbitrary_element": ("seed",), ".password_to_scalar": ("pw",), ".random_scalar": ("entropy_f",),
             ".scalar_to_bytes": ("i",), ".bytes_to_scalar": ("b",), ".bytes_to_element": ("b",),
             ".scalarmult": ("s",), ".add": ("other",)}


def mk_app(f, args=(), kw=()):
    """Build the normal form of f(args).  The rewrite table of accepted idioms."""
    args = tuple(args)
    kw = tuple(kw)
    if kw and f in _IFACE_KW and len(args) == 1:
        names = _IFACE_KW[f]
        d = dict(kw)
        if set(d) == set(names[:len(d)]):
            args = args + tuple(d[k] for k in names[:len(d)])
            kw = ()
    n = len(args)
    if n == 2 and f in ("BitOr", "BitAnd", "BitXor", "In", "NotIn", "Eq", "NotEq") and all(is_app(x, "flag") and isinstance(x.args[0], Const) for x in args) \
            and args[0].args[1] == args[1].args[1]:
        x, y, c = args[0].args[0].v, args[1].args[0].v, args[0].args[1]      # members of one enum.Flag class, by value
        if f == "BitOr":
            return App("flag", (Const(x | y), c))
        if f == "BitAnd":
            return App("flag", (Const(x & y), c))
        if f == "BitXor":
            return App("flag", (Const(x ^ y), c))
        if f in ("In", "NotIn"):
            return Const(((x & y) == x) == (f == "In"))                       # a in b  <=>  a & b == a
        return Const((x == y) == (f == "Eq"))

    # ---- arithmetic / comparison folding on constants
    if f in _BINOPS and n == 2 and not kw:
        a, b = args
        if isinstance(a, Const) and isinstance(b, Const):
            try:
                return Const(_fold_binop(f, a.v, b.v))
            except Exception:
                pass
        if f == "Mod" and isinstance(a, Const) and a.v == "%0*x" and isinstance(b, TupleV) and len(b.items) == 2:
            wd, val = b.items                            # "%0*x" % (2*W, v)
            if is_app(wd, "Mult") and Const(2) in wd.args:
                return App("hexw", (val, wd.args[0] if wd.args[1] == Const(2) else wd.args[1]))
            if isinstance(wd, Const) and isinstance(wd.v, int) and wd.v % 2 == 0:
                return App("hexw", (val, Const(wd.v // 2)))
        if f == "Mod" and isinstance(a, Const) and isinstance(a.v, bytes) and b"%" in a.v:
            # b"...%s..." % (x, y): only %s conversions of byte-string arguments -> concatenation
            parts = a.v.split(b"%s")
            vals = list(b.items) if isinstance(b, TupleV) and b.kind == "tuple" else [b]
            if len(parts) == len(vals) + 1 and all(b"%" not in p_ for p_ in parts) and all(ty_of(v) == "bytes" for v in vals):
                seq = []
                for i, p_ in enumerate(parts):
                    if p_:
                        seq.append(Const(p_))
                    if i < len(vals):
                        seq.append(vals[i])
                return mk_app("cat", tuple(seq))
        if f == "Mod" and (ty_of(a) in ("str", "bytes")):
            w = _hex_width(a)
            if w is not None and not isinstance(b, TupleV):
                return App("hexw", (b, w))              # "%0{2W}x" % v: zero-padded lower-case hex, 2W digits
            return App("fmt", args)                     # other printf-style formatting stays opaque
        if f == "FloorDiv" and isinstance(b, Const) and isinstance(b.v, int) and not isinstance(b.v, bool) and b.v > 1 \
                and b.v & (b.v - 1) == 0 and ty_of(a) == "int":
            return mk_app("RShift", (a, Const(b.v.bit_length() - 1)))    # x // 2^k == x >> k for every int
        if f == "Mod" and isinstance(b, Const) and isinstance(b.v, int) and not isinstance(b.v, bool) and b.v > 0 and is_app(a, "Mult") \
                and any(isinstance(x, Const) and isinstance(x.v, int) and not isinstance(x.v, bool) and x.v % b.v == 0 for x in a.args) \
                and all(ty_of(x) == "int" for x in a.args):
            return Const(0)                            # (k*m * x) % m == 0
        # arithmetic units
        if f in ("Add", "Sub") and isinstance(b, Const) and b.v == 0 and not isinstance(b.v, bool) and ty_of(a) == "int":
            return a
        if f == "Add" and isinstance(a, Const) and a.v == 0 and not isinstance(a.v, bool) and ty_of(b) == "int":
            return b
        if f == "Mult" and isinstance(b, Const) and b.v == 1 and not isinstance(b.v, bool) and ty_of(a) == "int":
            return a
        if f == "Mult" and isinstance(a, Const) and a.v == 1 and not isinstance(a.v, bool) and ty_of(b) == "int":
            return b
        if f in ("BitOr", "BitXor", "LShift", "RShift") and isinstance(b, Const) and b.v == 0 and not isinstance(b.v, bool) and ty_of(a) == "int":
            return a
        if f in ("BitOr", "BitXor") and isinstance(a, Const) and a.v == 0 and not isinstance(a.v, bool) and ty_of(b) == "int":
            return b
        # bytes/list concatenation -> cat / list
        if f == "Add":
            ta, tb = ty_of(a), ty_of(b)
            if ta == "bytes" or tb == "bytes" or is_app(a, "cat") or is_app(b, "cat"):
                return mk_app("cat", (a, b))          # a+b on bytes == b"".join([a,b])
            if isinstance(a, TupleV) and isinstance(b, TupleV) and a.kind == b.kind:
                return TupleV(a.items + b.items, a.kind)   # list/tuple concatenation
            if isinstance(a, TupleV) and a.kind == "list" and len(a.items) == 1 and is_app(b, "slice") \
                    and b.args[1:] == (Const(1), NONE, NONE) and any(is_app(x, "index") and x.args == (b.args[0], Const(0)) for x in subterms(a.items[0])):
                return App("setitem", (b.args[0], Const(0), a.items[0]))   # [f(D[0])] + D[1:] == D with D[0] := f(D[0])
        if f in _COMMUTATIVE or (f == "Add" and ty_of(a) == "int" and ty_of(b) == "int"):
            if a._key > b._key:
                args = (b, a)                          # commutative operators sorted
        return App(f, args)
    if f in _CMPOPS and n == 2:
        a, b = args
        if isinstance(a, Const) and isinstance(b, Const):
            try:
                return Const(bool(_CMPOPS[f](a.v, b.v)))
            except Exception:
                pass
        if f in ("Eq", "NotEq"):
            if a._key == b._key:
                return Const(f == "Eq")               # t == t (all Apps are pure: C16)
            # distinct heap objects / classes / functions compare by identity
            if isinstance(a, (Obj, ClassV, FuncV, ModV)) and isinstance(b, (Obj, ClassV, FuncV, ModV)):
                return Const(f != "Eq")
            if a._key > b._key:
                args = (b, a)
        if f in ("Lt", "LtE", "Gt", "GtE"):
            # range facts of x % m for a positive constant m: 0 <= x % m < m
            lo, hi, strict = (a, b, f == "Lt") if f in ("Lt", "LtE") else (b, a, f == "Gt")
            def _modpos(t):
                return is_app(t, "Mod") and isinstance(t.args[1], Const) and isinstance(t.args[1].v, int) \
                    and not isinstance(t.args[1].v, bool) and t.args[1].v > 0 and ty_of(t.args[0]) == "int"
            if isinstance(lo, Const) and isinstance(lo.v, int) and not isinstance(lo.v, bool) and _modpos(hi):
                if lo.v < 0 or (lo.v == 0 and not strict):
                    return Const(True)                 # c <= x % m for c <= 0
                if lo.v >= hi.args[1].v:
                    return Const(False)
            if isinstance(hi, Const) and isinstance(hi.v, int) and not isinstance(hi.v, bool) and _modpos(lo):
                if hi.v >= lo.args[1].v or (hi.v == lo.args[1].v - 1 and not strict):
                    return Const(True)                 # x % m < c for c >= m
                if hi.v < 0 or (hi.v == 0 and strict):
                    return Const(False)
        if f == "Gt":
            return App("Lt", (b, a))                  # one spelling per ordering: a > b is b < a
        if f == "GtE":
            return App("LtE", (b, a))
        return App(f, args)
    if f in ("Is", "IsNot") and n == 2:
        a, b = args
        ident = (Obj, ClassV, FuncV, ModV)
        if isinstance(a, ident) and isinstance(b, ident):
            return Const((a._key == b._key) == (f == "Is"))
        if isinstance(a, Const) and isinstance(b, Const) and (a.v is None or b.v is None
                                                              or isinstance(a.v, bool)):
            return Const((a.v is b.v) == (f == "Is"))
        if (isinstance(a, ident) and isinstance(b, Const)) or (isinstance(b, ident) and isinstance(a, Const)):
            return Const(f != "Is")
        for x, y in ((a, b), (b, a)):
            if isinstance(y, Const) and y.v is None and not isinstance(x, Const) and ty_of(x) not in (None, "NoneType"):
                return Const(f != "Is")                 # a value of known (non-None) type is not None
        if a._key == b._key:
            return Const(f == "Is")
        if a._key > b._key:
            args = (b, a)
        return App(f, args)
    if f == "Invert" and n == 1 and is_app(args[0], "flag"):
        return App(f, args)
    if f in ("In", "NotIn") and n == 2:
        a, b = args
        if (isinstance(b, TupleV) and not b.items) or (isinstance(b, DictV) and not b.items) or \
                (is_app(b, "set", "dict", "list") and not b.args and not b.kw):
            return Const(f == "NotIn")                  # nothing is a member of an empty container
        if isinstance(b, TupleV):
            if isinstance(a, Const) and all(isinstance(i, Const) for i in b.items):
                r = a.v in [i.v for i in b.items]
                return Const(r if f == "In" else not r)
            if any(i._key == a._key for i in b.items):
                return Const(f == "In")
            if 1 <= len(b.items) <= 4 and all(isinstance(i, Const) for i in b.items) and not isinstance(a, Const):
                # x in (c1, c2, ..): x == c1 or x == c2 or ..  (each alternative becomes a fact of its own on a path)
                acc = None
                for i in reversed(b.items):
                    e = mk_app("Eq", (a, i))
                    acc = e if acc is None else mk_app("Or", (e, acc))
                return acc if f == "In" else mk_app("Not", (acc,))
        if isinstance(a, Const) and isinstance(b, Const):
            try:
                r = a.v in b.v
                return Const(r if f == "In" else not r)
            except Exception:
                pass
        if isinstance(b, DictV) and isinstance(a, Const):
            r = a.v in b.items
            return Const(r if f == "In" else not r)
        return App(f, args)
    if f in ("Or", "And") and n == 2 and isinstance(args[0], Const):
        t = bool(args[0].v)
        return args[0] if t == (f == "Or") else args[1]   # value of `a or b` / `a and b` for a constant a
    if f == "Not" and n == 1:
        a = args[0]
        if isinstance(a, Const):
            return Const(not a.v)
        if is_app(a, "Not") and ty_of(a.args[0]) == "bool":
            return a.args[0]
        neg = {"Eq": "NotEq", "NotEq": "Eq", "Lt": "GtE", "GtE": "Lt", "Gt": "LtE", "LtE": "Gt",
               "In": "NotIn", "NotIn": "In", "Is": "IsNot", "IsNot": "Is"}
        # not (a < b) is kept as Not(Lt): <,> need not be total on arbitrary objects;
        # equality/identity/membership negate exactly.
        if isinstance(a, App) and a.f in ("Eq", "NotEq", "In", "NotIn", "Is", "IsNot"):
            return mk_app(neg[a.f], a.args)
        return App(f, args)
    if f == "USub" and n == 1:
        a = args[0]
        if isinstance(a, Const):
            try:
                return Const(-a.v)
            except Exception:
                pass
        if is_app(a, "USub"):
            return a.args[0]
        return App(f, args)
    if f in ("UAdd", "Invert") and n == 1 and isinstance(args[0], Const):
        try:
            return Const(+args[0].v if f == "UAdd" else ~args[0].v)
        except Exception:
            pass

    # ---- byte-string idioms
    if f == "cat":
        flat = []
        for a in args:
            if is_app(a, "cat"):
                flat.extend(a.args)                     # associativity of concatenation
            elif isinstance(a, Const) and a.v == b"":
                continue                               # b"" is the unit
            else:
                flat.append(a)
        # merge adjacent constants
        out = []
        for a in flat:
            if out and isinstance(a, Const) and isinstance(out[-1], Const) \
                    and isinstance(a.v, bytes) and isinstance(out[-1].v, bytes):
                out[-1] = Const(out[-1].v + a.v)
            else:
                out.append(a)
        if not out:
            return Const(b"")
        if len(out) == 1:
            return out[0]
        return App("cat", out)
    if f == ".join" and n == 2 and not kw:
        sep, seq = args
        if isinstance(sep, Const) and sep.v == "" and is_app(seq, "maplam"):
            body, it = seq.args
            if is_app(body, "hexw") and body.args[1] == Const(1) and isinstance(body.args[0], Sym) \
                    and body.args[0].n.startswith("\u03bb"):
                return mk_app("hexs", (App("bytes", (it,)),))   # "".join("%02x" % b for b in L) == hexlify(bytes(L))
        if isinstance(sep, Const) and sep.v == b"" and isinstance(seq, TupleV):
            return mk_app("cat", seq.items)             # b"".join([a,b,..]) == a+b+..
        if isinstance(sep, Const) and isinstance(seq, TupleV) and all(isinstance(i, Const) for i in seq.items):
            try:
                return Const(sep.v.join([i.v for i in seq.items]))
            except Exception:
                pass
        return App(f, args)
    if f in ("binascii.hexlify", "hexb") and n == 1:
        a = args[0]
        if isinstance(a, Const) and isinstance(a.v, bytes):
            import binascii
            return Const(binascii.hexlify(a.v))
        return App("hexb", args)
    if f in ("binascii.unhexlify", "binascii.a2b_hex", "bytes.fromhex") and n == 1:
        a = args[0]
        if is_app(a, "hexb", "hexs"):
            return a.args[0]                            # unhexlify(hexlify(x)) == x
        if isinstance(a, Const) and isinstance(a.v, (bytes, str)):
            import binascii
            try:
                return Const(binascii.unhexlify(a.v))
            except Exception:
                pass
        if is_app(a, ".encode") and len(a.args) == 2 and isinstance(a.args[1], Const) \
                and str(a.args[1].v).lower() in ("ascii", "utf-8", "utf8", "latin-1"):
            return mk_app("binascii.unhexlify", (a.args[0],))   # unhexlify accepts ASCII str and bytes alike
        if is_app(a, "hexw"):
            return mk_app("int2be", a.args)            # unhexlify("%0{2W}x" % v) == v.to_bytes(W, "big") for 0 <= v < 256^W
        return App("unhex", args)
    if f == "hexs" and n == 1 and isinstance(args[0], Const) and isinstance(args[0].v, bytes):
        import binascii
        return Const(binascii.hexlify(args[0].v).decode("ascii"))
    if f == ".hex" and n == 1 and not kw and ty_of(args[0]) == "bytes":
        return mk_app("hexs", args)                     # b.hex() == hexlify(b).decode()
    if f == ".hex" and n == 1 and not kw and is_app(args[0], "memoryview") and len(args[0].args) == 1 and ty_of(args[0].args[0]) == "bytes":
        return mk_app("hexs", args[0].args)             # memoryview(b).hex() == b.hex()
    if f in (".decode", ".encode") and n >= 1:
        a = args[0]
        enc = args[1] if n > 1 else dict(kw).get("encoding", Const("utf-8"))
        asciiish = isinstance(enc, Const) and str(enc.v).lower().replace("_", "-") in ("ascii", "utf-8", "utf8", "latin-1", "latin1")
        if isinstance(a, Const) and isinstance(enc, Const):
            try:
                return Const(getattr(a.v, f[1:])(enc.v))
            except Exception:
                pass
        if asciiish:
            if f == ".decode" and is_app(a, "hexb"):
                return mk_app("hexs", a.args)           # hex digits are ASCII
            if f == ".encode" and is_app(a, "hexs"):
                return mk_app("hexb", a.args)
            inv = ".encode" if f == ".decode" else ".decode"
            if is_app(a, inv):
                e2 = a.args[1] if len(a.args) > 1 else dict(a.kw).get("encoding", Const("utf-8"))
                if e2 == enc:
                    return a.args[0]                    # x.encode(e).decode(e) == x when no raise
        return App(f, (a, enc))
    if f in ("hashlib.sha256", "sha256") and n == 1:
        return App("sha256obj", args)
    if f in ("hashlib.sha256", "sha256") and n == 0 and not kw:
        return App("sha256obj", (Const(b""),))          # sha256() then .update(x)...
    if f == ".digest" and n == 1 and is_app(args[0], "sha256obj"):
        return App("H", args[0].args)                   # sha256(x).digest()
    if f == ".hexdigest" and n == 1 and is_app(args[0], "sha256obj"):
        return mk_app("hexs", (App("H", args[0].args),))  # hexdigest() == hexlify(digest())
    if f == "json.loads" and n == 1:
        a = args[0]
        if is_app(a, "json.dumps") and len(a.args) == 1 and not a.kw:
            d = a.args[0]
            if isinstance(d, DictV) and all(isinstance(k, str) for k in d.items) \
                    and all(ty_of(v) == "str" for v in d.items.values()):
                return d                                # JSON round trip of a str->str dict
        return App(f, args)
    if f == "int" and n == 2 and isinstance(args[1], Const) and args[1].v == 16:
        a = args[0]
        if is_app(a, "hexb", "hexs"):
            return mk_app("be2int", a.args)             # int(hexlify(b),16) == int.from_bytes(b,'big')
        if isinstance(a, Const):
            try:
                return Const(int(a.v, 16))
            except Exception:
                pass
        return App(f, args)
    if f == ".__enter__" and n == 1 and not kw and is_app(args[0], "memoryview"):
        return args[0]                                  # a memoryview is its own context-manager value
    if f == "int.to_bytes" and n == 3 and not kw:
        return mk_app(".to_bytes", args)                # int.to_bytes(x, n, order) == x.to_bytes(n, order)
    if f == "int.bit_length" and n == 1 and not kw:
        return mk_app("bit_length", args)
    if f == "int.from_bytes" and n >= 1 and is_app(args[0], "memoryview") and len(args[0].args) == 1 and ty_of(args[0].args[0]) == "bytes":
        return mk_app(f, (args[0].args[0],) + tuple(args[1:]), kw)     # the bytes of a view of b are b
    if f == "int.from_bytes" and n >= 1:
        order = args[1] if n > 1 else dict(kw).get("byteorder", Const("big"))
        if isinstance(order, Const) and order.v == "big" and not dict(kw).get("signed"):
            return mk_app("be2int", (args[0],))
        if isinstance(order, Const) and order.v == "little" and not dict(kw).get("signed"):
            return mk_app("be2int", (mk_app("rev", (args[0],)),))
    if f == "be2int" and n == 1 and isinstance(args[0], Const) and isinstance(args[0].v, bytes):
        return Const(int.from_bytes(args[0].v, "big"))
    if f == ".to_bytes" and n == 3 and ty_of(args[0]) == "int" and isinstance(args[2], Const) and not kw:
        if args[2].v == "big":
            return mk_app("int2be", (args[0], args[1]))
        if args[2].v == "little":
            return mk_app("rev", (mk_app("int2be", (args[0], args[1])),))
    if f == "int2be" and n == 2 and not kw and all(isinstance(a, Const) and isinstance(a.v, int) and not isinstance(a.v, bool) for a in args) \
            and 0 <= args[1].v <= 1024 and 0 <= args[0].v < 256 ** args[1].v:
        return Const(args[0].v.to_bytes(args[1].v, "big"))
    if f == "rev" and n == 1:
        a = args[0]
        if is_app(a, "rev"):
            return a.args[0]                            # s[::-1][::-1] == s
        if isinstance(a, Const):
            try:
                return Const(a.v[::-1])
            except Exception:
                pass
        return App(f, args)
    if f == "slice" and n == 4:
        o, lo, hi, step = args
        if isinstance(o, Const) and all(isinstance(p, Const) for p in (lo, hi, step)):
            try:
                return Const(o.v[slice(lo.v, hi.v, step.v)])
            except Exception:
                pass
        if isinstance(o, TupleV) and all(isinstance(p, Const) for p in (lo, hi, step)):
            return TupleV(o.items[slice(lo.v, hi.v, step.v)], o.kind)
        if is_app(o, "cat") and step == NONE and isinstance(o.args[0], Const) and isinstance(o.args[0].v, bytes):
            c = o.args[0].v            # slicing a concatenation with a constant prefix
            lo_v = 0 if lo == NONE else lo.v if isinstance(lo, Const) else None
            if isinstance(lo_v, int) and lo_v >= 0:
                if isinstance(hi, Const) and isinstance(hi.v, int) and lo_v <= hi.v <= len(c):
                    return Const(c[lo_v:hi.v])
                if hi == NONE and lo_v <= len(c):
                    return mk_app("cat", (Const(c[lo_v:]),) + tuple(o.args[1:]))
        if lo == NONE and step == NONE and is_app(o, ".derive") and isinstance(o.args[0], App) and dict(o.args[0].kw).get("length") == hi:
            return o                                    # HKDF output has exactly `length` bytes: okm[:length] == okm
        if lo == NONE and hi == NONE and isinstance(step, Const) and step.v == -1:
            return mk_app("rev", (o,))
        if lo == NONE and hi == NONE and step == NONE:
            return o if ty_of(o) in ("bytes", "str", "tuple") else App(f, args)
        if isinstance(lo, Const) and lo.v == 0:
            return App(f, (o, NONE, hi, step))          # s[0:k] == s[:k]
        return App(f, args)
    if f in ("set", "frozenset") and n == 1 and not kw and isinstance(args[0], TupleV):
        uniq = {}
        for i in args[0].items:
            uniq.setdefault(i._key, i)
        return TupleV([uniq[k] for k in sorted(uniq)], "set")   # a set literal: order-free, duplicates merged
    if f == "sorted" and n == 1 and not kw:
        a = args[0]
        if isinstance(a, TupleV):
            if all(isinstance(i, Const) for i in a.items):
                try:
                    return TupleV([Const(x) for x in sorted(i.v for i in a.items)], "list")
                except Exception:
                    pass
            if len(a.items) <= 1:
                return TupleV(list(a.items), "list")
            if len(a.items) == 2:
                x, y = sorted(a.items, key=lambda t: t._key)
                return TupleV([App("min2", (x, y)), App("max2", (x, y))], "list")
        return App(f, args)
    if f in ("min", "max", "min2", "max2") and n == 2 and not kw and all(isinstance(a, Const) for a in args):
        try:
            return Const(min(args[0].v, args[1].v) if f.startswith("min") else max(args[0].v, args[1].v))
        except Exception:
            pass
    if f in ("max", "max2") and n == 2 and not kw and any(a == Const(1) for a in args) and \
            any(isinstance(a, App) and a.f == "bit_length" for a in args):
        bl = [a for a in args if isinstance(a, App) and a.f == "bit_length"][0]
        return mk_app("Or", (bl, Const(1)))                # bit_length >= 0: max(b, 1) == (b or 1)
    if f in ("min", "max", "min2", "max2") and n == 2 and not kw:
        x, y = sorted(args, key=lambda t: t._key)
        if x == y:
            return x
        return App(f[:3] + "2", (x, y))                 # min/max are symmetric: arguments sorted
    if f in ("list", "tuple", "bytes", "bytearray", "sorted", "set", "frozenset") and n == 1 and not kw and is_app(args[0], "iter") \
            and len(args[0].args) == 1:
        return mk_app(f, (args[0].args[0],))            # f(iter(x)) == f(x)
    if f == "zip" and n >= 1 and not kw and all(isinstance(a, TupleV) for a in args):
        k = min(len(a.items) for a in args)
        return TupleV([TupleV([a.items[i] for a in args], "tuple") for i in range(k)], "list")
    if f == "enumerate" and n in (1, 2) and isinstance(args[0], TupleV) and (n == 1 or isinstance(args[1], Const)) \
            and (not kw or (len(kw) == 1 and kw[0][0] == "start" and isinstance(kw[0][1], Const))):
        start = args[1].v if n == 2 else (kw[0][1].v if kw else 0)
        if isinstance(start, int):
            return TupleV([TupleV([Const(start + i), x], "tuple") for i, x in enumerate(args[0].items)], "list")
    if f == "reversed" and n == 1 and not kw and isinstance(args[0], TupleV) and not any(is_app(i, "star") for i in args[0].items):
        return TupleV(list(args[0].items)[::-1], "list")
    if f == "range" and 1 <= n <= 3 and not kw and all(isinstance(a, Const) and isinstance(a.v, int) for a in args):
        try:
            r = range(*[a.v for a in args])
            if len(r) <= 256:
                return TupleV([Const(i) for i in r], "list")
        except Exception:
            pass
    if f == "all" and n == 1 and not kw and is_app(args[0], "maplam") and is_app(args[0].args[1], "hexs", "hexb") \
            and is_app(args[0].args[0], "In") and isinstance(args[0].args[0].args[0], Sym):
        alpha = args[0].args[0].args[1]
        chars = alpha.v if isinstance(alpha, Const) else ("0123456789abcdefABCDEF" if isinstance(alpha, ExtV) and alpha.name == "string.hexdigits" else None)
        if isinstance(chars, (str, bytes)) and all((c in chars) for c in ("0123456789abcdef" if isinstance(chars, str) else b"0123456789abcdef")):
            return Const(True)                          # hexlify output consists of the digits 0-9a-f
    if f in ("any", "all") and n == 1 and not kw and isinstance(args[0], TupleV):
        acc = None
        for x in reversed(args[0].items):
            x = x if ty_of(x) == "bool" else mk_app("bool", (x,))
            acc = x if acc is None else mk_app("Or" if f == "any" else "And", (x, acc))
        return Const(f == "all") if acc is None else acc     # any([a, b]) == bool(a) or bool(b)
    if f in ("bytes", "bytearray") and n == 1 and not kw and isinstance(args[0], TupleV) \
            and all(isinstance(i, Const) and isinstance(i.v, int) and not isinstance(i.v, bool) and 0 <= i.v < 256 for i in args[0].items):
        return Const(bytes(i.v for i in args[0].items)) if f == "bytes" else App(f, (Const(bytes(i.v for i in args[0].items)),))
    if f == "dict" and n == 1 and not kw and isinstance(args[0], TupleV) and all(isinstance(i, TupleV) and len(i.items) == 2
                                                                                  and isinstance(i.items[0], Const) for i in args[0].items):
        try:
            return DictV([(i.items[0].v, i.items[1]) for i in args[0].items])
        except TypeError:
            pass
    if f == "dict" and n == 1 and not kw and isinstance(args[0], DictV):
        return args[0]
    if f == "divmod" and n == 2 and not kw and all(ty_of(a) in ("int", None) for a in args):
        return TupleV([mk_app("FloorDiv", args), mk_app("Mod", args)], "tuple")    # divmod(a, b) == (a // b, a % b)
    if f == "len" and n == 1 and is_app(args[0], "call") and len(args[0].args) == 2 and isinstance(args[0].args[0], Sym) \
            and args[0].args[0].n.startswith("entropy_f") and not args[0].kw:
        return args[0].args[1]                          # A5: entropy_f(n) returns exactly n bytes
    if f == "len" and n == 1 and is_app(args[0], "setitem") and len(args[0].args) == 3:
        return mk_app("len", (args[0].args[0],))        # item assignment keeps the length
    if f == "len" and n == 1 and is_app(args[0], "list", "bytearray", "bytes", "tuple") and len(args[0].args) == 1 and not args[0].kw \
            and ty_of(args[0].args[0]) in ("bytes", "list", "bytearray"):
        return mk_app("len", (args[0].args[0],))        # list(b) / bytes(b) of a sequence: same number of items
    if f == "len" and n == 1 and is_app(args[0], "hexs", "hexb") and len(args[0].args) == 1:
        return mk_app("Mult", (Const(2), mk_app("len", args[0].args)))     # two hex digits per byte
    if f == "len" and n == 1:
        a = args[0]
        if isinstance(a, Const):
            try:
                return Const(len(a.v))
            except Exception:
                pass
        if isinstance(a, TupleV):
            return Const(len(a.items))
        if isinstance(a, DictV):
            return Const(len(a.items))
        if is_app(a, "H"):
            return Const(32)
        if is_app(a, ".derive") and isinstance(a.args[0], App) and isinstance(dict(a.args[0].kw).get("length"), Const):
            return dict(a.args[0].kw)["length"]         # HKDF output has exactly `length` bytes
        if is_app(a, "rev"):
            return mk_app("len", a.args)
        if is_app(a, "int2be") and len(a.args) == 2:
            return a.args[1]                            # the fixed-width encoding has exactly its width
        return App(f, args)
    if f == "bool" and n == 1:
        a = args[0]
        if isinstance(a, Const):
            return Const(bool(a.v))
        if ty_of(a) == "bool":
            return a
        return App(f, args)
    if f in ("int", "str", "bytes", "abs", "ord", "chr", "hex", "bin", "float", "repr", "divmod", "round") and not kw \
            and all(isinstance(a, Const) for a in args) and n >= 1:
        import builtins
        try:
            v = getattr(builtins, f)(*[a.v for a in args])
            if isinstance(v, (int, str, bytes, float, bool, tuple)):
                return _const_val(v)
        except Exception:
            pass
    if f == "int" and n == 1 and ty_of(args[0]) == "int":
        return args[0]
    if f == "int" and n == 1 and is_app(args[0], "str") and len(args[0].args) == 1 and ty_of(args[0].args[0]) == "int":
        return args[0].args[0]                          # int(str(i)) == i
    _INV = {"base64.b64decode": "base64.b64encode", "base64.b32decode": "base64.b32encode",
            "base64.b16decode": "base64.b16encode", "base64.urlsafe_b64decode": "base64.urlsafe_b64encode",
            "base64.standard_b64decode": "base64.standard_b64encode", "base64.b85decode": "base64.b85encode",
            "base64.a85decode": "base64.a85encode", "zlib.decompress": "zlib.compress"}
    if f in _INV and n == 1 and not kw:
        a = args[0]
        if is_app(a, ".encode", ".decode") and is_app(a.args[0], ".decode", ".encode"):
            a = a.args[0].args[0] if a.args[0].f != a.f else a
        elif is_app(a, ".encode") and is_app(a.args[0], ".decode"):
            a = a.args[0].args[0]
        if is_app(a, _INV[f]) and len(a.args) == 1 and not a.kw:
            return a.args[0]                            # decode(encode(x)) == x for the stdlib codec pairs
    if f == "pow" and n == 3 and all(isinstance(a, Const) and isinstance(a.v, int) for a in args):
        try:
            return Const(pow(args[0].v, args[1].v, args[2].v))   # constants of the program only
        except Exception:
            pass
    if f == "pow" and n == 2:
        return mk_app("Pow", args)
    if f in ("math.ceil", "math.floor") and n == 1 and isinstance(args[0], Const):
        import math
        try:
            return Const(getattr(math, f[5:])(args[0].v))
        except Exception:
            pass
    if f == ".bit_length" and n == 1:
        if isinstance(args[0], Const) and isinstance(args[0].v, int):
            return Const(args[0].v.bit_length())
        return App("bit_length", args)
    if f == "type" and n == 1:
        t = ty_of(args[0])
        if t in ("bytes", "str", "int", "bool", "tuple", "list", "dict", "float"):
            return ExtV("builtins." + t)
    if f == "hasattr" and n == 2 and isinstance(args[1], Const):
        t = ty_of(args[0])
        if t in ("int", "bytes", "str", "bool", "tuple", "list", "dict", "float"):
            import builtins
            return Const(hasattr(getattr(builtins, t), args[1].v))
    if f == "index" and n == 2 and is_app(args[0], "setitem") and isinstance(args[1], Const) and isinstance(args[0].args[1], Const):
        base, kk, vv = args[0].args
        if kk == args[1]:
            return vv
        return mk_app("index", (base, args[1]))
    if f == "index" and n == 2:
        o, k = args
        if isinstance(k, Const):
            if isinstance(o, DictV) and k.v in o.items:
                return o.items[k.v]
            if isinstance(o, TupleV) and isinstance(k.v, int) and -len(o.items) <= k.v < len(o.items):
                return o.items[k.v]
            if isinstance(o, Const):
                try:
                    return _const_val(o.v[k.v])
                except Exception:
                    pass
    if f == "getattr" and n == 2 and isinstance(args[1], Const):
        o = args[0]
        if is_app(o, "memoryview") and len(o.args) == 1 and ty_of(o.args[0]) == "bytes":
            # a view of a bytes object: one-dimensional, C-contiguous, itemsize 1
            if args[1].v in ("c_contiguous", "contiguous", "readonly"):
                return Const(True)
            if args[1].v == "nbytes":
                return mk_app("len", (o.args[0],))
            if args[1].v == "itemsize" or args[1].v == "ndim":
                return Const(1)
        return App(f, args)
    if f in (".tobytes", "bytes") and n == 1 and not kw and is_app(args[0], "memoryview") and len(args[0].args) == 1 \
            and ty_of(args[0].args[0]) == "bytes":
        return args[0].args[0]                          # memoryview(b).tobytes() == b for a bytes object b
    if f == "operator.index" and n == 1 and not kw and ty_of(args[0]) == "int":
        return args[0]                                  # operator.index(i) == i for an int
    return App(f, args, kw)


def _hex_width(fmt):
    """W (a term) if fmt is the format string '%0{2W}x', else None."""
    import re
    if isinstance(fmt, Const) and isinstance(fmt.v, str):
        m = re.match(r"^%0(\d+)x$", fmt.v)
        if m and int(m.group(1)) % 2 == 0:
            return Const(int(m.group(1)) // 2)
        return None
    # "%0" + str(2*W) + "x"
    if is_app(fmt, "Add") and len(fmt.args) == 2 and fmt.args[1] == Const("x") and is_app(fmt.args[0], "Add") \
            and fmt.args[0].args[0] == Const("%0") and is_app(fmt.args[0].args[1], "str") and len(fmt.args[0].args[1].args) == 1:
        d = fmt.args[0].args[1].args[0]
        if is_app(d, "Mult") and Const(2) in d.args:
            return d.args[0] if d.args[1] == Const(2) else d.args[1]
    return None


def _const_val(v):
    if isinstance(v, tuple):
        return TupleV([_const_val(x) for x in v], "tuple")
    if isinstance(v, list):
        return TupleV([_const_val(x) for x in v], "list")
    return Const(v)


# ----------------------------------------------------------------------------
# traversal helpers

def canon_id(t, ren, table, memo):
    """Identity of a term up to a renaming of heap object ids (ren: oid -> canonical number):
    a small integer from `table` (shared between the terms to be compared)."""
    k = t._key
    if k in memo:
        return memo[k]
    if isinstance(t, (Obj, IterV)):
        c = ("O" if isinstance(t, Obj) else "I", ren.get(t.oid, t.oid))
    elif isinstance(t, App):
        c = ("A", t.f, tuple(canon_id(a, ren, table, memo) for a in t.args),
             tuple((kk, canon_id(v, ren, table, memo)) for kk, v in t.kw))
    elif isinstance(t, TupleV):
        c = ("T", t.kind, tuple(canon_id(a, ren, table, memo) for a in t.items))
    elif isinstance(t, DictV):
        c = ("D", tuple(sorted((repr(kk), canon_id(v, ren, table, memo)) for kk, v in t.items.items())))
    elif isinstance(t, Bound):
        c = ("B", canon_id(t.func, ren, table, memo), canon_id(t.recv, ren, table, memo))
    else:
        c = ("X", k)
    i = table.get(c)
    if i is None:
        i = len(table) + 1
        table[c] = i
    memo[k] = i
    return i


def subterms(t, seen=None):
    """All subterms of t (DAG traversal, each once)."""
    if seen is None:
        seen = {}
    stack = [t]
    while stack:
        x = stack.pop()
        if x._key in seen:
            continue
        seen[x._key] = x
        if isinstance(x, App):
            stack.extend(x.args)
            stack.extend(v for _, v in x.kw)
        elif isinstance(x, TupleV):
            stack.extend(x.items)
        elif isinstance(x, DictV):
            stack.extend(x.items.values())
        elif isinstance(x, Bound):
            stack.append(x.recv)
    return list(seen.values())


def subst(t, mapping, memo=None):
    """Replace subterms (by key) according to mapping {term: term}; re-normalises."""
    if memo is None:
        memo = {}
        mapping = {k._key: v for k, v in mapping.items()}
    k = t._key
    if k in mapping:
        return mapping[k]
    if k in memo:
        return memo[k]
    if isinstance(t, App):
        r = mk_app(t.f, [subst(a, mapping, memo) for a in t.args],
                   [(kk, subst(v, mapping, memo)) for kk, v in t.kw])
    elif isinstance(t, TupleV):
        r = TupleV([subst(a, mapping, memo) for a in t.items], t.kind)
    elif isinstance(t, DictV):
        r = DictV([(kk, subst(v, mapping, memo)) for kk, v in t.items.items()])
    else:
        r = t
    memo[k] = r
    return r


def order_facts(conds):
    """From path conditions [(term, polarity), ...] collect the ordering facts between pairs of
    terms: {(a._key, b._key): (a, b)} meaning a <= b is known, 'strict' ones in a second dict.
    Returns (le, is_order) where is_order(term) tells whether a condition is such a comparison."""
    le = {}
    for (t, pol) in conds:
        if not (isinstance(t, App) and t.f in ("Lt", "LtE", "Gt", "GtE") and len(t.args) == 2):
            continue
        a, b = t.args
        f = t.f
        if not pol:
            f = {"Lt": "GtE", "GtE": "Lt", "Gt": "LtE", "LtE": "Gt"}[f]
        if f in ("Lt", "LtE"):
            le[(a._key, b._key)] = (a, b)
        else:
            le[(b._key, a._key)] = (b, a)
    return le


def is_order_cond(t, operands=None):
    """Is t an ordering comparison (<, <=, >, >=) of two terms (optionally: both among `operands`)?"""
    if not (isinstance(t, App) and t.f in ("Lt", "LtE", "Gt", "GtE") and len(t.args) == 2):
        return False
    return operands is None or all(any(a == o for o in operands) for a in t.args)


def resolve_order(t, conds):
    """Rewrite min2(a, b) / max2(a, b) inside t to the operand the path conditions select
    (a finite set of orderings: on a path where a <= b is known, min is a and max is b)."""
    le = order_facts(conds)
    if not le:
        return t
    mapping = {}
    for x in subterms(t):
        if isinstance(x, App) and x.f in ("min2", "max2") and len(x.args) == 2:
            a, b = x.args
            if (a._key, b._key) in le:
                mapping[x] = a if x.f == "min2" else b
            elif (b._key, a._key) in le:
                mapping[x] = b if x.f == "min2" else a
    return subst(t, mapping) if mapping else t


def show(t, depth=0, maxdepth=12):
    """Compact printable form for reports and evidence."""
    if depth > maxdepth:
        return "..."
    if isinstance(t, Const):
        v = t.v
        if isinstance(v, int) and not isinstance(v, bool) and abs(v) > 1 << 64:
            h = "%x" % abs(v)
            return "%s0x%s..%s<%dbit>" % ("-" if v < 0 else "", h[:6], h[-4:], abs(v).bit_length())
        if isinstance(v, (bytes, str)) and len(v) > 40:
            return repr(v[:16]) + ".." + repr(v[-4:]) + "<%d>" % len(v)
        return repr(v)
    if isinstance(t, Sym):
        return "$" + t.n
    if isinstance(t, App):
        a = [show(x, depth + 1, maxdepth) for x in t.args] + \
            ["%s=%s" % (k, show(v, depth + 1, maxdepth)) for k, v in t.kw]
        if t.f == "getattr" and len(t.args) == 2 and isinstance(t.args[1], Const):
            return "%s.%s" % (a[0], t.args[1].v)
        if t.f.startswith(".") and a:
            return "%s%s(%s)" % (a[0], t.f, ", ".join(a[1:]))
        return "%s(%s)" % (t.f, ", ".join(a))
    if isinstance(t, TupleV):
        br = "[]" if t.kind == "list" else "()"
        return br[0] + ", ".join(show(x, depth + 1, maxdepth) for x in t.items) + br[1]
    if isinstance(t, DictV):
        return "{" + ", ".join("%r: %s" % (k, show(v, depth + 1, maxdepth)) for k, v in t.items.items()) + "}"
    return repr(t)
