"""Representation invariant of the Ed25519 element classes: every coordinate stored in an element is a residue in [0, Q).

Needed when some consumer reads a stored coordinate *without reducing it* (an encoder with a `Z == 1` shortcut,
a parity test on a raw X).  Such a consumer is right exactly when no producer can store an unreduced coordinate,
which is a whole-package fact (two cooperating sites): the obligation is checked at every producer of element
objects - module singletons, every public method of the element classes on operands that satisfy the invariant
(induction), the decoders and the seed-to-element derivation - and a failure is reported at the producer.

Everything is decided on terms of the abstract evaluator; nothing is executed."""
import ast

from .terms import Const, Sym, App, TupleV, Obj, FuncV, ClassV, mk_app, is_app, show, subterms
from .loader import AnalysisError
from . import groupmodel as gm


def _conds(o):
    return {(t, p) for (t, p, _) in o.state.pc}


class Inv(object):
    def __init__(self, world, ev):
        self.world, self.ev = world, ev
        _, self.Q = gm.field_prime(world, ev)
        self.forms = gm.formula_functions(world, ev)
        self.assumed = set()          # symbols that satisfy the invariant by induction (coordinates of the operands)
        self._fn = {}

    # ------------------------------------------------------------------ items
    def nonneg(self, t):
        if isinstance(t, Const):
            return isinstance(t.v, int) and t.v >= 0
        if t in self.assumed or is_app(t, "be2int", "len", "bit_length"):
            return True
        if is_app(t, "BitAnd"):
            return any(self.nonneg(a) for a in t.args)
        if is_app(t, "Mod") and isinstance(t.args[1], Const) and isinstance(t.args[1].v, int) and t.args[1].v > 0:
            return True
        if is_app(t, "pow") and len(t.args) == 3:
            return True
        return False

    def nonzero(self, t, conds):
        return (t, True) in conds or (mk_app("NotEq", (t, Const(0))), True) in conds or (mk_app("Eq", (t, Const(0))), False) in conds \
            or (mk_app("Lt", (Const(0), t)), True) in conds or (isinstance(t, Const) and t.v != 0)

    def item(self, t, conds, depth=0):
        """-> None when t is in [0, Q) by its form and the path conditions, else a reason"""
        Q = self.Q
        if isinstance(t, Const):
            ok = isinstance(t.v, int) and not isinstance(t.v, bool) and 0 <= t.v < Q
            return None if ok else "the constant %s" % show(t)
        if t in self.assumed:
            return None
        if (is_app(t, "Mod") and t.args[1] == Const(Q)) or (is_app(t, "pow") and len(t.args) == 3 and t.args[2] == Const(Q)):
            return None
        qc = Const(Q)
        if self.nonneg(t) and ((mk_app("Lt", (t, qc)), True) in conds or (mk_app("LtE", (qc, t)), False) in conds):
            return None
        if is_app(t, "Sub") and t.args[0] == qc and self.item(t.args[1], conds, depth + 1) is None and self.nonzero(t.args[1], conds):
            return None                                   # Q - r with 0 < r < Q
        if is_app(t, "proj") and isinstance(t.args[1], Const) and isinstance(t.args[0], App) and t.args[0].f.startswith("fn:"):
            probs = self.call(t.args[0], depth + 1)
            if isinstance(probs, dict):
                return probs.get(t.args[1].v)
            return probs
        if isinstance(t, App) and t.f.startswith("fn:"):
            probs = self.call(t, depth + 1)
            if isinstance(probs, dict):
                return probs.get(None)
            return probs
        return "%s is not reduced mod Q" % show(t, maxdepth=3)

    # ------------------------------------------------------------------ opaque package functions
    def call(self, c, depth=0):
        """c = fn:<qual>(args...) -> {index or None: reason} over the components of its result ({} = all reduced)"""
        k = c._key
        if k in self._fn:
            return self._fn[k]
        self._fn[k] = {}                                   # (recursion: assume, as for an induction hypothesis)
        res = self._call(c, depth)
        self._fn[k] = res
        return res

    def _call(self, c, depth):
        world, ev = self.world, self.ev
        if depth > 8:
            return {None: "call depth"}
        lc = gm.ladder_call(world, ev, c)
        if lc is not None:
            out = {}
            for q in sorted(lc["uses"]):
                g = gm.func_by_qual(world, q)
                if g is None or ev.policy.ret_shape(g) != 4:
                    continue
                syms = [TupleV([Sym("%s%d_%s" % (ch, i, g.node.name), "int") for ch in "XYZT"]) for i in range(len(g.node.args.args))]
                for s_ in syms:
                    self.assumed.update(s_.items)
                sub = self.call(App("fn:" + q, tuple(syms)), depth + 1)
                for i, why in sub.items():
                    out[i] = "%s (ladder %s uses %s)" % (why, lc["func"].node.name, g.node.name)
            # the ladder may also return its point argument or a constant tuple (base cases)
            for n in ast.walk(lc["func"].node):
                if isinstance(n, ast.Return) and isinstance(n.value, ast.Name) and n.value.id == lc["func"].node.args.args[0].arg:
                    pt = lc["pt"]
                    if isinstance(pt, TupleV):
                        for i, it in enumerate(pt.items):
                            why = self.item(it, set(), depth + 1)
                            if why:
                                out[i] = why
            return out
        g = gm.func_by_qual(world, c.f[3:])
        if g is None:
            return {None: "%s: unknown function" % c.f}
        from .evalr import Ev, Policy
        pol = Policy(world)
        pol.force_inline.add(g.qual)
        for n in ast.walk(g.node):
            if isinstance(n, ast.Call) and isinstance(n.func, ast.Name):
                v = world.static_lookup(g.mod, n.func.id)
                if isinstance(v, FuncV) and v.qual != g.qual and pol.is_leaf_arith(v.node, v.mod) and pol.ret_shape(v) != 4 \
                        and not any(isinstance(x, (ast.If, ast.IfExp)) for x in ast.walk(v.node)):
                    pol.force_inline.add(v.qual)
        e2 = Ev(world, policy=pol)
        try:
            outs = e2.run(g, list(c.args), list(c.kw), world.static.fork())
        except AnalysisError as e:
            return {None: "%s could not be evaluated (%s)" % (g.node.name, e)}
        out = {}
        for o in outs:
            if o.kind != "return":
                continue
            v = o.value
            conds = _conds(o)
            if isinstance(v, TupleV):
                for i, it in enumerate(v.items):
                    why = self.item(it, conds, depth + 1)
                    if why:
                        out[i] = "%s returns %s" % (g.node.name, why)
            else:
                u = gm.unproj(v) if isinstance(v, TupleV) else None
                why = self.item(v, conds, depth + 1) if u is None else None
                if why:
                    out[None] = "%s returns %s" % (g.node.name, why)
        return out

    # ------------------------------------------------------------------ stored tuples
    def stored(self, t, conds):
        """t = the coordinate field of a produced element -> [reasons]"""
        names = "XYZT"
        if isinstance(t, TupleV) and len(t.items) == 4:
            u = gm.unproj(t)
            if u is None:
                out = []
                for i, it in enumerate(t.items):
                    why = self.item(it, conds)
                    if why:
                        out.append("%s: %s" % (names[i], why))
                return out
            t = u
        if isinstance(t, App) and t.f.startswith("fn:"):
            probs = self.call(t)
            return ["%s: %s" % (names[i] if isinstance(i, int) and i < 4 else "result", why) for i, why in sorted(probs.items(), key=lambda kv: str(kv[0]))]
        if isinstance(t, TupleV) and t.kind == "list" and len(t.items) == 4:
            return self.stored(TupleV(t.items), conds)
        return ["coordinates %s not understood" % show(t, maxdepth=3)]


def producer_obligations(world, ev):
    """-> [(instance, ok, detail, site)]: every producer of Ed25519 element objects stores reduced coordinates"""
    from . import session
    from .evalr import Ev
    _, G = gm.group_classes(world, ev)
    m, base = gm.ed_module_of(world, ev)
    zero = world.static.heap[G.oid].get("Zero")
    st0 = world.static
    cfs = [k for k, v in st0.heap[base.oid].items() if isinstance(v, TupleV) and len(v.items) == 4]
    if len(cfs) != 1:
        raise AnalysisError("anchor vanished: Ed25519 element coordinate field")
    cf = cfs[0]
    inv = Inv(world, ev)
    out = []
    # element classes = classes of the Ed25519 module whose instances carry the coordinate field: the class of Base, its bases and subclasses
    root = base.cls.mro()[-1] if base.cls.mro() else base.cls
    ecls = [v for v in m.env.values() if isinstance(v, ClassV) and (v is base.cls or base.cls in v.mro() or v in base.cls.mro() or
                                                                       (isinstance(zero, Obj) and (v is zero.cls or v in zero.cls.mro())))]
    ecls = [c for c in ecls if any(isinstance(n, ast.FunctionDef) for n in c.node.body) or c is base.cls]

    def site_of(cls, name):
        r = cls.lookup(name)
        return (r[2].mod.relpath, r[1].lineno, "%s.%s" % (r[2].name, name)) if r and r[0] == "func" else None
    # (a) module singletons
    for nm, o in (("Base", base), ("Zero", zero)):
        if isinstance(o, Obj) and cf in st0.heap[o.oid]:
            probs = inv.stored(st0.heap[o.oid][cf], set())
            out.append(("singleton %s" % nm, not probs, "stored coordinates are residues" if not probs else "; ".join(probs), None))
    # (b) public methods of the element classes, by induction on operands that satisfy the invariant
    st = st0.fork()
    operands = {}
    for c in ecls:
        for tag in ("1", "2"):
            e = ev.new_obj(c, st)
            tup = TupleV([Sym("%s%s_%s" % (ch, tag, c.name), "int") for ch in "XYZT"])
            inv.assumed.update(tup.items)
            st.heap[e.oid][cf] = tup
            operands[(c.name, tag)] = e
    given = {o.oid for o in operands.values()} | {x.oid for x in (base, zero) if isinstance(x, Obj)}
    n = Sym("n", "int")
    seen_methods = set()
    for c in ecls:
        recv = operands[(c.name, "1")]
        for cc in c.mro():
            if cc not in ecls:
                continue
            for fn in cc.node.body:
                if not isinstance(fn, ast.FunctionDef) or (fn.name.startswith("_") and not (fn.name.startswith("__") and fn.name.endswith("__"))) \
                        or fn.name in ("__init__", "__eq__", "__ne__", "__hash__", "__repr__", "__str__"):
                    continue
                if c.lookup(fn.name)[1] is not fn or (c.name, fn.name) in seen_methods:
                    continue
                seen_methods.add((c.name, fn.name))
                nparams = len(fn.args.args) - 1
                if nparams > 1:
                    continue
                argsets = [[]] if nparams == 0 else [[operands[(k.name, "2")]] for k in ecls] + ([[zero]] if isinstance(zero, Obj) else []) + [[n]]
                for args in argsets:
                    try:
                        outs = ev.run_method(recv, fn.name, args, st=st.fork())
                    except AnalysisError:
                        continue
                    for o in session.rets(outs):
                        v = o.value
                        if isinstance(v, Obj) and v.oid not in given and cf in o.state.heap.get(v.oid, {}):
                            probs = inv.stored(o.state.heap[v.oid][cf], _conds(o))
                            inst = "%s.%s(%s)" % (c.name, fn.name, ", ".join(a.cls.name if isinstance(a, Obj) else "n" for a in args))
                            out.append((inst, not probs, "the result stores residues" if not probs else
                                        "the result stores an unreduced coordinate - " + "; ".join(probs), site_of(c, fn.name)))
    # (c) functions of the group interface that create elements from bytes
    b = Sym("b", "bytes")
    e_once = None
    gcls = G.cls
    for nm in ("bytes_to_element", "arbitrary_element"):
        try:
            outs = ev.run_method(G, nm, [b], st=st0.fork())
        except AnalysisError:
            if e_once is None:
                e_once = Ev(world, loop_mode="once")
                e_once.import_all()
            try:
                outs = e_once.run_method(G, nm, [b], st=st0.fork())
            except AnalysisError as e:
                out.append(("%s(bytes)" % nm, False, "could not be evaluated: %s" % e, site_of(gcls, nm)))
                continue
        opq = [o.value for o in session.rets(outs) if isinstance(o.value, App) and o.value.f.startswith("fn:")]
        if opq:
            # a derivation with a candidate loop stays opaque under the default policy: one symbolic iteration of it
            e3 = Ev(world, loop_mode="once")
            e3.import_all()
            for v in opq:
                e3.policy.force_inline.add(v.f[3:])
            try:
                outs = e3.run_method(G, nm, [b], st=st0.fork())
            except AnalysisError as e:
                out.append(("%s(bytes)" % nm, False, "could not be evaluated: %s" % e, site_of(gcls, nm)))
                continue
        got = 0
        for o in session.rets(outs):
            v = o.value
            if isinstance(v, Obj) and v.oid not in given and cf in o.state.heap.get(v.oid, {}):
                got += 1
                probs = inv.stored(o.state.heap[v.oid][cf], _conds(o))
                out.append(("%s(bytes)" % nm, not probs, "the result stores residues" if not probs else
                            "the result stores an unreduced coordinate - " + "; ".join(probs), o.site or site_of(gcls, nm)))
        if not got:
            out.append(("%s(bytes)" % nm, False, "no returning path with an element object was found", site_of(gcls, nm)))
    # one line per (instance, verdict)
    uniq, res = set(), []
    for x in out:
        if (x[0], x[1], x[2]) not in uniq:
            uniq.add((x[0], x[1], x[2]))
            res.append(x)
    return res
