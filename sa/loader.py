"""Parse the analysed package and resolve names (DESIGN 3.1).

Nothing is imported or executed: modules are `ast` trees read from
$VERIF_REPO/src/spake2 (default /repo).
"""
import ast
import hashlib
import os

from .terms import ClassV, FuncV, ModV, ExtV


class AnalysisError(Exception):
    """The analysis cannot give a verdict (vanished anchor, unsupported construct,
    budget exhausted).  Reported as ANALYSIS-ERROR, exit 2 - never a pass."""


class Decided(AnalysisError):
    """Not a limit of the analysis but a decided fact that ends it: a step every property depends on fails on
    every evaluated path (the package cannot be imported; start() of a fresh instance always raises).  Reported
    as a violation (rule, instance) by whichever check met it."""
    def __init__(self, rule, instance, msg, site=None, applies=None):
        AnalysisError.__init__(self, msg)
        self.rule, self.instance, self.site = rule, instance, site
        self.applies = applies      # the properties it violates (None: all); for the others it is "no verdict"


class ImportRaises(Decided):
    """Abstract import found that a module's top-level statement raises on every path."""
    def __init__(self, msg, exc=None, site=None):
        Decided.__init__(self, "IMPORT", "import spake2", "the package cannot be imported - " + msg, site)
        self.exc = exc


def repo_root():
    return os.environ.get("VERIF_REPO", "/repo")


EXCLUDED = {"_version.py": "generated version stub (versioneer); no protocol code"}
EXCLUDED_DIRS = {"test": "test-suite, not shipped behaviour", "__pycache__": "bytecode cache"}


class Module(object):
    def __init__(self, name, path, is_pkg, src=None):
        self.name = name
        self.path = path
        self.is_pkg = is_pkg
        if src is None:
            with open(path, "rb") as f:
                src = f.read()
        self.src = src if isinstance(src, bytes) else src.encode()
        self.tree = ast.parse(self.src, filename=path)
        self.env = {}          # static bindings: name -> FuncV | ClassV | ("import", mod, name) | ("assign",) | ExtV | ModV
        self.globals = {}      # values after abstract import (filled by the evaluator)
        self.imported = False
        for n in ast.walk(self.tree):
            for c in ast.iter_child_nodes(n):
                c._parent = n

    @property
    def relpath(self):
        return os.path.relpath(self.path, repo_root())

    def package(self):
        return self.name if self.is_pkg else self.name.rsplit(".", 1)[0]


class World(object):
    """The parsed package."""

    def __init__(self, root=None, pkg="spake2", sources=None):
        self.root = root or repo_root()
        self.pkg = pkg
        self.pkgdir = os.path.join(self.root, "src", pkg)
        self.mods = {}
        self.excluded = []
        self.excluded_mods = set()
        self.static = None
        if sources is not None:
            # in-memory package (positive-control fixtures of zero-count rules)
            for name, src in sources.items():
                is_pkg = name == pkg
                path = os.path.join(self.pkgdir, *(name.split(".")[1:] + (["__init__.py"] if is_pkg else []))) + ("" if is_pkg else ".py")
                self.mods[name] = Module(name, path, is_pkg, src=src)
            self._finish_init()
            return
        if not os.path.isdir(self.pkgdir):
            raise AnalysisError("package directory %s not found" % self.pkgdir)
        for dp, dn, fn in os.walk(self.pkgdir):
            for d in list(dn):
                if d in EXCLUDED_DIRS:
                    self.excluded.append((os.path.relpath(os.path.join(dp, d), self.root), EXCLUDED_DIRS[d]))
                    dn.remove(d)
            for f in sorted(fn):
                if not f.endswith(".py"):
                    continue
                p = os.path.join(dp, f)
                if f in EXCLUDED:
                    self.excluded.append((os.path.relpath(p, self.root), EXCLUDED[f]))
                    self.excluded_mods.add(".".join([pkg] + os.path.relpath(p, self.pkgdir)[:-3].split(os.sep)))
                    continue
                rel = os.path.relpath(p, self.pkgdir)[:-3].split(os.sep)
                is_pkg = rel[-1] == "__init__"
                if is_pkg:
                    rel = rel[:-1]
                name = ".".join([pkg] + rel)
                try:
                    self.mods[name] = Module(name, p, is_pkg)
                except SyntaxError as e:
                    raise AnalysisError("cannot parse %s: %s" % (p, e))
        self._finish_init()

    def _finish_init(self):
        for m in self.mods.values():
            self._bind(m)
        for m in self.mods.values():
            for st in m.tree.body:
                if isinstance(st, ast.ClassDef):
                    self._link_bases(m, st, m.env[st.name])
        self.check_preconditions()

    # ------------------------------------------------------------------ binding
    def _bind(self, m):
        for st in m.tree.body:
            self._bind_stmt(m, st)

    def _bind_stmt(self, m, st):
        if isinstance(st, ast.FunctionDef):
            m.env[st.name] = FuncV(st, m)
        elif isinstance(st, ast.ClassDef):
            m.env[st.name] = ClassV(st, m)
        elif isinstance(st, (ast.Assign, ast.AnnAssign, ast.AugAssign)):
            targets = st.targets if isinstance(st, ast.Assign) else [st.target]
            for t in targets:
                for nn in ast.walk(t):
                    if isinstance(nn, ast.Name) and isinstance(nn.ctx, ast.Store):
                        m.env.setdefault(nn.id, ("assign",))
        elif isinstance(st, ast.Import):
            for a in st.names:
                if a.asname:
                    m.env[a.asname] = self._modref(a.name)
                else:
                    top = a.name.split(".")[0]
                    m.env[top] = self._modref(top)
        elif isinstance(st, ast.ImportFrom):
            target = self.resolve_from(m, st)
            for a in st.names:
                m.env[a.asname or a.name] = ("import", target, a.name)
        elif isinstance(st, (ast.If, ast.Try)):
            for sub in ast.iter_child_nodes(st):
                if isinstance(sub, ast.stmt):
                    self._bind_stmt(m, sub)
                elif isinstance(sub, ast.ExceptHandler):
                    for s2 in sub.body:
                        self._bind_stmt(m, s2)

    def _modref(self, name):
        return ModV(name) if name in self.mods else ExtV(name)

    def resolve_from(self, m, st):
        if st.level:
            base = m.package().split(".")
            base = base[:len(base) - (st.level - 1)]
            return ".".join(base + ([st.module] if st.module else []))
        return st.module

    def _link_bases(self, m, node, cls):
        for b in node.bases:
            v = None
            if isinstance(b, ast.Name):
                v = self.static_lookup(m, b.id)
            elif isinstance(b, ast.Attribute) and isinstance(b.value, ast.Name):
                mv = self.static_lookup(m, b.value.id)
                if isinstance(mv, ModV):
                    v = self.static_lookup(self.mods[mv.name], b.attr)
            if isinstance(v, ClassV):
                cls.bases.append(v)
            else:
                cls.extbases.append(ast.unparse(b))

    def static_lookup(self, m, name, seen=()):
        """Resolve a module-level name to FuncV/ClassV/ModV/ExtV, ('assign',) or None."""
        b = m.env.get(name)
        if b is None:
            return None
        if isinstance(b, tuple) and b[0] == "import":
            _, target, n = b
            if (target, n) in seen:
                return None
            sub = (target + "." + n) if target else n
            if target in self.mods:
                tm = self.mods[target]
                r = self.static_lookup(tm, n, seen + ((target, n),))
                if r is not None:
                    return r if not (isinstance(r, tuple) and r[0] == "assign") else ("assign", tm, n)
                if sub in self.mods:
                    return ModV(sub)
                return None
            if sub in self.mods:
                return ModV(sub)
            if target and target.split(".")[0] == self.pkg:
                return ExtV(sub)       # excluded package module (e.g. _version)
            return ExtV(sub)
        if isinstance(b, tuple) and b[0] == "assign":
            return ("assign", m, name)
        return b

    # ------------------------------------------------------------------ inventory
    def functions(self):
        """All function definitions (module level, methods, nested) as (module, qualname, node)."""
        out = []
        for m in self.mods.values():
            def walk(body, prefix):
                for st in body:
                    if isinstance(st, (ast.FunctionDef, ast.AsyncFunctionDef)):
                        out.append((m, prefix + st.name, st))
                        walk(st.body, prefix + st.name + ".")
                    elif isinstance(st, ast.ClassDef):
                        walk(st.body, prefix + st.name + ".")
                    elif isinstance(st, (ast.If, ast.For, ast.While, ast.Try, ast.With)):
                        for f in ("body", "orelse", "finalbody"):
                            walk(getattr(st, f, []) or [], prefix)
                        for h in getattr(st, "handlers", []):
                            walk(h.body, prefix)
            walk(m.tree.body, "")
        return out

    def classes(self):
        return [v for m in self.mods.values() for v in m.env.values() if isinstance(v, ClassV)]

    def inventory(self):
        calls = stores = substores = 0
        for m in self.mods.values():
            for n in ast.walk(m.tree):
                if isinstance(n, ast.Call):
                    calls += 1
                elif isinstance(n, ast.Attribute) and isinstance(n.ctx, ast.Store):
                    stores += 1
                elif isinstance(n, ast.Subscript) and isinstance(n.ctx, ast.Store):
                    substores += 1
        return {"modules": sorted(m.relpath for m in self.mods.values()),
                "excluded": ["%s (%s)" % e for e in sorted(self.excluded)],
                "functions": len(self.functions()), "classes": len(self.classes()),
                "call_sites": calls, "attribute_stores": stores, "subscript_stores": substores,
                "source_digest": self.digest()}

    def digest(self):
        h = hashlib.sha256()
        for name in sorted(self.mods):
            h.update(name.encode())
            h.update(self.mods[name].src)
        return h.hexdigest()[:16]

    # ------------------------------------------------------------------ analysability
    def check_preconditions(self):
        """Dynamic features that would make every static verdict meaningless (DESIGN 2.1)."""
        for m in self.mods.values():
            for n in ast.walk(m.tree):
                bad = None
                if isinstance(n, ast.Call) and isinstance(n.func, ast.Name):
                    if n.func.id in ("exec", "eval", "compile", "__import__", "globals", "locals", "vars"):
                        bad = "call of %s()" % n.func.id
                    # getattr/setattr with a computed name are resolved by the evaluator when the
                    # name folds to a constant (e.g. a decorator argument); otherwise it stops there
                elif isinstance(n, ast.ImportFrom) and any(a.name == "*" for a in n.names):
                    bad = "star import"
                elif isinstance(n, ast.ClassDef) and any(k.arg == "metaclass" for k in n.keywords):
                    bad = "metaclass"
                elif isinstance(n, ast.FunctionDef) and n.name in ("__getattr__", "__getattribute__", "__setattr__"):
                    bad = "definition of %s" % n.name
                elif isinstance(n, (ast.AsyncFunctionDef, ast.Await, ast.AsyncFor, ast.AsyncWith)):
                    bad = "async construct"          # (plain generators are evaluated eagerly by the evaluator)
                if bad:
                    raise AnalysisError("%s:%d: %s is outside the analysable subset"
                                        % (m.relpath, getattr(n, "lineno", 0), bad))

    # ------------------------------------------------------------------ shared mutable containers
    _CONTAINER_CTORS = ("list", "dict", "set", "bytearray", "defaultdict", "OrderedDict", "deque", "Counter")
    _MUTATING = ("append", "extend", "insert", "pop", "remove", "clear", "sort", "reverse", "update", "setdefault",
                 "popitem", "add", "discard", "__setitem__", "__delitem__", "appendleft", "extendleft", "popleft", "move_to_end")

    @classmethod
    def _is_container_expr(cls, e):
        if isinstance(e, (ast.List, ast.Dict, ast.Set, ast.ListComp, ast.DictComp, ast.SetComp)):
            return True
        return isinstance(e, ast.Call) and ((isinstance(e.func, ast.Name) and e.func.id in cls._CONTAINER_CTORS)
                                            or (isinstance(e.func, ast.Attribute) and e.func.attr in cls._CONTAINER_CTORS))

    def shared_containers(self):
        """Containers that outlive a call and are mutated by some function body:
        {('module', mod, name) | ('class', class qual, attr) | ('default', func node id, param)}.
        Their contents depend on the call history of the process."""
        if getattr(self, "_msc", None) is not None:
            return self._msc
        cand_mod, cand_cls, cand_def = set(), {}, {}
        for m in self.mods.values():
            for st in m.tree.body:
                if isinstance(st, ast.Assign) and self._is_container_expr(st.value):
                    for t in st.targets:
                        if isinstance(t, ast.Name):
                            cand_mod.add((m.name, t.id))
                elif isinstance(st, ast.ClassDef):
                    for c in st.body:
                        if isinstance(c, ast.Assign) and self._is_container_expr(c.value):
                            for t in c.targets:
                                if isinstance(t, ast.Name):
                                    cand_cls.setdefault(t.id, set()).add(m.name + "." + st.name)
        for (m, qual, node) in self.functions():
            a = node.args
            names = [x.arg for x in a.args]
            for nm, d in list(zip(names[len(names) - len(a.defaults):], a.defaults)) + \
                    [(x.arg, d) for x, d in zip(a.kwonlyargs, a.kw_defaults) if d is not None]:
                if self._is_container_expr(d):
                    cand_def[(id(node), nm)] = node
        mutated = set()
        for (m, qual, node) in self.functions():
            for n in ast.walk(node):
                base = None
                if isinstance(n, ast.Subscript) and isinstance(n.ctx, (ast.Store, ast.Del)):
                    base = n.value
                elif isinstance(n, ast.AugAssign) and isinstance(n.target, ast.Subscript):
                    base = n.target.value
                elif isinstance(n, ast.Call) and isinstance(n.func, ast.Attribute) and n.func.attr in self._MUTATING:
                    base = n.func.value
                if base is None:
                    continue
                if isinstance(base, ast.Name):
                    # innermost enclosing function that binds the name as a parameter
                    f = n
                    hit = False
                    while f is not None:
                        f = getattr(f, "_parent", None)
                        if isinstance(f, (ast.FunctionDef, ast.Lambda)):
                            params = [x.arg for x in f.args.args + f.args.kwonlyargs]
                            if base.id in params:
                                if (id(f), base.id) in cand_def:
                                    mutated.add(("default", id(f), base.id))
                                hit = True
                                break
                            if any(isinstance(x, ast.Name) and isinstance(x.ctx, ast.Store) and x.id == base.id for x in ast.walk(f)):
                                hit = True      # a local of that function
                                break
                    if not hit:
                        v = self.static_lookup(m, base.id)
                        if isinstance(v, tuple) and v[0] == "assign" and (v[1].name, v[2]) in cand_mod:
                            mutated.add(("module", v[1].name, v[2]))
                elif isinstance(base, ast.Attribute) and isinstance(base.value, ast.Name):
                    if base.attr in cand_cls:
                        for cq in cand_cls[base.attr]:
                            mutated.add(("class", cq, base.attr))
                    mv = self.static_lookup(m, base.value.id)
                    if isinstance(mv, ModV) and (mv.name, base.attr) in cand_mod:
                        mutated.add(("module", mv.name, base.attr))
        self._msc = mutated
        return mutated

    # ------------------------------------------------------------------ anchors
    def module(self, name):
        if name not in self.mods:
            raise AnalysisError("anchor vanished: module %s" % name)
        return self.mods[name]

    def where(self, node, mod):
        return "%s:%d" % (mod.relpath, getattr(node, "lineno", 0))


def stmt_text(node):
    """Normalised source text of a statement (for keys that survive reformatting)."""
    try:
        return ast.unparse(node).split("\n")[0][:160]
    except Exception:
        return type(node).__name__
