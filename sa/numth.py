"""Number theory and the checker's own reference model, applied to *extracted constants*
only (DESIGN 3.7).  Nothing here touches repository code."""
import hashlib
import hmac


def _mr(n, a):
    d, s = n - 1, 0
    while d % 2 == 0:
        d //= 2
        s += 1
    x = pow(a, d, n)
    if x in (1, n - 1):
        return True
    for _ in range(s - 1):
        x = x * x % n
        if x == n - 1:
            return True
    return False


def jacobi(a, n):
    a %= n
    r = 1
    while a:
        while a % 2 == 0:
            a //= 2
            if n % 8 in (3, 5):
                r = -r
        a, n = n, a
        if a % 4 == 3 and n % 4 == 3:
            r = -r
        a %= n
    return r if n == 1 else 0


def _lucas_strong(n):
    # Selfridge parameters
    D = 5
    while True:
        j = jacobi(D, n)
        if j == -1:
            break
        if j == 0 and abs(D) < n:
            return False
        D = -D - 2 if D > 0 else -D + 2
        if abs(D) > 10 ** 6:
            return False
    P, Q = 1, (1 - D) // 4
    d, s = n + 1, 0
    while d % 2 == 0:
        d //= 2
        s += 1
    U, V, Qk = 0, 2, 1
    inv2 = (n + 1) // 2
    for bit in bin(d)[2:]:
        U, V = U * V % n, (V * V - 2 * Qk) % n
        Qk = Qk * Qk % n
        if bit == "1":
            U, V = ((P * U + V) * inv2) % n, ((D * U + P * V) * inv2) % n
            Qk = Qk * Q % n
    if U == 0 or V == 0:
        return True
    for _ in range(s - 1):
        V = (V * V - 2 * Qk) % n
        Qk = Qk * Qk % n
        if V == 0:
            return True
    return False


_SMALL = [2, 3, 5, 7, 11, 13, 17, 19, 23, 29, 31, 37, 41, 43, 47, 53]


def is_square(n):
    if n < 0:
        return False
    import math
    r = math.isqrt(n)
    return r * r == n


def is_probable_prime(n, rounds=16, seed=0):
    """Baillie-PSW plus `rounds` fixed-base Miller-Rabin rounds."""
    if n < 2:
        return False
    for p in _SMALL:
        if n == p:
            return True
        if n % p == 0:
            return False
    if not _mr(n, 2):
        return False
    if is_square(n) or not _lucas_strong(n):
        return False
    bases = list(_SMALL[1:rounds])
    if rounds > len(_SMALL):
        import random
        rng = random.Random(seed)
        bases += [rng.randrange(2, n - 1) for _ in range(rounds - len(_SMALL))]
    return all(_mr(n, a) for a in bases)


def legendre(a, p):
    r = pow(a % p, (p - 1) // 2, p)
    return -1 if r == p - 1 else r


# ---------------------------------------------------------------- HKDF (RFC 5869)

def hkdf_sha256(ikm, salt, info, length):
    if not salt:
        salt = b"\x00" * 32
    prk = hmac.new(salt, ikm, hashlib.sha256).digest()
    okm, t, i = b"", b"", 1
    while len(okm) < length:
        t = hmac.new(prk, t + info + bytes([i]), hashlib.sha256).digest()
        okm += t
        i += 1
    return okm[:length]


# ---------------------------------------------------------------- affine twisted Edwards (a = -1)

class Edwards(object):
    def __init__(self, Q, d):
        self.Q, self.d = Q, d % Q

    def on_curve(self, P):
        x, y = P
        return (-x * x + y * y - 1 - self.d * x * x * y * y) % self.Q == 0

    def add(self, P1, P2):
        Q, d = self.Q, self.d
        x1, y1 = P1
        x2, y2 = P2
        k = d * x1 * x2 * y1 * y2 % Q
        x3 = (x1 * y2 + y1 * x2) * pow(1 + k, Q - 2, Q) % Q
        y3 = (y1 * y2 + x1 * x2) * pow(1 - k, Q - 2, Q) % Q
        return (x3, y3)

    def mul(self, P, n):
        R = (0, 1)
        while n:
            if n & 1:
                R = self.add(R, P)
            P = self.add(P, P)
            n >>= 1
        return R

    def xrecover(self, y):
        """A square root x of (y^2-1)/(d y^2+1), even representative, or None."""
        Q, d = self.Q, self.d
        xx = (y * y - 1) * pow(d * y * y + 1, Q - 2, Q) % Q
        x = pow(xx, (Q + 3) // 8, Q)
        if (x * x - xx) % Q:
            x = x * pow(2, (Q - 1) // 4, Q) % Q
        if (x * x - xx) % Q:
            return None
        return Q - x if x % 2 else x

    def encode(self, P):
        x, y = P
        return (y | ((x & 1) << 255)).to_bytes(32, "little")
