"""Linear-form domain over group generators (DESIGN 3.5 / 4.1).

Element terms of the group interface are interpreted in the free module over atoms
(generators): e.scalarmult(s) -> s*e, a.add(b) -> a+b.  Coefficients are polynomials
with integer coefficients in the scalar atoms (represented over a 521-bit prime field,
far larger than any coefficient that can occur)."""
from .loader import AnalysisError
from .poly import Poly
from .terms import App, Const, Sym, is_app, show

P521 = 2 ** 521 - 1


class Lin(object):
    def __init__(self, terms=None):
        self.t = {k: v for k, v in (terms or {}).items() if not v.is_zero()}

    def __add__(self, o):
        t = dict(self.t)
        for k, v in o.t.items():
            t[k] = t[k] + v if k in t else v
        return Lin(t)

    def scale(self, c):
        return Lin({k: v * c for k, v in self.t.items()})

    def __eq__(self, o):
        keys = set(self.t) | set(o.t)
        z = Poly(P521)
        return all((self.t.get(k, z) - o.t.get(k, z)).is_zero() for k in keys)

    def subst_atom(self, atom, lin):
        out = Lin({k: v for k, v in self.t.items() if k != atom})
        if atom in self.t:
            c = self.t[atom]
            out = out + lin.scale(c)
        return out

    def show(self, names):
        return " + ".join("(%s)*%s" % (v.show(4), names.get(k, "?")) for k, v in sorted(self.t.items(), key=lambda kv: names.get(kv[0], ""))) or "0"


class Interp(object):
    """Interprets element/scalar terms; atoms are assigned names in order of discovery."""

    def __init__(self):
        self.elem_atoms = {}    # term key -> name
        self.scal_atoms = {}
        self.terms = {}

    def atom_e(self, t, hint=None):
        if t._key not in self.elem_atoms:
            self.elem_atoms[t._key] = hint or "E%d" % len(self.elem_atoms)
            self.terms[self.elem_atoms[t._key]] = t
        return self.elem_atoms[t._key]

    def atom_s(self, t, hint=None):
        if t._key not in self.scal_atoms:
            self.scal_atoms[t._key] = hint or "s%d" % len(self.scal_atoms)
            self.terms[self.scal_atoms[t._key]] = t
        return self.scal_atoms[t._key]

    def scalar(self, t):
        if isinstance(t, Const) and isinstance(t.v, int) and not isinstance(t.v, bool):
            return Poly.const(P521, t.v)
        if is_app(t, "USub"):
            return -self.scalar(t.args[0])
        if is_app(t, "Add", "Sub", "Mult") and len(t.args) == 2:
            a, b = self.scalar(t.args[0]), self.scalar(t.args[1])
            return a + b if t.f == "Add" else a - b if t.f == "Sub" else a * b
        return Poly.var(P521, self.atom_s(t))

    def elem(self, t):
        if is_app(t, ".scalarmult") and len(t.args) == 2 and not t.kw:
            return self.elem(t.args[0]).scale(self.scalar(t.args[1]))
        if is_app(t, ".add") and len(t.args) == 2 and not t.kw:
            return self.elem(t.args[0]) + self.elem(t.args[1])
        if is_app(t, ".negate") and len(t.args) == 1:
            return self.elem(t.args[0]).scale(Poly.const(P521, -1))
        if is_app(t, ".subtract") and len(t.args) == 2:
            return self.elem(t.args[0]) + self.elem(t.args[1]).scale(Poly.const(P521, -1))
        return Lin({self.atom_e(t): Poly.const(P521, 1)})

    def names(self):
        return {v: v for v in self.elem_atoms.values()}


def encoded_element(t):
    """t = E.to_bytes() -> E, else None."""
    if is_app(t, ".to_bytes") and len(t.args) == 1 and not t.kw:
        return t.args[0]
    return None
