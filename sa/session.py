"""Abstract model of the three public session classes (shared by the session-level rules).

Entry points are found through the names the README publishes (`from spake2 import
SPAKE2_A, SPAKE2_B, SPAKE2_Symmetric`, `.start()`, `.finish(msg)`, `.serialize()`,
`.from_serialized(data, params)`); everything else is reached by resolving calls.
The group is a symbol `$G`: group operations stay uninterpreted method applications,
which is exactly the group interface the per-group rules (C05, C12-C15) discharge.
"""
from .evalr import Ev, Policy, Outcome
from .loader import AnalysisError
from .terms import Sym, Obj, ClassV, FuncV, Const, App, show, subterms, is_app

PUBLIC_CLASSES = ("SPAKE2_A", "SPAKE2_B", "SPAKE2_Symmetric")


def new_ev(world, **kw):
    ev = Ev(world, **kw)
    st = ev.import_all()
    if st.pc:
        world.import_pc = list(st.pc)
        st.pc = []
    return ev


def public_class(world, ev, name):
    m = world.module("spake2")
    v = ev.module_global(m, name, None)
    if not isinstance(v, ClassV):
        raise AnalysisError("anchor vanished: public class spake2.%s" % name)
    return v


class ClassModel(object):
    pass


def rets(outs):
    return [o for o in outs if o.kind == "return"]


def raises(outs):
    return [o for o in outs if o.kind == "raise"]


def build_params(world, ev, st, group=None):
    pm = world.module("spake2.params")
    P = ev.module_global(pm, "_Params", None)
    if not isinstance(P, ClassV):
        raise AnalysisError("anchor vanished: spake2.params._Params")
    outs = ev.run(P, [group if group is not None else Sym("G")], [], st)
    r = rets(outs)
    if len(r) != 1:
        raise AnalysisError("_Params(group) has %d normal paths on a symbolic group" % len(r))
    return r[0].state, r[0].value


def ctor_args(cls, params, tag=""):
    init = cls.lookup("__init__")
    if init is None or init[0] != "func":
        raise AnalysisError("anchor vanished: %s.__init__" % cls.name)
    a = init[1].args
    names = [x.arg for x in a.args][1:]
    ndef = len(a.defaults)
    required = names[:len(names) - ndef] if ndef else names
    kw = []
    syms = {}
    for n in names:
        if n == "password":
            v = Sym("pw", "bytes")
        elif n == "params":
            v = params
        elif n == "entropy_f":
            v = Sym("entropy_f" + tag)
        elif n.startswith("id"):
            v = Sym(n, "bytes")
        elif n in required:
            raise AnalysisError("%s.__init__ has an unknown required parameter %r" % (cls.name, n))
        else:
            continue
        syms[n] = v
        kw.append((n, v))
    for need in ("password", "params", "entropy_f"):
        if need not in syms:
            raise AnalysisError("anchor vanished: %s.__init__ parameter %r" % (cls.name, need))
    return kw, syms


def build(world, ev, cname, tag="", st0=None):
    """The life cycle of one public class on symbolic inputs (single construction path)."""
    ms = models(world, ev, cname, tag, st0)
    if len(ms) != 1:
        raise AnalysisError("%s(...) has %d normal construction paths" % (cname, len(ms)))
    return ms[0]


def models(world, ev, cname, tag="", st0=None):
    """One ClassModel per normal construction path (normally exactly one)."""
    cls = public_class(world, ev, cname)
    st = (st0 or world.static).fork()
    st, params = build_params(world, ev, st)
    kw, syms = ctor_args(cls, params, tag)
    outs = ev.run(cls, [], kw, st)
    r = rets(outs)
    if not r and outs and all(o.kind == "raise" for o in outs):
        from .loader import Decided
        raise Decided("LIFECYCLE", cname + "()", "%s(password, ...) raises on every path (%s): no instance can be created"
                      % (cname, "; ".join(sorted({"%s at %s:%s" % (o.exc, (o.site or ("?", 0))[0], (o.site or ("?", 0))[1]) for o in outs})[:4])),
                      next((o.site for o in outs if o.site), None), applies=("C01", "C03", "C04"))
    if not r:
        raise AnalysisError("%s(...) has no normal construction path" % cname)
    if len(r) > 8:
        raise AnalysisError("%s(...) has %d construction paths" % (cname, len(r)))
    return [_model(world, ev, cname, tag, cls, params, syms, outs, o) for o in r]


def _model(world, ev, cname, tag, cls, params, syms, outs, r0):
    cm = ClassModel()
    cm.name = cname
    cm.tag = tag
    cm.cls = cls
    cm.params = params
    cm.syms = syms
    cm.msg = Sym("msg" + tag, "bytes")
    cm.ctor = outs
    cm.obj = r0.value
    cm.st_new = r0.state
    if not isinstance(cm.obj, Obj):
        raise AnalysisError("%s(...) does not return an instance" % cname)
    cm.fields_new = dict(cm.st_new.heap[cm.obj.oid])
    # --- life cycle from the fresh instance
    cm.start = ev.run_method(cm.obj, "start", [], st=cm.st_new.fork())
    cm.finish_unstarted = ev.run_method(cm.obj, "finish", [cm.msg], st=cm.st_new.fork())
    cm.serialize_unstarted = ev.run_method(cm.obj, "serialize", [], st=cm.st_new.fork())
    cm.started = rets(cm.start)
    if cm.start and not cm.started and all(o.kind == "raise" for o in cm.start):
        from .loader import Decided
        raise Decided("LIFECYCLE", cname + ".start", "%s.start() of a fresh instance raises on every path (%s): no message is ever produced"
                      % (cname, "; ".join(sorted({"%s at %s:%s" % (o.exc, (o.site or ("?", 0))[0], (o.site or ("?", 0))[1]) for o in cm.start})[:4])),
                      next((o.site for o in cm.start if o.site), None),
                      # the properties that promise a result of start() (the others hold vacuously or cannot be examined)
                      applies=("C01", "C03", "C04"))
    cm.start_again = []
    cm.finish = []
    cm.serialize = []
    for s in cm.started:
        cm.start_again.append(ev.run_method(cm.obj, "start", [], st=s.state.fork()))
        cm.finish.append(ev.run_method(cm.obj, "finish", [cm.msg], st=s.state.fork()))
        cm.serialize.append(ev.run_method(cm.obj, "serialize", [], st=s.state.fork()))
    return cm


def restore(world, ev, reader_cls, data_term, st, params):
    got = ev.getattr(reader_cls, "from_serialized", st, ("<rule>", 0, "from_serialized"))
    if len(got) != 1:
        raise AnalysisError("anchor vanished: %s.from_serialized" % reader_cls.name)
    s2, fs = got[0]
    return ev.run(fs, [data_term, params], [], s2)


def free_syms(t):
    return sorted({x.n for x in subterms(t) if isinstance(x, Sym)})


def app_heads(t):
    return sorted({x.f for x in subterms(t) if isinstance(x, App)})


# ----------------------------------------------------------------------------- shared term helpers

def H(t):
    from .terms import mk_app
    return App("H", (t,))


def payload_of(msg):
    from .terms import mk_app, Const
    return mk_app("slice", (msg, Const(1), Const(None), Const(None)))


def norm_codec(t):
    """Apply the group-interface inverse bytes_to_scalar(scalar_to_bytes(x)) == x (C15 K2/K4:
    mutually inverse on [0,q); x is a sampled scalar, in range by C11)."""
    from .terms import mk_app, TupleV, DictV
    memo = {}

    def go(x):
        k = x._key
        if k in memo:
            return memo[k]
        if isinstance(x, App):
            args = [go(a) for a in x.args]
            kw = [(kk, go(v)) for kk, v in x.kw]
            r = mk_app(x.f, args, kw)
            if r.f == ".bytes_to_scalar" and len(r.args) == 2 and is_app(r.args[1], ".scalar_to_bytes") \
                    and len(r.args[1].args) == 2 and r.args[1].args[0] == r.args[0]:
                r = r.args[1].args[1]
        elif isinstance(x, TupleV):
            r = TupleV([go(a) for a in x.items], x.kind)
        elif isinstance(x, DictV):
            r = DictV([(kk, go(v)) for kk, v in x.items.items()])
        else:
            r = x
        memo[k] = r
        return r
    return go(t)


def outbound_of(cm, s):
    """The own outbound element bytes = start() message without its constant side prefix."""
    v = s.value
    if is_app(v, "cat") and isinstance(v.args[0], Const) and len(v.args) == 2:
        return v.args[0], v.args[1]
    return None, None


def canon_reencode(t):
    """E = bytes_to_element(b)  =>  E.to_bytes() == b: decoding accepts only the canonical
    encoding of exact width (C05 D1/D2), so re-encoding the decoded element gives the raw bytes."""
    from .terms import mk_app, TupleV
    memo = {}

    def go(x):
        k = x._key
        if k in memo:
            return memo[k]
        if isinstance(x, App):
            r = mk_app(x.f, [go(a) for a in x.args], [(kk, go(v)) for kk, v in x.kw])
            if r.f == ".to_bytes" and len(r.args) == 1 and is_app(r.args[0], ".bytes_to_element") and len(r.args[0].args) == 2:
                r = r.args[0].args[1]
        elif isinstance(x, TupleV):
            r = TupleV([go(a) for a in x.items], x.kind)
        else:
            r = x
        memo[k] = r
        return r
    return go(t)
